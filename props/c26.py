"""C26 - a failing notification handler never changes the protocol exchange (E4, differential run A vs run B)."""
from engines import lifecycle as L
from engines import scenario as SC
from vlib.core import HarnessError

LEVEL = "exploration"
RULE = (
    "Hypothesis draws a lifecycle scenario between two pynetdicom AEs (scripts, handler behaviours incl. raising intervention handlers, aborts, "
    "timeouts) with a fixed fair (fifo) schedule, and a set of fractions. Run A binds recording notification handlers to all 17 notification "
    "events on both sides; run B is the same scenario with the same handlers raising at the invocation indices selected by the fractions. "
    "Oracle: the byte-exact wire transcripts of both directions and both sides' outcomes are identical in A and B, and no pynetdicom thread dies "
    "in B that did not die in A; intervention-handler exceptions never surface as a thread exception. "
    "Non-trivial = >=3 raising invocations on >=2 event kinds. Second sub-check ('intervention', thread-free acceptor association): a C-ECHO / C-STORE / "
    "C-FIND / DIMSE-N request is served by an intervention handler that behaves well up to a generated point (before the first result, instead "
    "of a result, after 0..3 Pending results) and then raises one of 10 exception classes (incl. one with empty args); oracle: nothing escapes "
    "Association._serve_request, pynetdicom does not abort, and the last response carries the documented failure status for a handler exception."
)
ASSUMPTIONS = [
    "E4 substitution table; the fifo schedule makes both runs deterministic so the differential is exact (virtual time, no real clock)",
    "a raising notification handler prevents later handlers bound to the same event from running (pynetdicom's trigger loop) - the recorder is "
    "therefore bound first; this is not part of the asserted property",
]
SHARDS = {"quick": 1, "thorough": 16}
# 'exception' means a subclass of Exception: process-control exceptions (SystemExit, KeyboardInterrupt, GeneratorExit) are not generated -
# whether a library should turn those into a DIMSE failure response is a design decision, not part of the statement


def _transcript(out):
    return [(cid, side, b) for (_, cid, side, b) in out["tap"]]


def _outcomes(out):
    return ([tuple(a["outcome"]) for a in out["acc_assocs"]], [tuple(r.get("outcome") or ()) for r in out["requestors"]])


def check_diff(ctx, case):
    sc, fr_acc, fr_req = case["scenario"], case["raise_acc"], case["raise_req"]
    a = SC.run(sc)
    if a["how"] == "budget":
        ctx.note(case, nontrivial=False, classes=["budget"])
        ctx.inconclusive += 1
        return
    na, nr = a["_rec_acc"].count, a["requestors"][0]["_rec"].count
    shapes = case.get("shapes") or [0]
    plan = {"acceptor": {int(f * na): shapes[i % len(shapes)] for i, f in enumerate(fr_acc)} if na else {},
            "requestor0": {int(f * nr): shapes[(i + 3) % len(shapes)] for i, f in enumerate(fr_req)} if nr else {}}
    b = SC.run(sc, raise_plan=plan)
    kinds = set()
    for side, rec in (("acceptor", b["_rec_acc"]), ("requestor0", b["requestors"][0]["_rec"])):
        for i in plan[side]:
            if i < len(rec.events):
                kinds.add(rec.events[i][2])
    n_raise = len(plan["acceptor"]) + len(plan["requestor0"])
    ctx.note(case, nontrivial=n_raise >= 3 and len(kinds) >= 2, classes=[sc["schedule"]["policy"], a["how"], f"raises={min(n_raise, 6)}"] + sorted("raise:" + k.replace("EVT_", "") for k in kinds))
    if b["how"] == "budget":
        ctx.inconclusive += 1
        return
    died_a = {t["name"] for t in L.died(a["report"])}
    died_b = [t for t in L.died(b["report"]) if t["name"] not in died_a]
    if died_b:
        t = died_b[0]
        ctx.fail("thread-died-with-raising-handlers", f"{t['kind']}:{t['exc'][2]}", f"{t['name']} died only when notification handlers raise: {t['exc'][:2]}; raising at {plan} ({sorted(kinds)})")
        return
    if died_a:
        ctx.exclude("thread-died(C05)")
        return
    ta, tb = _transcript(a), _transcript(b)
    if ta != tb:
        i = next((k for k, (x, y) in enumerate(zip(ta, tb)) if x != y), min(len(ta), len(tb)))
        first_kind = sorted(kinds)
        ctx.fail("wire-differs", "+".join(k.replace("EVT_", "") for k in first_kind)[:80], f"wire transcript differs at segment {i}: A={_seg(ta, i)} B={_seg(tb, i)}; raising at {plan} on {sorted(kinds)}")
        return
    if _outcomes(a) != _outcomes(b):
        ctx.fail("outcome-differs", "+".join(k.replace("EVT_", "") for k in sorted(kinds))[:80], f"outcomes differ: A={_outcomes(a)} B={_outcomes(b)}; raising at {plan}")


def _seg(t, i):
    if i >= len(t):
        return "<end>"
    cid, side, b = t[i]
    return (cid, side, None if b is None else b[:12].hex())


CHECKS = {"diff": check_diff}


# ------------------------------------------------------------------------------ second sentence: intervention handlers (E3)

def check_intervention(ctx, case):
    """A service request is served (thread-free acceptor association, engines/scp_grammar.py) by an intervention handler that behaves well
    up to a generated point and then raises an exception (any of the grammar's exception classes). Oracle: nothing escapes
    Association._serve_request, pynetdicom does not abort the association itself, and the last response carries the failure status the
    documentation names for a handler exception (C-STORE 0xC211, C-FIND 0xC311, DIMSE-N 0x0110; C-ECHO: the documented default response)."""
    from engines import scp_grammar as G
    from refs import handler_status_ref as HR
    from vlib import sig

    rtype, _uid, family = G.SERVICES[case["svc"]]
    obs = G.run_scp_case(case)
    msgs = obs.responses()
    where = "before-first-result" if case.get("pre") else ("after-results" if case.get("items") and case["items"][-1]["k"] != "raise" else "instead-of-result")
    ctx.note(case, nontrivial=True, classes=["intervention", rtype, f"family:{family}", f"exc:{case.get('pre') or case.get('end') or case['items'][-1].get('exc')}", where])
    txt = f"svc={case['svc']} handler raises {where}; responses {[None if m.status is None else hex(m.status) for m in msgs]} local_abort={obs.aborted_locally}"
    if obs.escaped is not None:
        ctx.fail("intervention-exception-escapes", f"{rtype}:{sig.exc_key(obs.escaped)}", f"_serve_request raised: {sig.exc_text(obs.escaped)}\n{txt}")
        return
    if obs.aborted_locally:
        ctx.fail("intervention-exception-aborts", f"{rtype}:{where}", f"pynetdicom aborted the association instead of sending the documented failure response\n{txt}")
        return
    if not msgs or msgs[-1].status is None:
        ctx.fail("intervention-no-response", f"{rtype}:{where}", f"no response was sent for the request\n{txt}")
        return
    want = HR.DOCUMENTED.get(rtype, {}).get("exception")
    if want is not None and msgs[-1].status != want:
        ctx.fail("intervention-status", f"{rtype}:{where}", f"last response has status 0x{msgs[-1].status:04X}, documented for a handler exception: 0x{want:04X}\n{txt}")


CHECKS["intervention"] = check_intervention


def run(ctx):
    from hypothesis import strategies as st

    pair, _, _ = L.strategies()

    @st.composite
    def case(draw):
        sc = dict(draw(pair))
        sc["schedule"] = {"policy": "fifo", "seed": 0, "preemptions": [], "nudges": []}
        fr = st.lists(st.floats(0, 0.999), min_size=0, max_size=6)
        return {"scenario": sc, "raise_acc": draw(fr), "raise_req": draw(fr), "shapes": draw(st.lists(st.integers(0, 7), min_size=1, max_size=6))}

    ctx.hyp("diff", case(), 60 if ctx.quick else 500)

    # intervention handlers: well-formed behaviour up to the exception
    from engines import scp_grammar as G

    exc = st.sampled_from(sorted(G.EXC))
    ok_ds = st.just({"t": "ds", "elems": [["PatientID", "P1"]]})

    @st.composite
    def icase(draw):
        svc = draw(st.sampled_from(sorted(k for k, v in G.SERVICES.items() if v[0] not in ("C-GET", "C-MOVE"))))
        rtype = G.SERVICES[svc][0]
        c = {"svc": svc, "ts": draw(st.sampled_from(sorted(G.TS))), "msg_id": draw(st.integers(0, 0xFFFF)), "cx": 2 * draw(st.integers(0, 127)) + 1}
        if rtype == "C-FIND":
            n = 0 if G.SERVICES[svc][2] == "relevant-patient" else draw(st.integers(0, 3))
            pend = [{"k": "pair", "st": {"t": "int", "v": 0xFF00}, "ds": draw(ok_ds)} for _ in range(n)]
            how = draw(st.integers(0, 2))
            c.update(mode="gen", items=pend, pre=None, end="return")
            if how == 0 or not pend:
                c.update(pre=draw(exc), items=[])
            elif how == 1:
                c["items"] = pend + [{"k": "raise", "exc": draw(exc)}]
            else:
                c["end"] = draw(exc)
        else:
            c.update(items=[{"k": "raise", "exc": draw(exc)}], pre=draw(st.one_of(st.none(), exc)), with_instance=True)
        return c

    ctx.hyp("intervention", icase(), 600 if ctx.quick else 4000)
