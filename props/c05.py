"""C05 - no schedule drives the provider into an undefined event; it returns to idle (E4 lifecycle scenarios)."""
from engines import lifecycle as L
from engines import scenario as SC
from vlib.core import HarnessError

LEVEL = "exploration"
RULE = (
    "Hypothesis draws lifecycle scenarios of three families - two pynetdicom AEs (requestor script associate/echo/store/find/sleep then "
    "release/abort/idle; acceptor handlers that return, delay, raise or abort; an abort issued from a second thread at a generated time on "
    "either side, as AE.shutdown() does), a raw requestor against a pynetdicom acceptor and a pynetdicom requestor against a raw acceptor (raw "
    "peers follow the protocol with one generated deviation: any of the 7 PDU kinds or an invalid PDU at any point, two PDUs in one segment, "
    "partial PDU then close/stall/continue, close, half-close, silence) - with small virtual ACSE/DIMSE/network timeouts so expiries "
    "interleave, and a schedule (fifo/random/PCT + <=8 preemptions + <=4 clock nudges incl. wall-clock steps). Oracle: (I1) no exception "
    "escapes any pynetdicom thread (InvalidEventError in particular); (I2) every recorded FSM transition is a Table 9-10 pair and transitions "
    "chain from Sta1; (I3) at quiescence every association/provider thread has finished, the FSM is in Sta1 and the transport is closed; (I4) no "
    "pynetdicom thread is blocked without a deadline. Non-trivial = the transition log shows a local request processed outside Sta6, an "
    "AA-x path, ARTIM expiry or transport loss."
)
ASSUMPTIONS = [
    "E4 substitution table (engines/dsched.py): interleavings at blocking-call / watched-function-entry granularity, modelled TCP, step bound 30000",
    "user-level concurrency is limited to what the documentation supports: one user thread per association plus abort() from another thread "
    "(AE.shutdown) and abort() from inside handlers; release() from a second thread is not generated",
    "refs/fsm_ref.py for the transition table",
    "not asserted: the final FSM label of an association that is aborted/killed while its provider is still processing its very first event "
    "(stop_dul() sees Sta1, the provider then finishes AE-5 / AE-1 and exits in Sta2 / Sta4); the socket must still be closed",
]
SHARDS = {"quick": 1, "thorough": 16}


def check_lifecycle(ctx, sc):
    out = SC.run(sc)
    rep = out["report"]
    for p in out["raw"]:
        if p.error:
            raise HarnessError(f"raw peer failed: {p.error}")
    labels = L.classify_run(out)
    nt = bool(labels & {"local-request-outside-Sta6", "abort-path", "artim-expiry", "transport-loss"})
    classes = [sc["family"], sc["schedule"]["policy"], out["how"]] + sorted(labels)
    if sc.get("deviation"):
        classes.append("dev:" + sc["deviation"].split(":")[0])
    ctx.note(sc, nontrivial=nt, classes=classes)
    if out["how"] == "budget":
        ll = L.livelock(out, L.time_bound(sc))
        if ll:
            ctx.fail("not-finished", ll, f"step budget exhausted at virtual t={rep['now']} s, far beyond every timeout ({L.time_bound(sc)} s allowed): threads still alive {[(t['name'], t['state'], t['label'], t.get('where')) for t in rep['threads'] if t['state'] != 'done']}; family {sc['family']} dev={sc.get('deviation')}")
            return
        ctx.inconclusive += 1
        return

    # I1 - no exception escapes a pynetdicom thread
    for t in L.died(rep):
        name, msg, key = t["exc"]
        trig = _trigger_class(sc)
        if name == "InvalidEventError":
            pair = msg.replace("Invalid event ", "").replace(" for the current state ", "/").replace("'", "")
            ev, st_ = pair.split("/")
            # one root cause: a primitive the local user queued from a stale view of the provider, processed after the
            # provider has already aborted and is awaiting the transport close (Sta13)
            key = pair  # e.g. Evt9/Sta13: which stale local primitive reached the provider, and in which state
            ctx.fail("invalid-event", key, f"{t['name']} died: {msg}; scenario family {sc['family']} deviation={sc.get('deviation')}; "
                                                       f"acceptor={sc['acceptor'].get('handlers')}, shutdown_at={sc['acceptor'].get('shutdown_at')}, requestor={sc['requestors'][0].get('script') if sc['requestors'][0]['kind']=='pynetdicom' else 'raw'} abort_at={sc['requestors'][0].get('abort_at')}")
        else:
            ctx.fail("thread-exception", f"{t['kind']}:{key}", f"{t['name']} died with {name}: {msg}")
        return

    # I2 - transitions are table pairs and chain
    recs = [out["_rec_acc"]] + [r["_rec"] for r in out["requestors"] if "_rec" in r]
    for rec in recs:
        for clause, key, msg in L.fsm_history_failures(rec):
            ctx.fail(clause, key, msg)
            return

    # I4 / I3 - quiescent: nothing of pynetdicom may be left blocked
    stuck = [t for t in L.pynetdicom_threads(rep) if t["state"] != "done"]
    if stuck:
        forever = [t for t in stuck if t["state"] == "blocked-forever"]
        who = "+".join(sorted({f"{t['kind']}@{t['label']}" for t in stuck}))
        ctx.fail("blocked-forever" if forever else "not-finished", who, f"at quiescence (t={rep['now']}): {[(t['name'], t['state'], t['label']) for t in stuck]}; family {sc['family']} dev={sc.get('deviation')}")
        return
    for i, a in enumerate(out["acc_assocs"]):
        a["first_only"] = L.transitions_of(out["_rec_acc"], i) == [("Sta1", "Evt5", "AE-5", "Sta2")]
    for r in out["requestors"]:
        if r.get("assoc") is not None:
            r["first_only"] = L.transitions_of(r["_rec"], 0) == [("Sta1", "Evt1", "AE-1", "Sta4")]
    ends = list(out["acc_assocs"]) + [r for r in out["requestors"] if r.get("assoc") is not None]
    for a in ends:
        if a["state"] in ("Sta2", "Sta4") and not a["dul_alive"] and not a["alive"] and a.get("first_only"):
            # killed while the provider was still processing its very first event (stop_dul() saw Sta1): the FSM label is
            # not asserted (see ASSUMPTIONS), the transport must nevertheless be closed
            if not a["sock_closed"]:
                ctx.fail("transport-open", f"killed-during-first-action:{a['state']}", f"association killed while its provider processed its first event; socket left open; outcome={a.get('outcome')}")
                return
            continue
        if a["state"] != "Sta1" or a["dul_alive"] or a["alive"]:
            ctx.fail("not-idle", f"{a['state']}", f"association ended with FSM state {a['state']}, dul alive={a['dul_alive']}, assoc alive={a['alive']}, outcome={a.get('outcome')}")
            return
        if not a["sock_closed"]:
            ctx.fail("transport-open", a["state"], f"transport connection still open at the end: {a.get('outcome')}")
            return


def _trigger_class(sc):
    """which concurrent local actor the scenario contains (part of the root-cause key)"""
    t = []
    if sc["acceptor"].get("shutdown_at") is not None:
        t.append("acc-thread-abort")
    h = sc["acceptor"].get("handlers") or {}
    if any((v or {}).get("do") == "abort" for v in h.values()):
        t.append("handler-abort")
    for r in sc["requestors"]:
        if r.get("abort_at") is not None:
            t.append("req-thread-abort")
    return "+".join(t) or "single-user"


CHECKS = {"lifecycle": check_lifecycle}


def run(ctx):
    pair, rawreq, rawacc = L.strategies()
    n = 60 if ctx.quick else 500
    ctx.hyp("lifecycle", pair, n)
    ctx.hyp("lifecycle", rawreq, n)
    ctx.hyp("lifecycle", rawacc, n)
