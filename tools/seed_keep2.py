#!/venv/bin/python
"""seed_keep2.py <name e.g. C07A> "<caught-by summary>" ["<strengthening note>"] : keep a confirmed round-2 seeded change as /verif/seeded/<ID>/r2<A|B>/"""
import json, os, shutil, sys
N, caught = sys.argv[1], sys.argv[2]
note = sys.argv[3] if len(sys.argv) > 3 else ""
ID, X = N[:3], N[3:]
src = f"/tmp/seed2/out/{N}"
dst = f"/verif/seeded/{ID}/r2{X}"
os.makedirs(dst, exist_ok=True)
shutil.copy(f"{src}/patch.diff", f"{dst}/patch.diff")
shutil.copy(f"{src}/demo.py", f"{dst}/demo.py")
notes = open(f"{src}/notes.md").read() if os.path.exists(f"{src}/notes.md") else ""
meta = {
    "property": ID,
    "round": 2,
    "author": "independent sub-agent given only the property text and a scratch worktree (second round: two changes per property, different clauses)",
    "needs_to_manifest": notes[:3000],
    "confirmed": {
        "demo": "tools/eval_seed2.sh: demo.py exits 0 on a scratch worktree of /repo HEAD and 1 after `git apply patch.diff`",
        "check": f"VERIF_REPO=<scratch worktree with the patch> /venv/bin/python check.py {ID} --tier quick",
        "tests": "the test files exercising the changed modules, run by the author in a private network namespace (see needs_to_manifest)",
    },
    "caught_by": caught,
    "strengthening": note,
}
json.dump(meta, open(f"{dst}/meta.json", "w"), indent=1)
print("kept", N)
