"""C08 - no peer behaviour keeps pynetdicom blocked past its configured timeouts (E4: stalling / dribbling raw peers)."""
from engines import ps38ref as R
from engines import scenario as SC
from vlib.core import HarnessError

LEVEL = "exploration"
TO = {"acse": 2, "dimse": 2, "network": 4, "connection": 2}
BOUND = TO["connection"] + TO["acse"] + TO["dimse"] + 2 * TO["network"] + TO["acse"] + 3.0  # + ARTIM (= acse timeout) + margin
RULE = (
    "For both roles the byte transcript of a well-behaved raw peer (association negotiation, C-STORE command set, data set, release) "
    "is cut at a generated offset (uniform + biased to PDU boundaries +-1 and header bytes); after the cut the peer either stalls with the "
    "connection open, dribbles the rest one byte per d < network_timeout, (after complete PDUs) simply never answers, or ('flood', from a PDU boundary) streams complete A-RELEASE-RQ PDUs back to back for longer than the bound. Schedules: "
    f"fifo/random/pct + preemptions. Timeouts: {TO}, the connection timeout also None (the library default); in half of the cases the wall clock is stepped by an hour (either direction) at up to three generated scheduler steps. Oracle: by virtual time {BOUND} s (connection + acse + dimse + 2 x network + ARTIM + 3 s margin - "
    "deliberately weaker than 'the relevant one') every pynetdicom thread is finished, every user call has returned and the local socket is closed; "
    "a thread blocked with no deadline at all is reported as 'blocks forever'. Non-trivial = cut strictly inside a PDU (or dribbling)."
)
ASSUMPTIONS = [
    "E4 substitution table (engines/dsched.py); a stalled peer keeps the virtual connection open for 200 virtual seconds",
    "the bound is the sum of all configured timeouts, so a thread that only respects a different timeout than the relevant one is not reported",
]
SHARDS = {"quick": 1, "thorough": 16}


def _acceptor_transcript():
    """bytes a well-behaved raw requestor sends, with phase boundaries: [(phase, bytes, reads_before)]"""
    return [
        ("rq", R.ref_encode(SC.RAW_RQ), 0),
        ("store", SC.dimse_bytes("store", 1, nbytes=300, max_pdu=128), 1),  # read the AC first
        ("release", R.ref_encode(R.ReleaseRQ()), 1),  # read the C-STORE response first
    ]


def _store_rsp():
    from pynetdicom import dimse_messages as DM
    from pynetdicom import dimse_primitives as DP
    from pynetdicom.pdu import P_DATA_TF

    p = DP.C_STORE()
    p.MessageIDBeingRespondedTo = 1
    p.AffectedSOPClassUID = SC.CT
    p.AffectedSOPInstanceUID = "1.2.3.4"
    p.Status = 0
    m = DM.C_STORE_RSP()
    m.primitive_to_message(p)
    return b"".join(P_DATA_TF(pd).encode() for pd in m.encode_msg(3, 16382))


def _requestor_transcript():
    """bytes a well-behaved raw acceptor sends: [(phase, bytes, reads_before)]"""
    return [
        ("ac", R.ref_encode(SC.RAW_AC), 1),  # after reading the RQ
        ("store-rsp", _store_rsp(), 99),  # after reading the whole C-STORE request (several PDUs): read until idle
        ("release-rp", R.ref_encode(R.ReleaseRP()), 1),
    ]


def build(case):
    """plain case -> scenario"""
    role, phase_i, cut, mode, d = case["role"], case["phase"], case["cut"], case["mode"], case["d"]
    tr = _acceptor_transcript() if role == "acceptor" else _requestor_transcript()
    script = []
    for i, (ph, data, reads) in enumerate(tr):
        if reads == 99:
            script.append(["recv_idle", 0.5])
        else:
            for _ in range(reads):
                script.append(["recv_pdu", 8])
        if i < phase_i:
            script.append(["send", data])
            continue
        prefix, rest = data[:cut], data[cut:]
        if prefix:
            script.append(["send", prefix])
        if mode == "dribble":
            for k in range(len(rest)):
                script.append(["sleep", d])
                script.append(["send", rest[k : k + 1]])
            script.append(["sleep", 200])
        elif mode == "flood":
            # the peer never stops talking: complete A-RELEASE-RQ PDUs back to back (every 0.05 s) for longer than the bound. Whatever state
            # that drives the provider into (an abort and Sta13 at the latest), only its own timers can end the association.
            for _ in range(int((BOUND + 6) / 0.05)):
                script.append(["send", R.ref_encode(R.ReleaseRQ())])
                script.append(["sleep", 0.05])
        else:
            script.append(["sleep", 200])
        break
    script.append(["close"])
    sched = {"policy": case["policy"], "seed": case["seed"], "preemptions": case["pre"], "nudges": case.get("nudges", [])}
    TO = dict(globals()["TO"], connection=case.get("conn", 2))  # connection timeout 2 s or None (the library default)
    if role == "acceptor":
        return {"timeouts": TO, "max_steps": 60000, "time_limit": BOUND,
                "acceptor": {"kind": "pynetdicom", "handlers": {}},
                "requestors": [{"kind": "raw", "script": script}], "schedule": sched}
    return {"timeouts": TO, "max_steps": 60000, "time_limit": BOUND,
            "acceptor": {"kind": "raw", "script": script},
            "requestors": [{"kind": "pynetdicom", "script": [["associate"], ["store", 300], ["release"]]}], "schedule": sched}


def check_stall(ctx, case):
    role = case["role"]
    tr = _acceptor_transcript() if role == "acceptor" else _requestor_transcript()
    phase, data, _ = tr[case["phase"]]
    cut = case["cut"]
    inside = 0 < cut < len(data) and not _at_pdu_boundary(data, cut)
    classes = [role, f"{role[:3]}:{phase}", case["mode"], case["policy"], "cut-inside-pdu" if inside else "cut-at-boundary", f"connection-timeout={case.get('conn', 2)}"] + sorted({"clock-step:" + k for _, k in case.get("nudges", [])})
    sc = build(case)
    out = SC.run(sc)
    rep = out["report"]
    for p in out["raw"]:
        if p.error:
            raise HarnessError(f"raw peer failed: {p.error}")
    ctx.note(case, nontrivial=inside or case["mode"] == "dribble", classes=classes + [out["how"]])
    if out["how"] == "budget":
        ctx.inconclusive += 1
        return
    excs = [t for t in rep["threads"] if t["exc"]]
    if excs:
        ctx.cls("thread-exception(C05)")
    where = f"{role}:{phase}:{'inside' if inside else 'boundary'}:{case['mode']}"
    # pynetdicom threads: everything except the raw peer threads
    py = [t for t in rep["threads"] if not t["name"].startswith("raw-")]
    stuck = [t for t in py if t["state"] != "done"]
    if stuck:
        forever = [t for t in stuck if t["state"] == "blocked-forever"]
        kind = "blocks-forever" if forever else "blocked-past-timeouts"
        who = sorted({f"{t['kind']}@{t['label']}" for t in stuck})
        ctx.fail(kind, f"{case['mode']}:{role}:{phase}",
                 f"{where}: at virtual t={rep['now']} (bound {BOUND}) still not finished: {[(t['name'], t['state'], t['label']) for t in stuck]}; case={case}")
        return
    if role == "acceptor":
        for a in out["acc_assocs"]:
            if not a["sock_closed"]:
                ctx.fail("socket-open", where, f"acceptor socket still open at t={rep['now']}: {a}")
    else:
        r = out["requestors"][0]
        if not r["finished"]:
            ctx.fail("user-call-blocked", where, f"user script did not finish: {r['steps']}")
        elif r.get("assoc") is not None and not r["sock_closed"]:
            ctx.fail("socket-open", where, f"requestor socket still open at t={rep['now']}: {r['steps']}")


def _at_pdu_boundary(data, cut):
    o = 0
    while o + 6 <= len(data):
        if o == cut:
            return True
        o += 6 + int.from_bytes(data[o + 2 : o + 6], "big")
    return cut == o


CHECKS = {"stall": check_stall}


def strategy(ctx):
    from hypothesis import strategies as st

    lens = {"acceptor": [len(x[1]) for x in _acceptor_transcript()], "requestor": [len(x[1]) for x in _requestor_transcript()]}
    bounds = {}
    for role, tr in (("acceptor", _acceptor_transcript()), ("requestor", _requestor_transcript())):
        for i, (_, data, _) in enumerate(tr):
            b, o = [0], 0
            while o + 6 <= len(data):
                o += 6 + int.from_bytes(data[o + 2 : o + 6], "big")
                b.append(o)
            bounds[(role, i)] = b

    @st.composite
    def case(draw):
        role = draw(st.sampled_from(["acceptor", "requestor"]))
        phase = draw(st.integers(0, 2))
        n = lens[role][phase]
        k = draw(st.integers(0, 3))
        if k == 0:
            cut = draw(st.integers(0, n))
        elif k == 1:
            cut = min(max(draw(st.sampled_from(bounds[(role, phase)])) + draw(st.integers(-1, 7)), 0), n)
        elif k == 2:
            cut = draw(st.integers(1, min(6, n)))
        else:
            cut = n
        mode = draw(st.sampled_from(["stall", "stall", "dribble", "flood"]))
        if cut == n and mode == "dribble":
            mode = "stall"
        if mode == "flood":
            cut = draw(st.sampled_from(bounds[(role, phase)]))  # the flood starts at a PDU boundary
        d = draw(st.sampled_from([0.5, 1.5, 3.0]))
        if mode == "dribble" and n - cut > 40:
            cut = n - draw(st.integers(2, 40))  # keep dribbles short: the point is only that each gap is < network timeout
        return {"role": role, "phase": phase, "cut": cut, "mode": mode, "d": d, "conn": draw(st.sampled_from([2, None])),
                "policy": draw(st.sampled_from(["fifo", "random", "pct"])), "seed": draw(st.integers(0, 10**6)),
                "pre": [list(p) for p in draw(st.lists(st.tuples(st.integers(0, 3000), st.integers(0, 5)), max_size=4))],
                # wall-clock steps of one hour in either direction while the timeouts are pending: none of them may depend on the wall clock
                "nudges": [list(n) for n in draw(st.one_of(st.just([]), st.lists(st.tuples(st.integers(0, 400), st.sampled_from(["wall-", "wall+"])), min_size=1, max_size=3)))]}

    return case()


def run(ctx):
    ctx.hyp("stall", strategy(ctx), 120 if ctx.quick else 800)
