"""C14 - concurrent acceptor associations never exceed the configured maximum (E4: N requestors vs one acceptor AE)."""
from engines import ps38ref as R
from engines import scenario as SC
from vlib.core import HarnessError

LEVEL = "exploration"
RULE = (
    "Hypothesis draws maximum_associations M in 1..4, the number of association servers (1 or 2, on different virtual ports) the ONE acceptor AE runs, "
    "N in 1..3M requestors (raw or pynetdicom), each connecting to one of the AE's servers (random or alternating spread, so that each server may stay "
    "at or below M while the AE total exceeds it), with generated virtual start times (many equal, so negotiations overlap), hold times and endings "
    "(release / abort / drop the connection), and a schedule (fifo/random/PCT + preemptions) interleaving the N negotiation threads. Oracle (per "
    "application entity, i.e. over the associations of ALL its servers): replaying the acceptor AE's EVT_ESTABLISHED / EVT_RELEASED / EVT_ABORTED "
    "notifications in order, the number of simultaneously established associations never exceeds M; every A-ASSOCIATE-RJ on the wire is (2,3,2) = "
    "transient, presentation-related, local-limit-exceeded; in 'sequential' cases (arrivals 1.5 virtual seconds apart, each association held to the "
    "end) request k (in arrival order, whatever server it goes to) is accepted iff k <= M. Non-trivial = >=2 connections are in negotiation (between "
    "EVT_CONN_OPEN and established/rejected) at the same point of the event history while established + negotiating > M, or (class multi-server-over) "
    "the AE runs 2 servers, both receive requests and N > M."
)
ASSUMPTIONS = [
    "E4 substitution table; ae.active_associations sees the scheduler's view of thread liveness (threading.enumerate substituted in pynetdicom.ae and pynetdicom.transport)",
    "'established' interval of an association = from its EVT_ESTABLISHED to its EVT_RELEASED/EVT_ABORTED notification",
    "maximum_associations is a setting of the application entity (AE.maximum_associations docs: 'the maximum number of simultaneous associations' of the AE), not of one listen socket",
]
SHARDS = {"quick": 1, "thorough": 16}


def check_limit(ctx, case):
    M = case["max"]
    reqs = []
    servers = case.get("servers", 1)
    for r in case["requestors"]:
        port = SC.PORT + (r.get("server", 0) % servers)
        if r["kind"] == "raw":
            end = {"release": [["send", R.ref_encode(R.ReleaseRQ())], ["recv_until_close", 4], ["close"]],
                   "abort": [["send", R.ref_encode(R.Abort(0, 0))], ["close"]], "drop": [["close"]]}[r["end"]]
            reqs.append({"kind": "raw", "start": r["start"], "port": port, "script": [["send", R.ref_encode(SC.RAW_RQ)], ["recv_pdu", 4], ["sleep", r["hold"]]] + end})
        else:
            end = {"release": [["release"]], "abort": [["abort"]], "drop": [["abort"]]}[r["end"]]
            reqs.append({"kind": "pynetdicom", "start": r["start"], "port": port, "script": [["associate"], ["sleep", r["hold"]]] + end})
    sc = {"timeouts": {"acse": 3, "dimse": 3, "network": 60}, "max_steps": 60000, "quantum": 0.1,
          "acceptor": {"kind": "pynetdicom", "handlers": {}, "max_assoc": M, "servers": servers}, "requestors": reqs, "schedule": case["schedule"]}
    out = SC.run(sc)
    for p in out["raw"]:
        if p.error:
            raise HarnessError(f"raw peer failed: {p.error}")
    rec = out["_rec_acc"]
    # replay established count
    cur, peak, est_keys = 0, 0, set()
    negotiating, overlap_over = set(), False
    for t, key, name, _ in rec.events:
        if name == "EVT_CONN_OPEN":
            negotiating.add(key)
        if name in ("EVT_ESTABLISHED", "EVT_REJECTED", "EVT_ABORTED", "EVT_CONN_CLOSE"):
            negotiating.discard(key)
        if name == "EVT_ESTABLISHED":
            cur += 1
            est_keys.add(key)
            peak = max(peak, cur)
        elif name in ("EVT_RELEASED", "EVT_ABORTED") and key in est_keys:
            est_keys.discard(key)
            cur -= 1
        if len(negotiating) >= 2 and cur + len(negotiating) > M:
            overlap_over = True
    N = len(reqs)
    used = {r.get("server", 0) % servers for r in case["requestors"]}
    multi_over = len(used) > 1 and N > M
    ctx.note(case, nontrivial=overlap_over or multi_over, classes=[f"M={M}", f"N>M" if N > M else "N<=M", case["mode"], case["schedule"]["policy"], out["how"], f"servers={servers}", f"servers-used={len(used)}"]
             + (["overlap-over-limit"] if overlap_over else []) + (["multi-server-over"] if multi_over else []))
    if out["how"] == "budget":
        ctx.inconclusive += 1
        return
    died = [t for t in out["report"]["threads"] if t["exc"] and not t["name"].startswith("raw-")]
    if died:
        ctx.exclude("thread-died(C05)")
        return
    if peak > M:
        ctx.fail("limit-exceeded", f"peak-minus-max={peak - M}", f"{peak} associations established simultaneously with maximum_associations={M}; case={case}")
        return
    # rejections on the wire
    replies = []
    for cid in range(1, N + 1):
        pdus, _ = SC.wire(out, cid, "server")
        first = pdus[0][1] if pdus else None
        replies.append(first)
        if isinstance(first, R.AssocRJ) and (first.result, first.source, first.reason) != (2, 3, 2):
            ctx.fail("reject-code", f"{(first.result, first.source, first.reason)}", f"connection {cid} rejected with {first}, expected (2,3,2); case={case}")
            return
    if case["mode"] == "sequential":
        # connection ids follow start order (starts are distinct)
        order = sorted(range(N), key=lambda i: case["requestors"][i]["start"])
        for rank, i in enumerate(order):
            # connection id = order in which connects happened = start order
            rep = replies[rank]
            want_ac = rank < M
            got_ac = isinstance(rep, R.AssocAC)
            if want_ac and not got_ac:
                ctx.fail("under-acceptance", f"rank<{'='}M", f"sequential arrival #{rank + 1} with only {rank} established (max {M}) was not accepted: {rep}; case={case}")
                return
            if not want_ac and got_ac:
                ctx.fail("limit-exceeded", "sequential-over", f"sequential arrival #{rank + 1} accepted although {M} are established; case={case}")
                return


CHECKS = {"limit": check_limit}


def strategy(ctx):
    from hypothesis import strategies as st

    @st.composite
    def case(draw):
        M = draw(st.integers(1, 4))
        mode = draw(st.sampled_from(["burst", "burst", "mixed", "sequential"]))
        N = draw(st.integers(max(1, M - 1), 3 * M if mode != "sequential" else min(M + 2, 6)))
        servers = draw(st.sampled_from([1, 2, 2]))
        spread = draw(st.sampled_from(["random", "alternate", "alternate"]))
        rs = []
        for i in range(N):
            srv = 0 if servers == 1 else (i % servers if spread == "alternate" else draw(st.integers(0, servers - 1)))
            if mode == "burst":
                start = draw(st.sampled_from([0.0, 0.0, 0.0, 0.1]))
                hold = draw(st.sampled_from([0.0, 0.2, 1.0, 2.0]))
            elif mode == "mixed":
                start = draw(st.sampled_from([0.0, 0.1, 0.5, 1.0, 1.1, 2.0]))
                hold = draw(st.sampled_from([0.0, 0.2, 0.9, 1.0, 2.0]))
            else:
                start = 1.5 * i
                hold = 1.5 * (N - i) + 1.0
            rs.append({"kind": draw(st.sampled_from(["raw", "raw", "pynetdicom"])), "start": start, "hold": hold, "end": draw(st.sampled_from(["release", "abort", "drop"])), "server": srv})
        return {"max": M, "mode": mode, "servers": servers, "requestors": rs,
                "schedule": {"policy": draw(st.sampled_from(["fifo", "random", "random", "pct"])), "seed": draw(st.integers(0, 10**6)),
                             "preemptions": [list(p) for p in draw(st.lists(st.tuples(st.integers(0, 3000), st.integers(0, 8)), max_size=8))], "nudges": []}}

    return case()


def run(ctx):
    ctx.hyp("limit", strategy(ctx), 80 if ctx.quick else 800)
