#!/venv/bin/python
"""seed_keep.py <ID> "<caught-by summary>" ["<strengthening note>"] : copy a confirmed seeded change into /verif/seeded/<ID>/"""
import json, os, shutil, sys
ID, caught = sys.argv[1], sys.argv[2]
note = sys.argv[3] if len(sys.argv) > 3 else ""
src = f"/tmp/seed/out/{ID}"
dst = f"/verif/seeded/{ID}"
os.makedirs(dst, exist_ok=True)
shutil.copy(f"{src}/patch.diff", f"{dst}/patch.diff")
shutil.copy(f"{src}/demo.py", f"{dst}/demo.py")
notes = open(f"{src}/notes.md").read() if os.path.exists(f"{src}/notes.md") else ""
meta = {
    "property": ID,
    "author": "independent sub-agent given only the property text and a scratch worktree",
    "needs_to_manifest": notes[:3000],
    "confirmed": {
        "demo": "tools/eval_seed.sh: demo.py exits 0 on a scratch worktree of /repo HEAD and 1 after `git apply patch.diff`",
        "check": f"VERIF_REPO=<scratch worktree with the patch> /venv/bin/python check.py {ID} --tier quick",
        "tests": "see tests.txt (tools/seed_confirm.sh: whole repository suite on the patched scratch worktree)",
    },
    "caught_by": caught,
    "strengthening": note,
}
json.dump(meta, open(f"{dst}/meta.json", "w"), indent=1)
print("kept", ID)
