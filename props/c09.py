"""C09 - protocol timers measure elapsed time and are unaffected by wall-clock changes.

Model-based sequence testing of pynetdicom.timer.Timer (stand-alone, and as the DUL's ARTIM / network-idle timers
driven through the Association's timeout setters) under a fake `time` module with separate monotonic and wall axes,
against refs/timer_ref.TimerModel. A case is a plain list of steps, interpreted here (equivalent to a
RuleBasedStateMachine run, but it shrinks as a list and replays from JSON).
"""
import contextlib
import time as _real_time

from refs.timer_ref import Clock, TimerModel
from vlib import sig
from vlib.core import HarnessError

LEVEL = "exploration"
RULE = (
    "Hypothesis draws (target, initial timeout, <=40 steps) with steps start / stop / restart / timeout(None|0|1..50) / "
    "advance(dt>=0 on the elapsed-time axis) / near(k: advance to elapsed == timeout+k, k in -1..1) / wall(+-delta: step "
    "the settable clock only). target = a bare Timer, or the ARTIM / network-idle timer of a real Association's DUL "
    "(timeouts set through Association.acse_timeout / network_timeout, expiry read as the DUL reads it). After every "
    "step `expired` and `remaining` are compared with an independent elapsed-time model (integer ticks: exact). "
    "A second sub-check ('invivo', E4) runs a real acceptor whose ARTIM timer (silent peer after connecting) or network-idle timer (silent peer after association) is the only thing that can end the wait, with the wall clock stepped by +-1 h at generated scheduler steps: the reactor's reaction must come within [timeout, timeout + 1.5 s] of elapsed time. Non-trivial = a wall-clock step occurs while the timer is running with a finite timeout, or a query falls within "
    "+-1 tick of the expiry boundary; distinct = distinct case."
)
ASSUMPTIONS = [
    "pynetdicom.timer reads clocks only through its module-level name `time` (or module-level names bound to functions "
    "of the time module); both are substituted by the two-axis fake clock for the duration of a case",
    "'elapsed' means the monotonic axis: time.monotonic()/perf_counter() advance with it, time.time() = monotonic + "
    "settable wall offset",
    "stop() on a timer that is not running leaves the reported state unchanged (PS3.8 Table 9-7 'stop ARTIM timer if "
    "running'; statement: 'once stopped, report the state they had when stopped'); deviations of exactly this kind are "
    "reported under their own key 'stop-while-stopped'",
    "timeout None: expired False / remaining 1; never started: expired False / remaining == timeout (Timer docstring)",
    "integer ticks only: float rounding of real clocks is out of scope",
]
SHARDS = {"quick": 1, "thorough": 8}
MIN_NONTRIVIAL = 50

WALL_KEY = "wall-clock-step"
RESTOP_KEY = "stop-while-stopped"
CLAUSE = "elapsed-time"


@contextlib.contextmanager
def fake_time(clock):
    import pynetdicom.timer as T

    fake = clock.as_time_module(_real_time)
    saved = {}
    for name, val in list(vars(T).items()):
        if val is _real_time:
            saved[name] = val
            setattr(T, name, fake)
        elif getattr(val, "__module__", None) == "time" and hasattr(fake, getattr(val, "__name__", "")):
            saved[name] = val
            setattr(T, name, getattr(fake, val.__name__))
    if not saved:
        raise HarnessError("pynetdicom.timer has no module-level reference to the time module: cannot substitute the clock")
    try:
        yield
    finally:
        for name, val in saved.items():
            setattr(T, name, val)


class _Subject:
    """The implementation under test behind a uniform interface."""

    def __init__(self, target, timeout0):
        from pynetdicom.timer import Timer

        self.target = target
        if target == "timer":
            self.t = Timer(timeout0)
            self.assoc = None
        else:
            from engines import syncassoc

            self.assoc = syncassoc.mk("requestor", [])
            self.t = self.assoc.dul.artim_timer if target == "artim" else self.assoc.dul._idle_timer
            if not isinstance(self.t, Timer):
                raise HarnessError(f"DUL {target} timer is not a pynetdicom.timer.Timer")
            self.set_timeout(timeout0)

    def set_timeout(self, v):
        if self.target == "timer":
            self.t.timeout = v
        elif self.target == "artim":
            self.assoc.acse_timeout = v
        else:
            self.assoc.network_timeout = v

    def expired(self):
        if self.target == "idle":
            return self.assoc.dul.idle_timer_expired()
        return self.t.expired


def _phase(m):
    if m.timeout is None:
        return "no-timeout"
    if not m.started:
        return "not-started"
    return "running" if m.running else "stopped"


def check_seq(ctx, case):
    target, timeout0, steps = case["target"], case["timeout0"], case["steps"]
    clock = Clock()
    spec = TimerModel(timeout0, clock)
    hyps = {
        WALL_KEY: TimerModel(timeout0, clock, axis="wall"),
        RESTOP_KEY: TimerModel(timeout0, clock, restop="refreeze"),
        "both": TimerModel(timeout0, clock, axis="wall", restop="refreeze"),
    }
    models = [spec] + list(hyps.values())
    classes = {"target:" + target}
    nontrivial = False
    wall_excluded = 0
    restop_excluded = 0

    with fake_time(clock):
        try:
            subj = _Subject(target, timeout0)
        except HarnessError:
            raise
        except Exception as e:
            ctx.note(case, classes=["construct-raised"])
            ctx.fail("exception", f"construct:{sig.exc_key(e)}", sig.exc_text(e))
            return

        def observe(after):
            nonlocal nontrivial, wall_excluded, restop_excluded
            try:
                got = (subj.expired(), subj.t.remaining)
            except Exception as e:
                ctx.fail("exception", f"query:{sig.exc_key(e)}", f"expired/remaining raised after {after}\n{sig.exc_text(e)}")
                return
            want = (spec.expired, spec.remaining)
            if spec.started and spec.timeout is not None and abs(spec.elapsed - spec.timeout) <= 1:
                classes.add("query-at-boundary")
                nontrivial = True
            if spec.expired:
                classes.add("expired-observed")
            ok_types = isinstance(got[0], bool) and isinstance(got[1], (int, float)) and not isinstance(got[1], bool)
            if ok_types and got[0] == want[0] and got[1] == want[1]:
                # agreement; remember whether this observation could have shown a listed defect at all
                return
            # deviation: label it with the defect hypothesis that predicts exactly the observed values
            label = None
            if ok_types:
                for k, h in hyps.items():
                    if (h.expired, h.remaining) == got:
                        label = k
                        break
            where = f"target={target} after step {after}: got expired={got[0]!r} remaining={got[1]!r}, elapsed-time model says expired={want[0]} remaining={want[1]} (elapsed={spec.elapsed}, timeout={spec.timeout}, {_phase(spec)}, wall offset={clock.wall_offset})"
            if label in (WALL_KEY, "both"):
                if ctx.is_known(CLAUSE, WALL_KEY):
                    wall_excluded += 1
                ctx.fail(CLAUSE, WALL_KEY, "a wall-clock step changed the timer's reported state: " + where)
            if label in (RESTOP_KEY, "both"):
                if ctx.is_known(CLAUSE, RESTOP_KEY):
                    restop_excluded += 1
                ctx.fail(CLAUSE, RESTOP_KEY, "stop() on a stopped timer moved its frozen state: " + where)
            if label is None:
                which = "expired" if (not ok_types or got[0] != want[0]) else "remaining"
                ctx.fail(CLAUSE, f"{which}:{_phase(spec)}", where)

        observe("construction")
        for i, st in enumerate(steps):
            op = st[0]
            arg = st[1] if len(st) > 1 else None
            try:
                if op == "start":
                    subj.t.start()
                    for m in models:
                        m.start()
                elif op == "restart":
                    subj.t.restart()
                    for m in models:
                        m.restart()
                elif op == "stop":
                    if spec.started and not spec.running:
                        classes.add("stop-while-stopped")
                    subj.t.stop()
                    for m in models:
                        m.stop()
                elif op == "timeout":
                    if spec.running:
                        classes.add("timeout-change-while-running")
                    subj.set_timeout(arg)
                    for m in models:
                        m.set_timeout(arg)
                elif op == "advance":
                    clock.advance(arg)
                elif op == "near":
                    # advance so that elapsed == timeout + k when that lies in the future; otherwise a plain tick
                    dt = 1
                    if spec.running and spec.timeout is not None:
                        d = spec.timeout + arg - spec.elapsed
                        if d >= 0:
                            dt = d
                    clock.advance(dt)
                elif op == "wall":
                    clock.step_wall(arg)
                    classes.add("wall-step")
                    if spec.running and spec.timeout is not None:
                        classes.add("wall-step-while-running")
                        nontrivial = True
                else:
                    raise HarnessError(f"unknown step {st!r}")
            except HarnessError:
                raise
            except Exception as e:
                ctx.note(case, nontrivial=nontrivial, classes=sorted(classes))
                ctx.fail("exception", f"{op}:{sig.exc_key(e)}", f"step {i} {st!r} raised\n{sig.exc_text(e)}")
                return
            observe(f"{i} {st!r}")

    if wall_excluded:
        ctx.exclude("cases with >=1 observation attributed to known finding wall-clock-step (all other observations checked)")
    if restop_excluded:
        ctx.exclude("cases with >=1 observation attributed to known finding stop-while-stopped (all other observations checked)")
    if not any(c.startswith("wall-step") for c in classes):
        classes.add("no-wall-step")
    ctx.note(case, nontrivial=nontrivial, classes=sorted(classes))


CHECKS = {"seq": check_seq}


def strategy(max_steps=40):
    from hypothesis import strategies as st

    timeout = st.one_of(st.none(), st.just(0), st.integers(1, 50))
    dt = st.one_of(st.integers(0, 3), st.integers(0, 60), st.sampled_from([0, 1, 49, 50, 51, 100, 10**6]))
    delta = st.one_of(
        st.integers(-100, 100).filter(lambda x: x != 0),
        st.sampled_from([-(10**6), 10**6, -3600, 3600, -1, 1, -86400 * 365 * 60]),
    )
    step = st.one_of(
        st.just(["start"]),
        st.just(["start"]),
        st.just(["stop"]),
        st.just(["restart"]),
        st.tuples(st.just("timeout"), timeout).map(list),
        st.tuples(st.just("advance"), dt).map(list),
        st.tuples(st.just("advance"), dt).map(list),
        st.tuples(st.just("near"), st.integers(-1, 1)).map(list),
        st.tuples(st.just("wall"), delta).map(list),
    )
    return st.fixed_dictionaries(
        {
            "target": st.sampled_from(["timer", "timer", "artim", "idle"]),
            "timeout0": timeout,
            "steps": st.lists(step, min_size=1, max_size=max_steps),
            "lead": st.booleans(),
        }
    ).map(_lead)


def _lead(c):
    # half of the sequences begin with a running timer so that later steps act on an interesting state
    lead = c.pop("lead")
    if lead:
        c["steps"] = [["start"]] + c["steps"]
    return c


def no_wall_strategy(max_steps=40):
    """Same sequences with the wall steps removed: the part of the domain that cannot touch the wall-clock defect."""
    return strategy(max_steps).map(lambda c: dict(c, steps=[s for s in c["steps"] if s[0] != "wall"] or [["start"]]))


# ------------------------------------------------------------------------------------------ in vivo (E4): the reactor acts on the expiry
def check_invivo(ctx, case):
    """A real acceptor under the E4 scheduler (virtual monotonic time, settable wall offset). 'artim': a raw peer connects and stays silent:
    the provider must close the connection when the ARTIM timer (= ACSE timeout) has run out. 'idle': the peer associates and then stays
    silent: the association must be aborted when the network timeout has run out. The other timeouts are 60 s, so nothing else can end the
    wait; the wall clock is stepped by +-1 h at generated scheduler steps. Oracle: the reaction (Evt18 transition / EVT_ABORTED) happens
    within [timeout, timeout + 1.5 s] of virtual elapsed time after the timer was started."""
    from engines import ps38ref as R8
    from engines import scenario as SC
    from vlib.core import HarnessError

    kind, T = case["kind"], case["timeout"]
    to = {"acse": T if kind == "artim" else 60, "dimse": 60, "network": T if kind == "idle" else 60, "connection": 5}
    script = ([] if kind == "artim" else [["send", R8.ref_encode(SC.RAW_RQ)], ["recv_pdu", 10]]) + [["recv_until_close", T + 20], ["close"]]
    sc = {"timeouts": to, "max_steps": 60000, "quantum": 0.1, "acceptor": {"kind": "pynetdicom", "handlers": {}},
          "requestors": [{"kind": "raw", "script": script}],
          "schedule": {"policy": case["policy"], "seed": case["seed"], "preemptions": [], "nudges": case["nudges"]}}
    out = SC.run(sc)
    peer = out["raw"][0]
    if peer.error:
        raise HarnessError(f"raw peer failed: {peer.error}")
    stepped = sorted({k for _, k in case["nudges"]})
    ctx.note(case, nontrivial=bool(stepped), classes=["invivo", f"invivo:{kind}", out["how"]] + [f"invivo:clock-step:{k}" for k in stepped])
    ev = out["_rec_acc"].events
    if kind == "artim":
        t0 = next((e[0] for e in ev if e[2] == "EVT_FSM_TRANSITION" and e[3][2] == "AE-5"), None)
        t1 = next((e[0] for e in ev if e[2] == "EVT_FSM_TRANSITION" and e[3][1] == "Evt18"), None)
        what = "ARTIM expiry (Evt18) in Sta2"
    else:
        recv = [e[0] for e in ev if e[2] == "EVT_PDU_RECV"]  # the A-ASSOCIATE-RQ: the idle timer is restarted by every PDU received
        t0 = recv[-1] if recv else None
        t1 = next((e[0] for e in ev if e[2] == "EVT_ABORTED"), None)
        what = "network-timeout abort of the idle association"
    if t0 is None:
        raise HarnessError(f"start event not seen: {[(e[0], e[2]) for e in ev][:12]}")
    if out["how"] == "budget" and t1 is None:
        ctx.fail("invivo-never", f"{kind}", f"{what} never happened within the step budget (virtual t={out['report']['now']}, timer started at {t0}, timeout {T}); wall steps {case['nudges']}")
        return
    if t1 is None:
        ctx.fail("invivo-never", f"{kind}", f"{what} never happened (run ended at t={out['report']['now']}; timer started at {t0}, timeout {T}); wall steps {case['nudges']}")
        return
    dt = t1 - t0
    if dt < T - 0.11:
        ctx.fail("invivo-early", f"{kind}", f"{what} after {dt:.3f} s of elapsed time, timeout {T} s; wall steps {case['nudges']}")
    elif dt > T + 1.5:
        ctx.fail("invivo-late", f"{kind}", f"{what} only after {dt:.3f} s of elapsed time, timeout {T} s; wall steps {case['nudges']}")


CHECKS["invivo"] = check_invivo


def run(ctx):
    from hypothesis import strategies as st

    invivo = st.fixed_dictionaries({
        "kind": st.sampled_from(["artim", "idle"]), "timeout": st.sampled_from([1, 2, 3]),
        "policy": st.sampled_from(["fifo", "random"]), "seed": st.integers(0, 9999),
        "nudges": st.one_of(st.just([]), st.lists(st.tuples(st.integers(0, 120), st.sampled_from(["wall-", "wall+"])), min_size=1, max_size=3)).map(lambda l: [list(x) for x in l]),
    })
    ctx.hyp("invivo", invivo, 40 if ctx.quick else 300)
    n = 2500 if ctx.quick else 12000
    ctx.hyp("seq", strategy(), n)
    ctx.hyp("seq", no_wall_strategy(), n)
    # fixed corner sequences (always run, both tiers)
    fixed = []
    for target in ("timer", "artim", "idle"):
        for t0 in (None, 0, 1, 30):
            fixed.append({"target": target, "timeout0": t0, "steps": [["start"], ["near", 0], ["advance", 1], ["stop"], ["advance", 100]]})
            fixed.append({"target": target, "timeout0": t0, "steps": [["stop"], ["advance", 5], ["start"], ["advance", 5], ["stop"], ["advance", 100], ["restart"], ["near", 1]]})
            fixed.append({"target": target, "timeout0": t0, "steps": [["start"], ["advance", 5], ["timeout", 3], ["timeout", None], ["timeout", 5], ["timeout", 6]]})
    ctx.each("seq", fixed)
