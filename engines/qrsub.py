"""E3 extension - Query/Retrieve SCP scenarios on the thread-free association harness (engines/syncassoc.py).

One *operation* = one C-FIND / C-GET / C-MOVE request served by `Association._serve_request` on an acceptor
association built with `syncassoc.mk`.  The bound handler is a generator produced from a plain-data script:

    op = {"svc": "find"|"get"|"move", "msg_id": int,
          "n": <announced number of sub-operations> (get/move; any object for the out-of-domain classes),
          "dest": "ok"|"none"|"unest"|"raise" (move only),
          "steps": [step, ...]}                      # the (status, dataset) yields after the announcement

    step kinds (k):
      ds      {"k":"ds","i":int,"shape":"match|nomatch|nometa|nosopclass|nouid","out":[kind, code], "sds":bool}
              Pending + a dataset; `out` is the scripted outcome of its C-STORE sub-operation:
              ["status", code] | ["noresp", 0] | ["badrsp", 0] | ["raise", 0] (move only)
              sds: yield the Pending status as a Dataset with a Status element instead of an int
      bad     {"k":"bad","obj":"str|int|list|bytes|tuple"}        Pending + a truthy non-Dataset object
      empty   {"k":"empty","obj":"none|emptyds|zero|emptystr"}    Pending + None / empty Dataset / falsy object
      status  {"k":"status","code":int,"ds":"none|list|nolist|bad","sds":bool}   any other status value
      badstatus {"k":"badstatus","v":"none|str|dsnostatus"}       status of a wrong type / Dataset without Status
      raise   {"k":"raise"}                                       exception raised inside the generator
      malformed {"k":"malformed","v":"int|triple|none"}           not a (status, dataset) pair

`hook(slot, event)` (optional) is called by the generated handler at every point where the handler runs:
slot 0 = before its first yield, slot j = after its j-th yield was consumed (the last one = just before the
generator returns).  C23 uses it to inject C-CANCELs (syncassoc.inject_message) and to poll event.is_cancelled.
A truthy return value makes the handler do what the documentation prescribes after a cancel: yield
(0xFE00, None) instead of its next result and return.  The hook runs inside pynetdicom's handler wrapper, so
it must only record (an exception raised there would be taken for a handler exception).

C-GET sub-operations travel over the same association: a PeerScript answers each C-STORE-RQ with the outcome
scripted for the step being processed.  C-MOVE: `assoc.ae.associate` is replaced by a stub returning a
`StoreAssocStub` exposing what `_move_scp` uses (is_established, send_c_store, release, abort, dul.socket.close).

Nothing here judges; `run_op` returns what was sent, attributed to the handler step that caused it.
"""
from __future__ import annotations

import types
from io import BytesIO

from engines import syncassoc as SA

IMPLICIT = "1.2.840.10008.1.2"
PR_FIND = "1.2.840.10008.5.1.4.1.2.1.1"
PR_MOVE = "1.2.840.10008.5.1.4.1.2.1.2"
PR_GET = "1.2.840.10008.5.1.4.1.2.1.3"
SR_FIND = "1.2.840.10008.5.1.4.1.2.2.1"
MWL_FIND = "1.2.840.10008.5.1.4.31"
CT = "1.2.840.10008.5.1.4.1.1.2"
SC = "1.2.840.10008.5.1.4.1.1.7"  # never accepted: "no matching context"

CX = {PR_FIND: 1, PR_GET: 3, PR_MOVE: 5, CT: 7, MWL_FIND: 9, SR_FIND: 11}
SVC_UID = {"find": PR_FIND, "get": PR_GET, "move": PR_MOVE, "mwl": MWL_FIND, "srfind": SR_FIND}


def instance_uid(i):
    return f"1.2.826.0.1.3680043.9.{int(i) + 1}"


def make_assoc():
    """Acceptor association: SCP for the Q/R models, SCU (role-negotiated) for CT Image Storage only."""
    a = SA.mk(
        "acceptor",
        [
            (PR_FIND, IMPLICIT, False, True, CX[PR_FIND]),
            (PR_GET, IMPLICIT, False, True, CX[PR_GET]),
            (PR_MOVE, IMPLICIT, False, True, CX[PR_MOVE]),
            (CT, IMPLICIT, True, False, CX[CT]),
            (MWL_FIND, IMPLICIT, False, True, CX[MWL_FIND]),
            (SR_FIND, IMPLICIT, False, True, CX[SR_FIND]),
        ],
    )
    return a


def identifier():
    from pydicom.dataset import Dataset

    ds = Dataset()
    ds.QueryRetrieveLevel = "PATIENT"
    ds.PatientID = "*"
    return ds


def store_dataset(i, shape):
    from pydicom.dataset import Dataset, FileMetaDataset

    d = Dataset()
    d.PatientID = "P"
    if shape != "nosopclass":
        d.SOPClassUID = SC if shape == "nomatch" else CT
    if shape != "nouid":
        d.SOPInstanceUID = instance_uid(i)
    if shape != "nometa":
        d.file_meta = FileMetaDataset()
        d.file_meta.TransferSyntaxUID = IMPLICIT
    return d


_BAD = {"str": "not a dataset", "int": 5, "list": [1, 2], "bytes": b"\x08\x00", "tuple": (1,)}
_EMPTY = {"none": None, "zero": 0, "emptystr": ""}


def step_object(step):
    """The object the handler yields for a step (raises for k == 'raise')."""
    from pydicom.dataset import Dataset

    k = step["k"]

    def status_value(code, as_ds):
        if as_ds:
            s = Dataset()
            s.Status = code
            return s
        return code

    if k == "ds":
        return status_value(0xFF00, step.get("sds", False)), store_dataset(step["i"], step["shape"])
    if k == "bad":
        return 0xFF00, _BAD[step["obj"]]
    if k == "empty":
        return 0xFF00, (Dataset() if step["obj"] == "emptyds" else _EMPTY[step["obj"]])
    if k == "status":
        kind = step.get("ds", "none")
        if kind == "none":
            ds = None
        elif kind == "bad":
            ds = "junk"
        else:
            ds = Dataset()
            if kind == "list":
                ds.FailedSOPInstanceUIDList = ["1.2.3.4.5.6", "1.2.3.4.5.7"]
            else:
                ds.PatientID = "X"
        return status_value(step["code"], step.get("sds", False)), ds
    if k == "badstatus":
        v = step["v"]
        if v == "none":
            return None, None
        if v == "str":
            return "0x0000", None
        s = Dataset()
        s.PatientID = "NOSTATUS"
        return s, None
    if k == "malformed":
        v = step["v"]
        return {"int": 0xFF00, "triple": (0xFF00, None, None), "none": None}[v]
    if k == "raise":
        raise RuntimeError("scripted handler exception")
    raise ValueError(k)


class StoreAssocStub:
    """What `_move_scp` needs of the association `ae.associate()` returns."""

    def __init__(self, established, outcome_of_current):
        self.is_established = established
        self._outcome = outcome_of_current
        self.calls = []  # (SOPInstanceUID or None, msg_id, originator_id)
        self.released = 0
        self.aborted = 0
        self.dul = types.SimpleNamespace(socket=types.SimpleNamespace(close=lambda: None))

    def send_c_store(self, dataset, msg_id=1, priority=2, originator_aet=None, originator_id=None, **kw):
        from pydicom.dataset import Dataset

        self.calls.append((getattr(dataset, "SOPInstanceUID", None), msg_id, originator_id))
        if not self.is_established:
            raise RuntimeError("The association with a peer SCP must be established before sending a C-STORE request")
        # same argument checks as the real method, in the same order
        missing = [kw_ for kw_ in ("SOPClassUID", "SOPInstanceUID") if kw_ not in dataset]
        if missing:
            raise AttributeError("Unable to send the dataset as one or more required element are missing")
        if not hasattr(dataset, "file_meta") or "TransferSyntaxUID" not in dataset.file_meta:
            raise AttributeError("no (0002,0010) Transfer Syntax UID")
        if dataset.SOPClassUID != CT:
            raise ValueError("No presentation context for the SOP class has been accepted by the peer")
        kind, code = self._outcome()
        if kind == "status":
            s = Dataset()
            s.Status = code
            return s
        if kind in ("noresp", "badrsp"):
            # real behaviour: the store association is aborted and an empty Dataset returned
            self.is_established = False
            return Dataset()
        raise RuntimeError("scripted C-STORE exception")

    def release(self):
        self.released += 1
        self.is_established = False

    def abort(self):
        self.aborted += 1
        self.is_established = False


def decode_stream(a):
    """-> list of (index of the completing entry in a.sent, kind, primitive); stops after the first A-ABORT."""
    from pynetdicom.dimse_messages import DIMSEMessage
    from pynetdicom.pdu_primitives import A_ABORT, A_P_ABORT, P_DATA

    out = []
    m = DIMSEMessage()
    for ix, p in enumerate(a.sent):
        if isinstance(p, P_DATA):
            if m.decode_msg(p):
                pr = m.message_to_primitive()
                pr._context_id = m.context_id
                out.append((ix, type(pr).__name__, pr))
                m = DIMSEMessage()
        else:
            out.append((ix, type(p).__name__, p))
            if isinstance(p, (A_ABORT, A_P_ABORT)):
                break
    return out


def request(op):
    from pynetdicom.dimse_primitives import C_FIND, C_GET, C_MOVE

    svc = op["svc"]
    cls = {"find": C_FIND, "mwl": C_FIND, "srfind": C_FIND, "get": C_GET, "move": C_MOVE}[svc]
    req = cls()
    req.MessageID = op["msg_id"]
    req.AffectedSOPClassUID = SVC_UID[svc]
    req.Priority = 2
    if svc == "move":
        req.MoveDestination = "DEST"
    req.Identifier = SA.enc(identifier())
    req._context_id = CX[SVC_UID[svc]]
    return req


def deliver_request(a, op):
    """The peer's request for `op` arrives as P-DATA (dimse.receive_primitive) - it is queued, not dispatched."""
    req = request(op)
    SA.inject_message(a, req, req._context_id)


class OpResult:
    def __init__(self):
        self.marks = []  # len(a.sent) when step i was about to be yielded; last entry = generator finished
        self.start = 0
        self.end = 0
        self.reached = 0  # number of steps whose object was yielded (or raised)
        self.finished = False  # generator body ran to its end
        self.escaped = None  # exception escaping _serve_request
        self.stub = None
        self.announced = False
        self.cancel_yielded = False


def run_op(a, op, hook=None, via_queue=False, wire=False, inject=True):
    """Serve one operation on association `a`. Returns OpResult; a.sent keeps growing across operations.

    via_queue: deliver the request as the peer's P-DATA (dimse.receive_primitive -> msg_queue), call
    hook("queued", None), then dispatch it the way Association._run_reactor does (get_msg + _serve_request).
    inject=False (with via_queue): the request has already been delivered (a pipelining peer sent it while an earlier
    operation was being served, see `deliver_request`); only the hook call and the dispatch happen here."""
    from pynetdicom import evt

    res = OpResult()
    svc = op["svc"]
    steps = op.get("steps", [])
    cur = {"step": None}
    EVT = {"find": evt.EVT_C_FIND, "mwl": evt.EVT_C_FIND, "srfind": evt.EVT_C_FIND, "get": evt.EVT_C_GET, "move": evt.EVT_C_MOVE}[svc]

    def handler(event):
        slot = 0
        stop = hook(slot, event) if hook else None
        if svc == "move":
            dest = op.get("dest", "ok")
            yield (None, None) if dest == "none" else ("127.0.0.1", 11112)
            slot += 1
            stop = (hook(slot, event) if hook else None) or stop
        if svc in ("get", "move"):
            res.announced = True
            yield op["n"]
            slot += 1
            stop = (hook(slot, event) if hook else None) or stop
        for i, st in enumerate(steps):
            if stop:
                # what the documentation tells a handler to do once is_cancelled is True
                res.cancel_yielded = True
                yield 0xFE00, None
                return
            res.marks.append(len(a.sent))
            cur["step"] = st
            res.reached = i + 1
            if svc in ("find", "mwl", "srfind"):
                yield st["status"], (identifier() if st.get("ident", True) else None)
            else:
                yield step_object(st)
            slot += 1
            stop = hook(slot, event) if hook else None
        res.marks.append(len(a.sent))
        res.finished = True

    def outcome_of_current():
        st = cur["step"]
        return tuple(st["out"]) if st and st.get("k") == "ds" else ("status", 0)

    def responder(pr):
        from pynetdicom.dimse_primitives import C_STORE

        if isinstance(pr, C_STORE) and pr.MessageIDBeingRespondedTo is None:
            kind, code = outcome_of_current()
            if kind == "noresp":
                return []
            r = C_STORE()
            r.MessageIDBeingRespondedTo = pr.MessageID
            r.AffectedSOPClassUID = pr.AffectedSOPClassUID
            r.AffectedSOPInstanceUID = pr.AffectedSOPInstanceUID
            if kind == "status":
                r.Status = code
            # "badrsp": a response without Status (is_valid_response False)
            return [(pr._context_id, r)]
        return []

    a.bind(EVT, handler)
    SA.PeerScript(a, responder, wire=wire)
    if svc == "move":
        dest = op.get("dest", "ok")
        res.stub = StoreAssocStub(dest != "unest", outcome_of_current)

        def associate(addr, port, *args, **kw):
            if dest == "raise":
                raise RuntimeError("scripted associate failure")
            return res.stub

        a.ae.associate = associate
    res.start = len(a.sent)
    req = request(op)
    try:
        with SA.no_sleep():
            if via_queue:
                if inject:
                    SA.inject_message(a, req, req._context_id)
                if hook:
                    hook("queued", None)
                cid, msg = a.dimse.get_msg(block=False)
                if msg:
                    a._serve_request(msg, cid)
            else:
                a._serve_request(req, req._context_id)
    except Exception as e:  # _serve_request is documented to handle everything itself
        res.escaped = e
    finally:
        a.on_send = None
        a.unbind(EVT, handler)
    res.end = len(a.sent)
    return res


def responses_by_step(a, res, kind):
    """-> (pre, per_step, post, aborted): response primitives of class name `kind` sent during this operation:
    before the first step, while step i was being processed (from its yield up to the next resumption of the
    generator), and after the generator body had finished. Nothing after an A-ABORT is reported."""
    pre, per, post = [], [[] for _ in range(max(res.reached, 0))], []
    aborted = False
    for ix, k, pr in decode_stream(a):
        if ix < res.start:
            continue
        if k in ("A_ABORT", "A_P_ABORT"):
            aborted = True
            break
        if ix >= res.end:
            break
        if k != kind or getattr(pr, "MessageIDBeingRespondedTo", None) is None:
            continue
        if res.finished and ix >= res.marks[res.reached]:
            post.append(pr)
            continue
        si = -1
        for i in range(res.reached):
            if ix >= res.marks[i]:
                si = i
        if si < 0:
            pre.append(pr)
        else:
            per[si].append(pr)
    return pre, per, post, aborted
