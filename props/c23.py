"""C23 - a C-CANCEL reaches exactly the operation it names (engine E3 + engines/qrsub.py, C-CANCEL injection)."""
from engines import qrsub as Q
from engines import syncassoc as SA
from refs import subop_ref as R
from vlib import sig

LEVEL = "exploration"
RULE = (
    "Hypothesis draws 1..3 consecutive operations (C-FIND on the Patient Root / Study Root / Modality Worklist models, "
    "C-GET with real C-STORE sub-operations answered by a scripted peer, C-MOVE with a scripted store association) served on "
    "one thread-free acceptor association, message IDs from a small colliding pool plus the US range, 0..4 results each, and "
    "0..14 C-CANCEL requests whose Message ID Being Responded To is the current operation's ID, another operation's ID, a "
    "neighbouring ID or one of 16 unrelated IDs. Requests and cancels are delivered as the peer's P-DATA through "
    "DIMSEServiceProvider.receive_primitive; requests are then dispatched the way the association reactor does "
    "(get_msg + _serve_request). Each cancel arrives at a generated point: before the operation's request arrives, (30 % "
    "of operations) after the request was received but before it is dispatched, at any of the handler's own execution "
    "points (before its first "
    "yield, between two yields, after its last yield), between operations, or after the last one. At generated execution "
    "points the handler reads event.is_cancelled; optionally it then yields 0xFE00 and returns as documented. The recorded "
    "history (cancel arrivals, polls) is judged by an independent model. Non-trivial = an operation polled while a cancel "
    "for ANOTHER id had arrived during it, or after a cancel with its own id had arrived before it started, or with a "
    "matching cancel arriving between two polls. Distinct = distinct case."
)
ASSUMPTIONS = [
    "an operation is in progress from the moment its request primitive has been received by the DIMSE provider "
    "(dimse.receive_primitive completed it) until Association._serve_request returns - a peer can only name the operation "
    "after sending the request, so a C-CANCEL that follows the request on the wire is for that operation. Cancels that "
    "arrive between receipt and dispatch are a separately labelled class (clause missed, key received-before-dispatch; "
    "set QUEUED_WINDOW = False to drop the class if 'in progress' is to mean 'being served')",
    "must-report: once a matching C-CANCEL has arrived during the operation, the next read of event.is_cancelled is True; "
    "must-not-report: before any matching C-CANCEL has arrived during the operation every read is False, whatever arrived "
    "for other IDs, before the operation, or during earlier operations (also with the same message ID)",
    "after is_cancelled has been True once for an operation, later reads are unconstrained (consume-once and sticky "
    "implementations both satisfy the statement)",
    "a C-CANCEL that the DIMSE provider puts on the ordinary message queue (the association reactor would dispatch it as a "
    "service request and raise AttributeError: C_CANCEL has no is_valid_request) ends the scenario; it is counted "
    "(class reactor-would-crash / cancel-left-in-msg-queue) but, not being part of the statement, not reported",
    "C-CANCEL P-DATA is produced with pynetdicom's own encoder (harness input path), not judged",
]
SHARDS = {"quick": 1, "thorough": 16}
MIN_NONTRIVIAL = 50


QUEUED_WINDOW = True


class _Stop(Exception):
    pass


def cancel_primitive(mid):
    from pynetdicom.dimse_primitives import C_CANCEL

    c = C_CANCEL()
    c.MessageIDBeingRespondedTo = mid
    return c


def queue_has_cancel(a):
    from pynetdicom.dimse_primitives import C_CANCEL

    return sum(1 for _cid, m in list(a.dimse.msg_queue.queue) if isinstance(m, C_CANCEL))


def head_is_cancel(a):
    from pynetdicom.dimse_primitives import C_CANCEL

    q = a.dimse.msg_queue.queue
    return bool(q) and isinstance(q[0][1], C_CANCEL)


def build_op(op):
    svc = op["svc"]
    k = op["yields"]
    if svc in ("find", "mwl", "srfind"):
        return {"svc": svc, "msg_id": op["msg_id"], "steps": [{"status": 0xFF00} for _ in range(k)]}
    steps = [{"k": "ds", "i": i, "shape": "match", "out": ["status", 0], "sds": False} for i in range(k)]
    out = {"svc": svc, "msg_id": op["msg_id"], "n": max(k, 1) if op.get("announce_min1") else k, "steps": steps}
    if svc == "move":
        out["dest"] = "ok"
    return out


def check_cancel(ctx, case):
    try:
        _check(ctx, case)
    except _Stop:
        pass


def _check(ctx, case):
    a = Q.make_assoc()
    log = []  # ("cancel", window, id, op_index) | ("start", oi, msg_id) | ("poll", oi, result) | ("end", oi)
    problems = []
    classes = set()
    stopped = None

    def deliver(mid, window, oi, cx):
        log.append(("cancel", window, mid, oi))
        try:
            SA.inject_message(a, cancel_primitive(mid), cx)
        except Exception as e:  # receive_primitive must take any valid C-CANCEL
            problems.append(e)

    ops = case["ops"]
    for oi, op in enumerate(ops):
        qop = build_op(op)
        cx = Q.CX[Q.SVC_UID[op["svc"]]]
        for mid in op.get("before", []):
            deliver(mid, "idle", oi, cx)
        if head_is_cancel(a):
            stopped = "reactor-would-crash"
            break
        # the request always arrives as the peer's P-DATA and is dispatched the way _run_reactor does it; the
        # "queued" window (cancels between receipt and dispatch) is empty unless the case says otherwise
        via_queue = True
        slots = op.get("slots", [])
        started = {"v": False}

        def hook(slot, event, op=op, oi=oi, cx=cx, slots=slots, started=started):
            if slot == "queued":
                log.append(("start", oi, op["msg_id"]))
                started["v"] = True
                for mid in op.get("queued", []) if QUEUED_WINDOW else []:
                    deliver(mid, "queued", oi, cx)
                return None
            if not started["v"]:
                log.append(("start", oi, op["msg_id"]))
                started["v"] = True
            s = slots[slot] if slot < len(slots) else None
            if not s:
                return None
            for mid in s.get("cancels", []):
                deliver(mid, "during", oi, cx)
            if s.get("poll"):
                try:
                    r = event.is_cancelled
                except Exception as e:
                    problems.append(e)
                    return None
                log.append(("poll", oi, bool(r)))
                if r and op.get("stop_on_cancel"):
                    return "stop"
            return None

        res = Q.run_op(a, qop, hook=hook, via_queue=via_queue, wire=True)
        if not started["v"]:
            log.append(("start", oi, op["msg_id"]))  # handler never ran (e.g. request refused)
        log.append(("end", oi))
        classes.add("svc:" + op["svc"])
        if res.escaped is not None:
            problems.append(res.escaped)
        if any(k in ("A_ABORT", "A_P_ABORT") for _ix, k, _p in Q.decode_stream(a)):
            stopped = "association-aborted"
            break
    else:
        for mid in case.get("after", []):
            deliver(mid, "idle", len(ops), Q.CX[Q.PR_FIND])

    left = queue_has_cancel(a)
    if left:
        classes.add("cancel-left-in-msg-queue")
    if stopped:
        classes.add(stopped)

    # ------------------------------------------------------------------ judge the history
    M = R.CancelModel()
    verdicts = []  # (clause, key, message)
    nontrivial = False
    polls = 0
    for ev in log:
        if ev[0] == "start":
            M.start(ev[2])
        elif ev[0] == "end":
            M.end()
        elif ev[0] == "cancel":
            _, window, mid, _oi = ev
            M.cancel(mid, window)
            classes.add(
                "cancel:" + window + (":matching" if (M.in_progress is not None and mid == M.in_progress) else ":other")
            )
        else:
            _, oi, r = ev
            polls += 1
            want = M.expect_poll()
            classes.add("poll:" + str(r).lower())
            if M.others_during or M.stale_same_id or (M.matching_arrived and M.polled_before_match):
                nontrivial = True
            if M.others_during and M.max_pending >= 10:
                classes.add("flood>=10-pending")
            if M.stale_same_id:
                classes.add("polled-after-stale-cancel-with-same-id")
            if M.others_during:
                classes.add("polled-with-other-id-pending")
            if want is None:
                classes.add("poll-after-report(unconstrained)")
            if want is False and r:
                cause = "stale-same-id" if M.stale_same_id else ("other-id" if M.others_during else "no-cancel-at-all")
                verdicts.append(("spurious", cause, f"operation #{oi} (message ID {M.in_progress}) read is_cancelled == True although no C-CANCEL naming it arrived while it was in progress"))
                break
            if want is True and not r:
                verdicts.append(("missed", M.miss_cause(), f"operation #{oi} (message ID {M.in_progress}) read is_cancelled == False although a C-CANCEL naming it had arrived while it was in progress ({M.describe()})"))
                break
            M.polled(r)
    classes.add(f"ops={len(ops)}")
    ncancel = sum(1 for e in log if e[0] == "cancel")
    classes.add("cancels=0" if ncancel == 0 else ("cancels=1-4" if ncancel <= 4 else ("cancels=5-9" if ncancel <= 9 else "cancels>=10")))
    if any(o.get("queued") for o in ops):
        classes.add("cancel-in-queued-window")
    ctx.note(case, nontrivial=nontrivial and polls > 0, classes=sorted(classes))

    hist = [e for e in log]
    for e in problems:
        ctx.fail("exception", sig.exc_key(e), f"exception while delivering a C-CANCEL / serving the request\n{sig.exc_text(e)}\n case={case}")
        raise _Stop()
    for clause, key, msg in verdicts:
        ctx.fail(clause, key, msg + f"\n history={hist}\n case={case}")
        raise _Stop()


CHECKS = {"cancel": check_cancel}


# --------------------------------------------------------------------------------------------- generators
def weighted(*pairs):
    """(weight, strategy) alternatives with real weights: one_of() de-duplicates a repeated strategy object, so every
    copy is wrapped in its own map(); unlike a selector + tuple of all alternatives nothing unused is drawn (the
    shrinker's budget is not spent on branches that were not taken)."""
    from hypothesis import strategies as st

    return st.one_of(*[s.map(lambda x: x) for w, s in pairs for _ in range(w)])


OTHER = list(range(100, 116))
POOL = [1, 2, 7, 0, 65535]


def strategy(quick):
    from hypothesis import strategies as st

    # cancel IDs are drawn as symbolic references and resolved against the operations in assemble()
    ref = weighted(
        (8, st.just(["cur"])),
        (3, st.just(["prev"])),
        (3, st.just(["next"])),
        (2, st.sampled_from([["cur+1"], ["cur-1"]])),
        (6, st.sampled_from(OTHER).map(lambda v: ["id", v])),
    )
    few = st.lists(ref, min_size=0, max_size=2)
    flood = st.tuples(st.integers(9, 12), st.booleans()).map(lambda t: [["id", OTHER[i]] for i in range(t[0])] + ([["cur"]] if t[1] else []))
    cancels = weighted((10, few), (5, st.just([])))
    slot_cancels = weighted((20, few), (10, st.just([])), (1, flood))
    slot = st.fixed_dictionaries({"cancels": slot_cancels, "poll": st.sampled_from([True, True, True, False])})
    op = st.fixed_dictionaries(
        {
            "svc": st.sampled_from(["find", "find", "get", "move", "mwl", "srfind"]),
            "msg_id": st.one_of(st.sampled_from(POOL), st.sampled_from(POOL), st.integers(0, 65535)),
            "yields": st.integers(0, 4),
            "via_queue": st.sampled_from([False] * 7 + [True] * 3),  # True: cancels may fall into the queued window
            "before": cancels,
            "queued": few,
            "slots": st.lists(slot, min_size=0, max_size=7),
            "stop_on_cancel": st.booleans(),
            "announce_min1": st.booleans(),
        }
    )

    def assemble(t):
        ops, after = t
        ids = [o["msg_id"] for o in ops]
        total = [0]

        def resolve(refs, i):
            out = []
            for r in refs:
                if total[0] >= 14:
                    break
                k = r[0]
                if k == "id":
                    v = r[1]
                elif k == "cur":
                    v = ids[min(i, len(ids) - 1)]
                elif k == "prev":
                    v = ids[i - 1] if i > 0 else ids[min(i, len(ids) - 1)] ^ 1
                elif k == "next":
                    v = ids[i + 1] if i + 1 < len(ids) else (ids[min(i, len(ids) - 1)] + 2) & 0xFFFF
                elif k == "cur+1":
                    v = (ids[min(i, len(ids) - 1)] + 1) & 0xFFFF
                else:
                    v = (ids[min(i, len(ids) - 1)] - 1) & 0xFFFF
                out.append(v)
                total[0] += 1
            return out

        new = []
        for i, o in enumerate(ops):
            o = dict(o)
            o["before"] = resolve(o["before"], i)
            o["queued"] = resolve(o["queued"], i) if o["via_queue"] else []
            nslots = o["yields"] + 1 + {"get": 1, "move": 2}.get(o["svc"], 0)
            o["slots"] = [{"cancels": resolve(s["cancels"], i), "poll": s["poll"]} for s in o["slots"][:nslots]]
            new.append(o)
        return {"ops": new, "after": resolve(after, len(ops))}

    return st.tuples(st.lists(op, min_size=1, max_size=3), few).map(assemble)


def run(ctx):
    n = 1500 if ctx.quick else 6000
    ctx.hyp("cancel", strategy(ctx.quick), n)


# ------------------------------------------------------------------------------------------------ E4 variant (real threads)

def _cancel_bytes(mid, cid=5):
    from pynetdicom.dimse_messages import C_CANCEL_RQ
    from pynetdicom.pdu import P_DATA_TF

    m = C_CANCEL_RQ()
    m.primitive_to_message(cancel_primitive(mid))
    return b"".join(P_DATA_TF(pd).encode() for pd in m.encode_msg(cid, 16382))


def check_threaded(ctx, case):
    """Real acceptor stack under the E4 scheduler: a raw requestor sends a C-FIND request and C-CANCEL requests (own / other message IDs) at
    generated virtual times while the handler yields results with delays and polls event.is_cancelled. Judged with the arrival times of the
    cancel P-DATA (EVT_DIMSE_RECV on the acceptor): a poll before any matching cancel was sent must be False; the first poll that starts
    more than 0.3 virtual seconds after a matching cancel was received must find it (unless an earlier poll already did)."""
    from engines import dsched as S
    from engines import ps38ref as P8
    from engines import scenario as SC
    from pydicom.dataset import Dataset
    from pynetdicom import evt
    from vlib.core import HarnessError

    polls = []  # (t, value)
    recv = []  # (t, message id of a received C-CANCEL)
    mid = case["mid"]

    def h_find(event):
        for i in range(case["n"]):
            S.VTime.sleep(case["delay"])
            polls.append((round(S.WORLD.now - 1000.0, 4), bool(event.is_cancelled)))
            ds = Dataset()
            ds.QueryRetrieveLevel = "PATIENT"
            ds.PatientID = str(i)
            yield 0xFF00, ds

    def on_dimse(event):
        try:
            cs = event.message.command_set
            if cs.CommandField == 0x0FFF:
                recv.append((round(S.WORLD.now - 1000.0, 4), cs.MessageIDBeingRespondedTo))
        except Exception:
            pass

    script = [["send", P8.ref_encode(SC.RAW_RQ)], ["recv_pdu", 5], ["send", SC.dimse_bytes("find", mid)]]
    t = 0.0
    sent = []
    for dt, which in case["cancels"]:
        script.append(["sleep", dt])
        t += max(dt, 0.1)
        script.append(["send", _cancel_bytes(mid if which == "own" else (mid + 1 if mid < 65535 else mid - 1))])
        sent.append(which)
    script += [["recv_idle", 2.0], ["send", P8.ref_encode(P8.ReleaseRQ())], ["recv_until_close", 5], ["close"]]
    sc = {"timeouts": {"acse": 10, "dimse": 10, "network": 20}, "max_steps": 40000, "quantum": 0.1,
          "acceptor": {"kind": "pynetdicom", "handlers": {}, "extra_handlers": [(evt.EVT_C_FIND, h_find), (evt.EVT_DIMSE_RECV, on_dimse)]},
          "requestors": [{"kind": "raw", "script": script}], "schedule": case["schedule"]}
    out = SC.run(sc)
    if out["raw"][0].error:
        raise HarnessError(f"raw peer failed: {out['raw'][0].error}")
    own_recv = [t for t, m in recv if m == mid]
    other_only = bool(recv) and not own_recv
    ctx.note(case, nontrivial=bool(own_recv) or other_only, classes=["e4", out["how"], "own-cancel" if own_recv else ("other-cancel-only" if other_only else "no-cancel")])
    if out["how"] == "budget":
        ctx.inconclusive += 1
        return
    died = [t for t in out["report"]["threads"] if t["exc"] and not t["name"].startswith("raw-")]
    if died:
        ctx.fail("thread-exception", f"{died[0]['kind']}:{died[0]['exc'][2]}", f"{died[0]['name']} died: {died[0]['exc'][:2]}")
        return
    first_own = min(own_recv) if own_recv else None
    for tp, val in polls:
        if val and (first_own is None or tp < first_own):
            ctx.fail("spurious", "e4:" + ("other-id" if recv else "no-cancel-at-all"), f"is_cancelled was True at t={tp} but no C-CANCEL naming message {mid} had been received (received: {recv})")
            return
    if first_own is not None:
        later = [(tp, v) for tp, v in polls if tp > first_own + 0.3]
        earlier_true = any(v for tp, v in polls if first_own <= tp <= first_own + 0.3)
        if later and not earlier_true and not later[0][1]:
            ctx.fail("missed", "e4:in-progress", f"C-CANCEL for message {mid} received at t={first_own}, but the poll at t={later[0][0]} still read False; polls={polls} recv={recv}")


CHECKS["threaded"] = check_threaded
_run_e3 = run


def run(ctx):
    from hypothesis import strategies as st

    _run_e3(ctx)

    @st.composite
    def case(draw):
        return {"mid": draw(st.sampled_from([1, 7, 65535, 300])), "n": draw(st.integers(1, 5)), "delay": draw(st.sampled_from([0.2, 0.5, 1.0])),
                "cancels": [[draw(st.sampled_from([0.0, 0.1, 0.35, 0.6, 1.2])), draw(st.sampled_from(["own", "other", "other"]))] for _ in range(draw(st.integers(0, 4)))],
                "schedule": {"policy": draw(st.sampled_from(["pct", "random", "fifo"])), "drift": draw(st.sampled_from([0.0, 0.05])), "seed": draw(st.integers(0, 10**6)), "preemptions": [], "nudges": []}}

    ctx.hyp("threaded", case(), 40 if ctx.quick else 400)
