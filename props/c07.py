"""C07 - a peer's release request is always answered with a release response (E4: raw requestor vs pynetdicom acceptor)."""
from engines import ps38ref as R
from engines import scenario as SC
from vlib.core import HarnessError

LEVEL = "exploration"
RULE = (
    "Hypothesis draws a raw requestor script (associate, 0..2 valid DIMSE requests C-ECHO/C-STORE/C-FIND, how many responses it reads "
    "before sending A-RELEASE-RQ - i.e. before, between and during the yields of the acceptor's handler; one case in four ends with a C-GET "
    "whose 1..4 C-STORE sub-operations the raw peer answers, the A-RELEASE-RQ leaving in the same segment as its k-th C-STORE response, "
    "k = 0..n, i.e. during the sub-operations; in a quarter of these the last instance cannot be encoded, so that sub-operation fails locally and the "
    "release request follows the final C-GET response), the acceptor handlers' result "
    "counts and virtual delays, and a schedule (fifo/random/pct + preemptions). The real acceptor (AssociationServer -> Association -> DUL) runs "
    "under the E4 cooperative scheduler with virtual time. Oracle: the peer receives A-RELEASE-RP before the network timeout could fire, "
    "pynetdicom sends no A-ABORT, the acceptor association ends released with exactly one EVT_RELEASED and its socket closed. "
    "Non-trivial = the release request arrived while a service handler was running or suspended (handler log spans the arrival time)."
)
ASSUMPTIONS = [
    "E4 substitution table (engines/dsched.py): interleavings at blocking-call / watched-function-entry granularity, modelled TCP",
    "handlers are well behaved (return Success / yield Pending results, never abort), so any A-ABORT on the wire is pynetdicom's own",
    "timeouts: acse 3, dimse 3, network 8 virtual seconds; handler delays total <= 1.5 s (C-GET: <= 2.4 s); the peer waits 5 s for the release response",
    "C-GET cases: the handler pauses 0.3/0.6 s before every result, so the release request has been received before pynetdicom would start the "
    "next sub-operation; a release request that crosses a C-STORE sub-operation request (which the released peer would never answer, so that "
    "pynetdicom itself aborts at the DIMSE timeout) is outside the statement ('and pynetdicom does not itself abort') and not generated",
]
SHARDS = {"quick": 1, "thorough": 16}


def check_release(ctx, sc):
    out = SC.run(sc)
    rep = out["report"]
    peer = out["raw"][0]
    if peer.error:
        raise HarnessError(f"raw peer script failed: {peer.error}")
    rel_t = [t for t, k in peer.log if k == "send" and False]
    # time at which the release request was written (last 'send' op of the script)
    sends = [t for t, k in peer.log if k in ("send", "tail")]
    t_rel = sends[-1] if sends else None
    hl = out["handler_log"]
    starts = [e[-1] for e in hl if e[0] == "handler"]
    yields = [e[-1] for e in hl if e[0] == "yield"]
    in_handler = bool(starts) and t_rel is not None and any(s <= t_rel for s in starts) and (any(y >= t_rel for y in yields) or (sc["meta"]["last_kind"] in ("echo", "store") and sc["meta"]["delay"] > 0 and sc["meta"]["read_before_release"] == 0) or (sc["meta"]["last_kind"] == "get" and sc["meta"]["read_before_release"] < (sc["meta"].get("n_get") or 0)))
    classes = [f"reqs={sc['meta']['nreq']}", "last=" + str(sc["meta"]["last_kind"]), sc["schedule"]["policy"], out["how"]] + (["get:last-instance-unencodable"] if sc["meta"].get("bad_last") else [])
    if in_handler:
        classes.append("release-during-handler")
    ctx.note(sc, nontrivial=in_handler, classes=classes)
    if out["how"] == "budget":
        from engines import lifecycle as L

        ll = L.livelock(out, L.time_bound(sc))
        if ll:
            ctx.fail("never-ends", ll, f"step budget exhausted at virtual t={rep['now']} s, far beyond every timeout: threads still alive {[(t['name'], t['state'], t['label'], t.get('where')) for t in rep['threads'] if t['state'] != 'done']}; peer received {_k(peer)}; meta {sc['meta']}")
            return
        ctx.inconclusive += 1
        return
    excs = [t for t in rep["threads"] if t["exc"]]
    if excs:
        # provider/association thread died: attributed to C05's oracle, but it also breaks this property
        ctx.fail("thread-exception", f"{excs[0]['kind']}:{excs[0]['exc'][2]}", f"thread {excs[0]['name']} died: {excs[0]['exc'][:2]}; peer received {_k(peer)}")
        return
    got = []
    for b in peer.received:
        if b in (b"", None):
            got.append("EOF" if b == b"" else "TIMEOUT")
        else:
            got.append({1: "RQ", 2: "AC", 3: "RJ", 4: "PDATA", 5: "RELRQ", 6: "RELRP", 7: "ABORT"}.get(b[0], "?"))
    where = f"after-{sc['meta']['last_kind'] or 'no'}-request"
    if "AC" not in got:
        raise HarnessError(f"association was not accepted: {got}")
    if "ABORT" in got:
        ctx.fail("aborted-instead-of-release-rp", where, f"pynetdicom answered the release request with A-ABORT (received {got}) at t={rep['now']}; handler log {hl}; script meta {sc['meta']}")
        return
    if "RELRP" not in got:
        ctx.fail("no-release-rp", where, f"no A-RELEASE-RP received: {got}; handler log {hl}; meta {sc['meta']}")
        return
    accs = out["acc_assocs"]
    if len(accs) != 1:
        raise HarnessError(f"{len(accs)} acceptor associations")
    a = accs[0]
    if a["outcome"] != ["released"]:
        ctx.fail("acceptor-outcome", where, f"acceptor outcome {a['outcome']} after answering the release; {got}")
    n_rel = sum(1 for e in out["_rec_acc"].events if e[2] == "EVT_RELEASED")
    if n_rel != 1:
        ctx.fail("released-event-count", where, f"EVT_RELEASED fired {n_rel} times")
    if not a["sock_closed"] or a["alive"] or a["dul_alive"]:
        ctx.fail("not-terminated", where, f"after release: socket closed={a['sock_closed']} assoc alive={a['alive']} dul alive={a['dul_alive']} state={a['state']}")
    bad = [t for t in rep["threads"] if t["state"] != "done"]
    if bad:
        ctx.fail("threads-left", where, f"threads not finished at quiescence: {bad}")


def _k(peer):
    return [(b[0] if b else b) for b in peer.received]


CHECKS = {"release": check_release}


def strategy(ctx):
    from hypothesis import strategies as st

    @st.composite
    def sc(draw):
        nreq = draw(st.integers(0, 2))
        kinds = [draw(st.sampled_from(["find", "find", "echo", "store"])) for _ in range(nreq)]
        n_find = draw(st.integers(0, 5))
        delay = draw(st.sampled_from([0, 0.1, 0.3]))
        # one case in four ends with a C-GET whose C-STORE sub-operations the peer serves; the release request leaves in the same
        # segment as the peer's k-th C-STORE response (k = 0: right after the C-GET request). The handler pauses before every
        # result, so the request has been received when pynetdicom would start the next sub-operation (no unanswered sub-operation)
        get = draw(st.integers(0, 3)) == 0
        n_get = draw(st.integers(1, 4))
        k_get = draw(st.integers(0, n_get))
        delay_get = draw(st.sampled_from([0.3, 0.6]))
        bad_last = get and draw(st.integers(0, 3)) == 0  # the last instance cannot be encoded: that sub-operation fails locally
        if bad_last:
            k_get = n_get  # the peer answers the n-1 sub-operations it sees and releases when the final C-GET response arrives
        script = [["send", R.ref_encode(SC.RAW_RQ_GET if get else SC.RAW_RQ)], ["recv_pdu", 5]]
        read_before = 0
        if get:
            kinds = kinds[:1] + ["get"]
            nreq = len(kinds)
        for i, k in enumerate(kinds):
            if k == "get":
                script.append(["send", SC.dimse_bytes("get", i + 1)])
                script.append(["substore", k_get, 8, R.ref_encode(R.ReleaseRQ())])
                read_before = k_get
                continue
            script.append(["send", SC.dimse_bytes(k, i + 1, nbytes=draw(st.sampled_from([10, 3000])), max_pdu=draw(st.sampled_from([16382, 64])))])
            expected = (n_find + 1) if k == "find" else 1
            last = i == len(kinds) - 1
            nread = draw(st.integers(0, expected)) if last else expected
            if get:
                nread = 0  # everything is read, message by message, by the sub-operation loop that follows the C-GET request
            if last:
                read_before = nread
            for _ in range(nread):
                script.append(["recv_pdu", 8])
        if not get:
            if draw(st.booleans()):
                script.append(["sleep", draw(st.sampled_from([0.01, 0.2, 1.0]))])
            script.append(["send", R.ref_encode(R.ReleaseRQ())])
        script.append(["recv_until_close", 5])
        policy = draw(st.sampled_from(["fifo", "random", "random", "pct"]))
        pre = draw(st.lists(st.tuples(st.integers(0, 1500), st.integers(0, 5)), max_size=6))
        return {
            "timeouts": {"acse": 3, "dimse": 3, "network": 8, "connection": 5},
            "max_steps": 20000,
            "acceptor": {"kind": "pynetdicom", "handlers": dict({"find": {"n": n_find, "delay": delay}, "echo": {"delay": delay}, "store": {"delay": delay}}, **({"get": {"n": n_get, "delay": delay_get, "bad_last": bad_last}} if get else {}))},
            "requestors": [{"kind": "raw", "script": script}],
            "schedule": {"policy": policy, "seed": draw(st.integers(0, 10**6)), "preemptions": [list(p) for p in pre]},
            "meta": {"nreq": nreq, "last_kind": kinds[-1] if kinds else None, "n_find": n_find, "delay": delay_get if get else delay, "read_before_release": read_before, "n_get": n_get if get else None, "bad_last": bad_last},
        }

    return sc()


def run(ctx):
    ctx.hyp("release", strategy(ctx), 300 if ctx.quick else 1500)
