"""C25 - datasets arrive exactly as sent, for every transfer syntax and storage mode (E4 end to end)."""
import os
import tempfile

from engines import dsched as S
from vlib import sig
from vlib.core import VERIF, HarnessError

LEVEL = "exploration"
RULE = (
    "Hypothesis builds pydicom datasets from an element pool covering every VR the installed pydicom dictionary offers (one public tag per VR, "
    "multi-valued where the VM allows, empty and odd-length values, sequences to depth 2, a private block), kept only if pydicom alone round-trips "
    "the dataset under the chosen transfer syntax (differential baseline). Transfer syntax in {implicit LE, explicit LE, explicit BE, deflated}; "
    "maximum PDU sizes 0 and 7..300 on both sides; chunked send and chunked receive on/off; operation C-STORE, C-FIND (request identifier and "
    "response identifiers) or C-GET (C-STORE sub-operation towards the requestor). Two real AEs exchange the data under the E4 scheduler. Oracle: the "
    "peer handler's event.dataset / event.identifier, the decoded event.encoded_dataset(False), and in chunked-receive mode the file at "
    "event.dataset_path all equal the original dataset. Non-trivial = the data set was fragmented over >=3 P-DATA PDUs or sent deflated."
)
ASSUMPTIONS = [
    "pydicom's own encode/decode round trip is the baseline: datasets it cannot round-trip under the transfer syntax are discarded and counted",
    "dataset equality = pydicom Dataset.__eq__ on fully decoded datasets without file meta",
    "E4 substitution table (engines/dsched.py)",
]
SHARDS = {"quick": 1, "thorough": 16}
PORT = 11112
CT = "1.2.840.10008.5.1.4.1.1.2"
FIND = "1.2.840.10008.5.1.4.1.2.1.1"
GET = "1.2.840.10008.5.1.4.1.2.1.3"
TS = {"implicit": "1.2.840.10008.1.2", "explicit": "1.2.840.10008.1.2.1", "big": "1.2.840.10008.1.2.2", "deflated": "1.2.840.10008.1.2.1.99"}
_POOL = None
TEXT_VRS = ("AE", "AS", "CS", "DA", "DS", "DT", "IS", "LO", "LT", "PN", "SH", "ST", "TM", "UC", "UI", "UR", "UT")


def pool():
    """one public, non-retired, unambiguous tag per VR from pydicom's dictionary"""
    global _POOL
    if _POOL is None:
        from pydicom.datadict import DicomDictionary

        want = {}
        for tag, (vr, vm, name, retired, kw) in sorted(DicomDictionary.items()):
            if retired or not kw or " or " in vr or vr in ("SQ", "NONE") or tag >> 16 in (0x0000, 0x0002, 0x7FE0) or (tag & 0xFFFF) == 0:
                continue
            if tag in (0x00080005, 0x00080016, 0x00080018):
                continue  # SpecificCharacterSet, SOP Class/Instance UID are set explicitly
            multi = vm != "1"
            want.setdefault((vr, multi), (kw, vm))
        _POOL = want
    return _POOL


def build_ds(spec):
    """spec: list of [vr, multi(bool), values(list of plain)] + optional sequences -> pydicom Dataset"""
    from pydicom.dataset import Dataset
    from pydicom.sequence import Sequence

    def mk(elems):
        ds = Dataset()
        for e in elems:
            if e[0] == "SQ":
                items = [mk(x) for x in e[1]]
                ds.ReferencedStudySequence = Sequence(items) if e[2] == 0 else None
                if e[2] == 1:
                    ds.ReferencedSeriesSequence = Sequence(items)
                    del ds.ReferencedStudySequence
                continue
            if e[0] == "PRIVATE":
                blk = ds.private_block(0x000B, "VERIF PRIVATE", create=True)
                blk.add_new(0x01, e[1], e[2])
                continue
            vr, multi, vals = e
            key = (vr, bool(multi))
            if key not in pool():
                continue
            kw, vm = pool()[key]
            v = [_val(vr, x) for x in vals]
            v = [x for x in v if not (isinstance(x, (bytes, str)) and len(x) == 0 and (vr in ("DS", "IS") or isinstance(x, bytes)))]
            if not multi:
                v = v[0] if v else None
            elif vm.isdigit() or ("-" in vm and vm.split("-")[0] == vm.split("-")[1]):
                n = int(vm.split("-")[0])
                v = (v * n)[:n] if v else None
            elif vm.startswith("2-2n") or vm.startswith("2-n"):
                v = (v * 2)[: max(2, len(v) - len(v) % 2)] if v else None
            elif vm.startswith("3-"):
                v = (v * 3)[:3] if v else None
            if v in (None, []):
                if vr in TEXT_VRS and vr not in ("DS", "IS"):
                    v = ""  # zero-length value (pydicom decodes a zero-length text element to '')
                else:
                    continue
            setattr(ds, kw, v)
        return ds

    return mk(spec)


def _val(vr, x):
    if vr in ("OB", "OW", "OF", "OD", "OL", "OV", "UN"):
        unit = {"OB": 2, "UN": 2, "OW": 2, "OF": 4, "OL": 4, "OD": 8, "OV": 8}[vr]  # even lengths: odd-length binary values are padded irreversibly
        b = bytes(x)
        return b[: len(b) - len(b) % unit]
    return x


def strategies(ctx):
    from hypothesis import strategies as st

    text = st.text(alphabet="ABCDEFGHIJ abcxyz0123456789_-", min_size=0, max_size=14).map(lambda s: s.strip())
    per_vr = {
        "AE": st.sampled_from(["A", "STORE_SCP", "AE TITLE 16 CHAR"]), "AS": st.sampled_from(["010Y", "003M", "099D"]), "CS": st.sampled_from(["CT", "ORIGINAL", "A_B", ""]),
        "DA": st.sampled_from(["20200101", "19991231", ""]), "DS": st.sampled_from(["1.5", "-0.25", "100", "1e3"]), "DT": st.sampled_from(["20200101120000", "20200101120000.123456", "2020"]),
        "IS": st.sampled_from(["0", "-12", "2147483647"]), "LO": text, "LT": text, "SH": text.map(lambda s: s[:12]), "ST": text, "UC": text, "UT": text, "UR": st.sampled_from(["http://a.b/c", "x:y"]),
        "PN": st.sampled_from(["Doe^John", "A^B^C^D^E", "X", "", "Ono^Taro=山田^太郎".split("=")[0]]), "TM": st.sampled_from(["120000", "235959.999999", "07"]),
        "UI": st.sampled_from(["1.2.3", "1.2.840.10008.1.1", "1.2.3.4.5.6.7.8.9.10.11"]),
        "FL": st.sampled_from([0.0, 1.5, -2.25, 1e10]), "FD": st.sampled_from([0.0, 1.5, -2.25, 1e100]),
        "SL": st.integers(-2**31, 2**31 - 1), "UL": st.integers(0, 2**32 - 1), "SS": st.integers(-2**15, 2**15 - 1), "US": st.integers(0, 2**16 - 1),
        "SV": st.integers(-2**63, 2**63 - 1), "UV": st.integers(0, 2**64 - 1), "AT": st.sampled_from([0x00100010, 0x7FE00010, 0x00080018]),
        "OB": st.binary(max_size=40), "OW": st.binary(max_size=40), "OF": st.binary(max_size=40), "OD": st.binary(max_size=40), "OL": st.binary(max_size=40), "OV": st.binary(max_size=40), "UN": st.binary(max_size=20),
    }
    keys = sorted(k for k in pool() if k[0] in per_vr)

    @st.composite
    def elems(draw, depth):
        out = []
        for (vr, multi) in draw(st.lists(st.sampled_from(keys), max_size=8, unique=True)):
            n = draw(st.integers(0, 3)) if multi else draw(st.integers(0, 1))
            out.append([vr, multi, [draw(per_vr[vr]) for _ in range(n)]])
        if depth > 0 and draw(st.integers(0, 2)) == 0:
            out.append(["SQ", [draw(elems(depth - 1)) for _ in range(draw(st.integers(0, 2)))], draw(st.integers(0, 1))])
        if draw(st.integers(0, 5)) == 0:
            out.append(["PRIVATE", "LO", draw(st.sampled_from(["private value", "pv", "x y"]))])
        return out

    @st.composite
    def case(draw):
        big = draw(st.integers(0, 3)) == 0
        spec = draw(elems(2))
        if big:
            spec.append(["OB", False, [draw(st.binary(min_size=200, max_size=1500))]])
        return {
            "op": draw(st.sampled_from(["store", "store", "find", "get"])),
            "ts": draw(st.sampled_from(["implicit", "explicit", "big", "deflated"])),
            "spec": spec,
            "max_pdu_rq": draw(st.sampled_from([0, 7, 8, 16, 64, 300, 16382])), "max_pdu_ac": draw(st.sampled_from([0, 7, 9, 32, 128, 300, 16382])),
            "chunk_send": draw(st.booleans()), "chunk_recv": draw(st.booleans()),
            "policy": draw(st.sampled_from(["fifo", "random"])), "seed": draw(st.integers(0, 9999)),
        }

    return case()


def _strip(ds):
    from copy import deepcopy

    d = deepcopy(ds)
    if hasattr(d, "file_meta"):
        try:
            del d.file_meta
        except Exception:
            pass
    for kw in ("SOPClassUID", "SOPInstanceUID", "QueryRetrieveLevel"):
        pass
    return d


def _same(a, b):
    try:
        return a == b
    except Exception:
        return False


def check_transfer(ctx, case):
    from io import BytesIO

    from pydicom import dcmread
    from pydicom.dataset import Dataset, FileMetaDataset
    from pynetdicom import AE, _config, evt
    from pynetdicom.dsutils import decode, encode

    tsuid = TS[case["ts"]]
    implicit, little, deflated = case["ts"] == "implicit", case["ts"] != "big", case["ts"] == "deflated"
    try:
        spec = [e for e in case["spec"] if not (e[0] == "PRIVATE" and case["ts"] == "implicit")]
        ds = build_ds(spec)
    except Exception as e:
        ctx.note(case, nontrivial=False, classes=["unbuildable:" + type(e).__name__])
        return
    op = case["op"]
    if op in ("store", "get"):
        ds.SOPClassUID = CT
        ds.SOPInstanceUID = "1.2.3.4.5"
    else:
        ds.QueryRetrieveLevel = "PATIENT"
    # differential baseline: pydicom alone must round-trip it under this transfer syntax
    try:
        raw = encode(ds, implicit, little, deflated)
        back = decode(BytesIO(raw), implicit, little, deflated) if raw is not None else None
        # force full decoding
        if back is not None:
            str(back)
    except Exception:
        raw, back = None, None
    if raw is None or back is None or not _same(back, ds):
        ctx.note(case, nontrivial=False, classes=["baseline-discarded"])
        return

    tmpdir = tempfile.mkdtemp(prefix="c25_", dir=os.path.join(VERIF, ".work")) if os.path.isdir(os.path.join(VERIF, ".work")) else tempfile.mkdtemp(prefix="c25_", dir="/var/tmp")
    old = (_config.STORE_SEND_CHUNKED_DATASET, _config.STORE_RECV_CHUNKED_DATASET)
    _config.STORE_SEND_CHUNKED_DATASET = bool(case["chunk_send"]) and op == "store"
    _config.STORE_RECV_CHUNKED_DATASET = bool(case["chunk_recv"])
    seen = []  # (where, kind, dataset or exception)
    paths = []
    result = {}
    try:
        with S.World(S.Chooser(case["policy"], case["seed"]), max_steps=60000, quantum=0.1) as w:
            def grab_store(event, where):
                try:
                    seen.append((where, "dataset", _strip(event.dataset)))
                except Exception as e:
                    seen.append((where, "dataset", e))
                try:
                    enc = event.encoded_dataset(include_meta=False)
                    seen.append((where, "encoded", _strip(decode(BytesIO(enc), implicit, little, deflated))))
                except Exception as e:
                    seen.append((where, "encoded", e))
                if _config.STORE_RECV_CHUNKED_DATASET:
                    try:
                        p = event.dataset_path
                        paths.append(str(p))
                        seen.append((where, "path", _strip(dcmread(p))))
                    except Exception as e:
                        seen.append((where, "path", e))
                return 0

            def h_find(event):
                try:
                    seen.append(("scp", "identifier", _strip(event.identifier)))
                except Exception as e:
                    seen.append(("scp", "identifier", e))
                yield 0xFF00, ds

            def h_get(event):
                yield 1
                d = Dataset()
                d.update(ds)
                d.file_meta = FileMetaDataset()
                d.file_meta.TransferSyntaxUID = tsuid
                yield 0xFF00, d

            scp = AE("SCP")
            scp.acse_timeout, scp.dimse_timeout, scp.network_timeout = 5, 5, 10
            scp.maximum_pdu_size = case["max_pdu_ac"]
            scp.add_supported_context(CT, tsuid, scu_role=True, scp_role=True)
            scp.add_supported_context(FIND, tsuid)
            scp.add_supported_context(GET, tsuid)
            w.serve(scp, PORT, handlers=[(evt.EVT_C_STORE, grab_store, ["scp"]), (evt.EVT_C_FIND, h_find), (evt.EVT_C_GET, h_get)])

            def user():
                from pynetdicom import build_role

                scu = AE("SCU")
                scu.acse_timeout, scu.dimse_timeout, scu.network_timeout = 5, 5, 10
                scu.add_requested_context(CT, tsuid)
                scu.add_requested_context(FIND, tsuid)
                scu.add_requested_context(GET, tsuid)
                ext = [build_role(CT, scu_role=True, scp_role=True)] if op == "get" else []
                a = scu.associate("127.0.0.1", PORT, max_pdu=case["max_pdu_rq"], ext_neg=ext, evt_handlers=[(evt.EVT_C_STORE, grab_store, ["scu"])])
                result["established"] = a.is_established
                if not a.is_established:
                    return
                if op == "store":
                    d = Dataset()
                    d.update(ds)
                    d.file_meta = FileMetaDataset()
                    d.file_meta.TransferSyntaxUID = tsuid
                    d.file_meta.MediaStorageSOPClassUID = CT
                    d.file_meta.MediaStorageSOPInstanceUID = "1.2.3.4.5"
                    if _config.STORE_SEND_CHUNKED_DATASET:
                        fp = os.path.join(tmpdir, "send.dcm")
                        d.save_as(fp, implicit_vr=implicit, little_endian=little, enforce_file_format=True) if hasattr(d, "save_as") else None
                        st_ = a.send_c_store(fp)
                    else:
                        st_ = a.send_c_store(d)
                    result["status"] = st_.Status if (st_ is not None and "Status" in st_) else None
                elif op == "find":
                    got = []
                    for st_, ident in a.send_c_find(ds, FIND):
                        got.append(st_.Status if (st_ is not None and "Status" in st_) else None)
                        if ident is not None:
                            seen.append(("scu", "identifier", _strip(ident)))
                    result["status"] = got
                else:
                    ident = Dataset()
                    ident.QueryRetrieveLevel = "PATIENT"
                    ident.PatientID = "*"
                    got = [(s_.Status if (s_ is not None and "Status" in s_) else None) for s_, _ in a.send_c_get(ident, GET)]
                    result["status"] = got
                a.release()

            w.spawn(user, "user")
            how = w.run()
            rep = w.report()
            n_pdata = sum(1 for _, cid, side, b in w.tap if b is not None and b[:1] == b"\x04")
    finally:
        _config.STORE_SEND_CHUNKED_DATASET, _config.STORE_RECV_CHUNKED_DATASET = old
        for p in paths:
            try:
                os.remove(p)
            except OSError:
                pass
        import shutil

        shutil.rmtree(tmpdir, ignore_errors=True)

    mode = ("chunk-send" if case["chunk_send"] and op == "store" else "mem-send") + "/" + ("chunk-recv" if case["chunk_recv"] else "mem-recv")
    ctx.note(case, nontrivial=n_pdata >= 3 or deflated, classes=[op, case["ts"], mode, how, f"pdata={'>=3' if n_pdata >= 3 else n_pdata}"])
    if how == "budget":
        ctx.inconclusive += 1
        return
    died = [t for t in rep["threads"] if t["exc"]]
    if died:
        ctx.fail("thread-exception", f"{died[0]['kind']}:{died[0]['exc'][2]}", f"{died[0]['name']} died: {died[0]['exc'][:2]}; op={op} ts={case['ts']} mode={mode}")
        return
    if not result.get("established"):
        raise HarnessError("association not established in C25 scenario")
    want = _strip(ds)
    if not seen:
        ctx.fail("not-delivered", f"{op}:{mode}", f"no handler saw the dataset; status={result.get('status')} op={op} ts={case['ts']} max_pdu={case['max_pdu_rq']}/{case['max_pdu_ac']}")
        return
    for where, kind, got in seen:
        if isinstance(got, Exception):
            ctx.fail("access-raises", f"{kind}:{mode.split('/')[1]}:{type(got).__name__}", f"{where} handler: accessing {kind} raised {got!r}; ts={case['ts']} mode={mode}")
            return
        if not _same(got, want):
            ctx.fail("dataset-differs", f"{kind}:{mode.split('/')[1]}:{case['ts']}" if kind != "identifier" else f"{op}:{kind}:{where}:{case['ts']}", f"{where} handler: {kind} differs from the dataset sent; ts={case['ts']} max_pdu={case['max_pdu_rq']}/{case['max_pdu_ac']} mode={mode}\n sent={want}\n got ={got}")
            return


CHECKS = {"transfer": check_transfer}


def run(ctx):
    os.makedirs(os.path.join(VERIF, ".work"), exist_ok=True)
    ctx.hyp("transfer", strategies(ctx), 120 if ctx.quick else 800)
