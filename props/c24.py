"""C24 - SCU calls surface each peer response exactly once, in order, and fail cleanly (engine E3 syncassoc).

A thread-free requestor Association gets its dimse.msg_queue pre-loaded with a generated peer script (responses of the
right/wrong type, with/without Status, identifiers that are valid / missing / empty / undecodable, interleaved C-STORE
sub-operation requests, extra messages after the final one, nothing at all); the public send_* method is called, response
generators are driven with next() and at every suspension `ae._lock` is probed with acquire(blocking=False).
The expected yields come from a small reference model of the documented SCU behaviour (docstrings of send_c_* / send_n_*).
"""
from engines import e3kit as K
from engines.syncassoc import mk, no_sleep
from vlib import sig
from vlib.core import HarnessError

LEVEL = "exploration"
RULE = (
    "Hypothesis draws (operation, peer script, transfer syntax). Script = list of items: response of the operation's own "
    "type (Status pending/success/warning/failure/cancel/unknown or absent; data set valid/absent/empty/undecodable), a "
    "message of another type (response or request), a C-STORE sub-operation request; the script may end without a final "
    "response (DIMSE timeout 0) and may continue after it (leftovers); optionally the peer's A-ABORT is waiting. The 11 "
    "send_* methods are called through the public API. Oracle: yields/return value = reference model (one yield per "
    "consumed response, stop at first non-Pending, documented (empty Dataset, None) on timeout/invalid/unexpected, "
    "identifier None when it cannot be decoded), nothing raised, A-ABORT sent on timeout/invalid/unexpected, leftover "
    "queue == unconsumed script suffix, ae._lock acquirable at every suspension and after return, reactor checkpoint set "
    "at the end. Non-trivial = script contains an undecodable/absent identifier, an invalid or wrong-type message, or ends "
    "without a final response; distinct = distinct case."
)
ASSUMPTIONS = [
    "E3: Association without threads, dul.send_pdu recorded, dimse_timeout=0 makes 'no response' immediate, sleeps no-ops",
    "documented results: docstrings of Association.send_c_echo/store/find/get/move and send_n_* ('If the peer timed out, "
    "aborted or sent an invalid response then [returns|yields] an empty Dataset' / identifier or reply None)",
    "the A-ABORT on timeout / invalid / unexpected response is taken from _handle_no_response, _check_received_status and "
    "the comments in _wrap_*_responses ('so abort'); no abort is demanded after an undecodable data set or when the peer's "
    "own A-ABORT is pending",
    "a byte string counts as undecodable only if pydicom cannot even read its element structure under the context's "
    "transfer syntax (or zlib rejects it for the deflated syntax); otherwise the identifier content is not asserted",
    "a response of another DIMSE type WITH a Status, received by a non-iterator call (C-ECHO/C-STORE/N-*), has no documented "
    "outcome: only 'no exception, documented result shape, leftovers intact' is asserted",
    "C-GET-RSP vs C-MOVE-RSP confusion and Repository Query (0xB001 continues) are outside this check (C28 covers 0xB001)",
]
SHARDS = {"quick": 1, "thorough": 8}
MIN_NONTRIVIAL = 20

GEN_OPS = ("c_find", "c_get", "c_move")
OPS = {
    # op: (abstract syntax, own response kind)
    "c_echo": (K.VERIFICATION, "C_ECHO"),
    "c_store": (K.CT, "C_STORE"),
    "c_find": (K.PR_FIND, "C_FIND"),
    "c_get": (K.PR_GET, "C_GET"),
    "c_move": (K.PR_MOVE, "C_MOVE"),
    "n_event_report": (K.PRINTER, "N_EVENT_REPORT"),
    "n_get": (K.PRINTER, "N_GET"),
    "n_set": (K.FILM_SESSION, "N_SET"),
    "n_action": (K.FILM_SESSION, "N_ACTION"),
    "n_create": (K.FILM_SESSION, "N_CREATE"),
    "n_delete": (K.FILM_SESSION, "N_DELETE"),
}
REPLY_PARAM = {  # data-set parameter of the response primitive (PS3.7 9.1.x / 10.1.x)
    "C_FIND": "Identifier",
    "C_GET": "Identifier",
    "C_MOVE": "Identifier",
    "N_EVENT_REPORT": "EventReply",
    "N_GET": "AttributeList",
    "N_SET": "AttributeList",
    "N_ACTION": "ActionReply",
    "N_CREATE": "AttributeList",
}
N_WITH_REPLY = ("n_event_report", "n_get", "n_set", "n_action", "n_create")
WRONG = {  # kinds used as "message of another type" per op (never the op's own; C_GET/C_MOVE not mixed)
    "c_find": ["C_ECHO", "C_GET", "C_MOVE", "C_STORE", "N_SET", "C_ECHO_RQ", "C_STORE_RQ"],
    "c_get": ["C_ECHO", "C_FIND", "N_GET", "C_ECHO_RQ"],
    "c_move": ["C_ECHO", "C_FIND", "N_GET", "C_ECHO_RQ"],
}
WRONG_OTHER = ["C_ECHO", "C_FIND", "N_DELETE", "N_GET", "C_ECHO_RQ"]


# --------------------------------------------------------------------------- script -> primitives
def _payload(item, ts):
    d = item["ds"]
    if d == "none":
        return None
    if d == "empty":
        return b""
    if d == "garbage":
        g = K.undecodable_for(ts)
        if g is None:
            raise HarnessError(f"no undecodable sample for {ts}")
        return g
    return K.ref_encode(K.mk_ds(item["elems"]), ts)


def build(item, op, ts, idx=0):
    """-> (context_id, primitive); own-type responses carry ErrorComment "r<idx>" so that a yield can be attributed
    to the script item it reports (harness aid only: attribution falls back to positional matching without it)."""
    from pynetdicom import dimse_primitives as P

    t = item["t"]
    if t == "store_rq":
        r = P.C_STORE()
        r.MessageID = 33
        r.AffectedSOPClassUID = K.CT
        r.AffectedSOPInstanceUID = "1.2.3.4.5"
        r.Priority = 2
        ds = K.mk_ds(item["elems"])
        r.DataSet = K.BytesIO(K.ref_encode(ds, ts))
        r._context_id = 3
        return 3, r
    kind = OPS[op][1] if t == "rsp" else item["kind"]
    if kind.endswith("_RQ"):
        r = getattr(P, kind[:-3])()
        r.MessageID = 44
        if kind == "C_ECHO_RQ":
            r.AffectedSOPClassUID = K.VERIFICATION
        else:
            r.AffectedSOPClassUID = K.CT
            r.AffectedSOPInstanceUID = "1.2.3.4.5"
            r.Priority = 2
            r.DataSet = K.BytesIO(K.ref_encode(K.mk_ds([["PatientName", "X"]]), ts))
        r._context_id = 1
        return 1, r
    r = getattr(P, kind)()
    r.MessageIDBeingRespondedTo = 7
    if item["status"] is not None:
        r.Status = item["status"]
    if hasattr(r, "AffectedSOPClassUID"):
        r.AffectedSOPClassUID = OPS[op][0]
    if t == "rsp" and hasattr(r, "ErrorComment"):
        r.ErrorComment = f"r{idx}"
    param = REPLY_PARAM.get(kind)
    if param is not None:
        b = _payload(item, ts)
        if b is not None:
            setattr(r, param, K.BytesIO(b))
    r._context_id = 1
    return 1, r


# --------------------------------------------------------------------------- reference model
FAIL = "FAIL"


def _ident_class(item, ts):
    d = item["ds"]
    if d == "none":
        return "no-identifier"
    if d == "garbage":
        return "undecodable"
    if d == "empty" and not K.decodable(b"", ts, force=False):
        return "undecodable"  # zero bytes are not a deflate stream
    return d  # valid / empty


def model(op, script, ts):
    """-> (expected: list of dict(cls, status, ident), consumed, must_abort, n_substore).

    ident: ('none',) | ('ds', plain) | ('none-or-empty',) | ('any',)"""
    own = OPS[op][1]
    exp, consumed, must_abort, nsub = [], 0, False, 0
    if op in GEN_OPS:
        ended = False
        for it in script:
            consumed += 1
            src = consumed - 1
            if it["t"] == "store_rq":
                if op in ("c_get", "c_move"):
                    nsub += 1
                    continue
                exp.append({"cls": "fail-unexpected", "status": FAIL, "ident": ("none",)})
                must_abort = ended = True
                break
            if it["t"] == "wrong":
                exp.append({"cls": "fail-unexpected", "status": FAIL, "ident": ("none",)})
                must_abort = ended = True
                break
            if it["status"] is None:
                exp.append({"cls": "fail-invalid", "status": FAIL, "ident": ("none",)})
                must_abort = ended = True
                break
            st = it["status"]
            ic = _ident_class(it, ts)
            if K.is_pending(st):
                if op == "c_find":
                    if ic == "valid":
                        ident = ("ds", K.ds_plain(K.mk_ds(it["elems"])))
                        cls = "pending-valid"
                    elif ic == "empty":
                        ident = ("none-or-empty",)
                        cls = "pending-empty"
                    else:  # absent or undecodable: cannot be decoded -> None, exactly once
                        ident = ("none",)
                        cls = "pending-undecodable-identifier"
                else:
                    ident = ("none",)  # documented: Pending -> None for C-GET / C-MOVE
                    cls = "pending"
                exp.append({"cls": cls, "status": st, "ident": ident, "src": src})
                continue
            cat = K.category(st)
            if op == "c_find" or cat == "success":
                ident = ("none",)
            elif cat in ("warning", "failure", "cancel"):
                if ic == "valid":
                    ident = ("ds", K.ds_plain(K.mk_ds(it["elems"])))
                elif ic == "undecodable":
                    ident = ("any",)
                else:
                    ident = ("none-or-empty",)
            else:
                ident = ("any",)
            exp.append({"cls": "final-" + cat, "status": st, "ident": ident, "src": src})
            ended = True
            break
        if not ended:
            exp.append({"cls": "fail-timeout", "status": FAIL, "ident": ("none",)})
            must_abort = True
        return exp, consumed, must_abort, nsub
    # ---- single-response operations
    if not script:
        return [{"cls": "fail-timeout", "status": FAIL, "ident": ("none",)}], 0, True, 0
    it = script[0]
    consumed = 1
    if it["t"] == "store_rq" or (it["t"] == "wrong" and (it["kind"].endswith("_RQ") or it["status"] is None)):
        # a request, or a response without Status: never a valid response
        return [{"cls": "fail-invalid", "status": FAIL, "ident": ("none",)}], 1, True, 0
    if it["t"] == "wrong":
        return [{"cls": "wrong-type-with-status", "status": "ANY", "ident": ("any",)}], 1, False, 0
    if it["status"] is None:
        return [{"cls": "fail-invalid", "status": FAIL, "ident": ("none",)}], 1, True, 0
    st = it["status"]
    cat = K.category(st)
    if op not in N_WITH_REPLY:
        return [{"cls": "final-" + cat, "status": st, "ident": None}], 1, False, 0
    ic = "empty" if it["ds"] in ("none", "empty") else _ident_class(it, ts)
    if cat in ("success", "warning"):
        if ic == "valid":
            return [{"cls": "reply-valid", "status": st, "ident": ("ds", K.ds_plain(K.mk_ds(it["elems"])))}], 1, False, 0
        if ic == "undecodable":
            # undocumented status rewrite (0x0110) is tolerated; the reply must be None
            return [{"cls": "reply-undecodable", "status": "ANY", "ident": ("none",)}], 1, False, 0
        return [{"cls": "reply-empty", "status": st, "ident": ("empty",)}], 1, False, 0
    if cat == "failure":
        return [{"cls": "final-failure", "status": st, "ident": ("none",)}], 1, False, 0
    return [{"cls": "final-" + cat, "status": st, "ident": ("any",)}], 1, False, 0


# --------------------------------------------------------------------------- comparison
def _status_ok(got, want):
    from pydicom import Dataset

    if not isinstance(got, Dataset):
        return False
    if want == "ANY":
        return True
    if want == FAIL:
        return len(got) == 0
    return "Status" in got and got.Status == want


def _ident_ok(got, want):
    from pydicom import Dataset

    if want is None:
        return True
    k = want[0]
    if k == "any":
        return got is None or isinstance(got, Dataset)
    if k == "none":
        return got is None
    if k == "empty":
        return isinstance(got, Dataset) and len(got) == 0
    if k == "none-or-empty":
        return got is None or (isinstance(got, Dataset) and len(got) == 0)
    if k == "ds":
        if not isinstance(got, Dataset):
            return False
        try:
            return K.ds_plain(got) == want[1]
        except Exception:
            return False
    raise HarnessError(want)


def _match(y, e):
    """y = (status, ident) observed; e = expected entry -> None if ok else 'status'|'identifier'."""
    if not _status_ok(y[0], e["status"]):
        return "status"
    if not _ident_ok(y[1], e["ident"]):
        return "identifier"
    return None


def _show(y):
    s, i = y
    try:
        st = f"0x{s.Status:04X}" if "Status" in s else "{}"
    except Exception:
        st = repr(s)[:40]
    return f"({st}, {'None' if i is None else 'Dataset[%d]' % len(i)})"


def _tag(y):
    """script index carried by a yielded status ("r<idx>" in ErrorComment) or None."""
    try:
        c = str(y[0].get("ErrorComment", ""))
    except Exception:
        return None
    if c.startswith("r") and c[1:].isdigit():
        return int(c[1:])
    return None


def align(observed, exp):
    """Assign every observed yield to the expected response it reports.

    -> (owner: index into exp (or None) per observed yield, problems: list of (clause, key, detail)).
    A yield that reports the same response as the yield before it is a duplicate of THAT response (alignment goes
    on behind it); the first yield that fits nowhere ends the interpretation."""
    owner, problems = [], []
    j = 0
    for k, y in enumerate(observed):
        t = _tag(y)
        fits_next = j < len(exp) and _match(y, exp[j]) is None and (t is None or exp[j].get("src") is None or exp[j]["src"] == t)
        fits_prev = j > 0 and _match(y, exp[j - 1]) is None and (t is None or exp[j - 1].get("src") is None or exp[j - 1]["src"] == t)
        if t is not None and j > 0 and exp[j - 1].get("src") == t:
            fits_next = False  # the tag says: same response as before
        if fits_next:
            owner.append(j)
            j += 1
            continue
        if fits_prev:
            owner.append(j - 1)
            problems.append(("yield-once", f"duplicate:{exp[j - 1]['cls']}", f"response #{j} ({exp[j - 1]['cls']}) was yielded again as yield #{k + 1}"))
            continue
        owner.append(None)
        if j < len(exp):
            e = exp[j]
            bad = _match(y, e) or "order"
            want = e["status"] if isinstance(e["status"], str) else hex(e["status"])
            problems.append(("result", f"{bad}:{e['cls']}", f"yield #{k + 1} is {_show(y)}, expected class {e['cls']} status {want} ident {e['ident'] and e['ident'][0]}"))
        else:
            problems.append(("yield-once", f"extra-after:{exp[-1]['cls'] if exp else 'nothing'}", f"yield #{k + 1} {_show(y)} after the iterator should have stopped"))
        return owner + [None] * (len(observed) - len(owner)), problems
    if j < len(exp):
        problems.append(("yield-once", f"missing:{exp[j]['cls']}", f"only {len(observed)} yields, response #{j + 1} ({exp[j]['cls']}) never surfaced"))
    return owner, problems


# --------------------------------------------------------------------------- the check
def check_scu(ctx, case):
    from pynetdicom import evt
    from pynetdicom.pdu_primitives import A_ABORT

    op, script, ts = case["op"], case["script"], case["ts"]
    abstract = OPS[op][0]
    contexts = [(abstract, ts, True, False, 1)]
    if op in ("c_get", "c_move", "c_find"):
        contexts.append((K.CT, ts, False, True, 3))
    a = mk("requestor", contexts)
    a.bind(evt.EVT_C_STORE, lambda event: 0x0000)
    queued = [build(it, op, ts, i) for i, it in enumerate(script)]
    for q in queued:
        a.dimse.msg_queue.put(q)
    if case.get("peer_abort"):
        ab = A_ABORT()
        ab.abort_source = 0
        a.dul.to_user_queue.put(ab)

    exp, consumed, must_abort, nsub = model(op, script, ts)
    classes = [f"op:{op}", "ts:" + ts] + sorted({"exp:" + e["cls"] for e in exp})
    if len(script) > consumed:
        classes.append("leftovers")
    for it in script[:consumed]:
        if it["t"] == "wrong":
            classes.append(f"wrong:{op}:{it['kind']}" + ("" if it["status"] is not None else ":no-status"))
    if nsub:
        classes.append("substore-interleaved")
    if case.get("peer_abort"):
        classes.append("peer-abort-pending")
    nontrivial = any(
        e["cls"].startswith("fail-") or e["cls"] in ("pending-undecodable-identifier", "reply-undecodable", "wrong-type-with-status") for e in exp
    ) or any(it.get("ds") == "garbage" for it in script[:consumed])
    ctx.note(case, nontrivial=nontrivial, classes=classes)

    ident_ds = K.mk_ds(case.get("elems") or [["PatientName", "*"]])
    observed = []
    lock_held_at = []
    raised = None
    try:
        with no_sleep():
            if op in GEN_OPS:
                if op == "c_find":
                    g = a.send_c_find(ident_ds, abstract, msg_id=7)
                elif op == "c_get":
                    g = a.send_c_get(ident_ds, abstract, msg_id=7)
                else:
                    g = a.send_c_move(ident_ds, "DEST", abstract, msg_id=7)
                for _ in range(len(script) + 6):
                    try:
                        y = next(g)
                    except StopIteration:
                        break
                    observed.append(y)
                    if not K.lock_free(a):
                        lock_held_at.append(len(observed) - 1)
                else:
                    ctx.fail("yield-once", "never-stops", f"{op}: iterator still yielding after {len(observed)} items for a script of {len(script)}")
                    return
            else:
                if op == "c_echo":
                    r = a.send_c_echo(msg_id=7)
                elif op == "c_store":
                    ds = K.mk_ds([["PatientName", "X"]])
                    ds.SOPClassUID = K.CT
                    ds.SOPInstanceUID = "1.2.3.4.5"
                    from pydicom.dataset import FileMetaDataset

                    ds.file_meta = FileMetaDataset()
                    ds.file_meta.TransferSyntaxUID = ts
                    r = a.send_c_store(ds, msg_id=7)
                elif op == "n_event_report":
                    r = a.send_n_event_report(ident_ds, 1, abstract, "1.2.3.4", msg_id=7)
                elif op == "n_get":
                    r = a.send_n_get([0x00100010], abstract, "1.2.3.4", msg_id=7)
                elif op == "n_set":
                    r = a.send_n_set(ident_ds, abstract, "1.2.3.4", msg_id=7)
                elif op == "n_action":
                    r = a.send_n_action(ident_ds, 1, abstract, "1.2.3.4", msg_id=7)
                elif op == "n_create":
                    r = a.send_n_create(ident_ds, abstract, "1.2.3.4", msg_id=7)
                elif op == "n_delete":
                    r = a.send_n_delete(abstract, "1.2.3.4", msg_id=7)
                else:
                    raise HarnessError(op)
                if op in N_WITH_REPLY:
                    if not (isinstance(r, tuple) and len(r) == 2):
                        ctx.fail("result", f"shape:{op}", f"{op} returned {r!r}, documented (status, dataset|None)")
                        return
                    observed.append(r)
                else:
                    observed.append((r, None))
    except HarnessError:
        raise
    except Exception as e:
        raised = e

    if raised is not None:
        cls = exp[min(len(observed), len(exp) - 1)]["cls"] if exp else "nothing"
        ctx.fail(
            "clean-failure",
            f"raises:{type(raised).__name__}:{'n-op-with-reply' if op in N_WITH_REPLY else op}:{cls}",
            f"{op} raised instead of returning the documented result; script item class {cls}\n{sig.exc_text(raised)}",
        )
    owner = [None] * len(observed)
    if raised is None:
        owner, problems = align(observed, exp)
        for clause, key, detail in problems:
            ctx.fail(clause, key, f"{op}: {detail}; observed {[_show(y) for y in observed]}, expected {[x['cls'] for x in exp]}")

    # ---- locks (a yield is attributed to the response it reports, duplicates to the duplicated response)
    for i in lock_held_at:
        cls = exp[owner[i]]["cls"] if i < len(owner) and owner[i] is not None else "unattributed"
        ctx.fail("lock-free", f"lock-held:{cls}", f"{op}: ae._lock is NOT acquirable while the iterator is suspended at yield #{i + 1} ({cls}); yields: {[_show(y) for y in observed]}")
    if not K.lock_free(a):
        ctx.fail("lock-free", "lock-held:after-return", f"{op}: ae._lock still held after the call returned / the iterator ended")
    if raised is None and not a._reactor_checkpoint.is_set():
        ctx.fail("checkpoint-released", f"{'iterator' if op in GEN_OPS else 'call'}:{exp[-1]['cls'] if exp else 'nothing'}", f"{op}: _reactor_checkpoint still cleared after completion")

    # ---- leftovers stay queued, in order
    if raised is None:
        left = list(a.dimse.msg_queue.queue)
        want = queued[consumed:]
        same = len(left) == len(want) and all(l[1] is w[1] and l[0] == w[0] for l, w in zip(left, want))
        if not same:
            ctx.fail(
                "leftovers",
                f"{'fewer' if len(left) < len(want) else 'more' if len(left) > len(want) else 'different'}:{exp[-1]['cls'] if exp else 'nothing'}",
                f"{op}: {len(left)} messages left in the queue, expected the {len(want)} unconsumed ones (script {len(script)}, consumed {consumed})",
            )
        # ---- abort where documented
        n_ab = len(K.aborts(a.sent))
        if must_abort and not case.get("peer_abort"):
            if n_ab != 1 or not a.is_aborted:
                ctx.fail("abort-on-failure", f"no-abort:{exp[-1]['cls']}", f"{op}: {exp[-1]['cls']} but {n_ab} A-ABORT sent, is_aborted={a.is_aborted}")
        undec = any(e["cls"] in ("pending-undecodable-identifier", "reply-undecodable") for e in exp) or any(it.get("ds") == "garbage" for it in script[:consumed])
        if not must_abort and exp and exp[-1]["cls"] not in ("wrong-type-with-status",) and not undec:
            if n_ab:
                ctx.fail("abort-on-failure", f"unexpected-abort:{exp[-1]['cls']}", f"{op}: association aborted although the exchange was valid ({[e['cls'] for e in exp]})")
        # the request itself went out exactly once, before anything else
        msgs = K.messages(a.sent)
        if not msgs:
            ctx.fail("result", "request-not-sent", f"{op}: nothing was sent")


CHECKS = {"scu": check_scu}


# --------------------------------------------------------------------------- generator
def strategies():
    from hypothesis import strategies as st

    @st.composite
    def elems(draw):
        kws = draw(st.lists(st.sampled_from(K.POOL_KEYS), min_size=1, max_size=3, unique=True))
        return [[k, draw(st.sampled_from(K.POOL[k]))] for k in kws]

    pend = [0xFF00, 0xFF00, 0xFF01]
    final = [0x0000, 0x0000, 0xB000, 0xB001, 0xB007, 0x0001, 0xA700, 0xA900, 0xC000, 0xFE00, 0x0122, 0x1234]  # incl. the Repository-Query-only non-final 0xB001: final for every other model
    n_final = [0x0000, 0x0000, 0x0107, 0x0116, 0x0001, 0x0110, 0x0112, 0x0122, 0x1234]
    dsk = ["valid", "valid", "valid", "garbage", "none", "empty"]

    @st.composite
    def rsp(draw, statuses):
        return {"t": "rsp", "status": draw(st.sampled_from(statuses)), "ds": draw(st.sampled_from(dsk)), "elems": draw(elems())}

    @st.composite
    def wrong(draw, kinds):
        return {
            "t": "wrong",
            "kind": draw(st.sampled_from(kinds)),
            "status": draw(st.sampled_from([0x0000, 0x0000, 0xFF00, 0xA700, None])),
            "ds": draw(st.sampled_from(["none", "valid"])),
            "elems": draw(elems()),
        }

    @st.composite
    def store_rq(draw):
        return {"t": "store_rq", "elems": draw(elems())}

    @st.composite
    def anyitem(draw, op):
        k = draw(st.integers(0, 9))
        kinds = WRONG.get(op, [x for x in WRONG_OTHER if x != OPS[op][1]])
        if k < 5:
            return draw(rsp(pend + final if op in GEN_OPS else n_final))
        if k < 7:
            return draw(wrong(kinds))
        if k < 8:
            return draw(store_rq())
        return draw(rsp([None]))

    @st.composite
    def case(draw):
        # the three iterator operations have by far the largest behaviour space: half of the cases
        op = draw(st.sampled_from(GEN_OPS)) if draw(st.booleans()) else draw(st.sampled_from(sorted(OPS)))
        if op in GEN_OPS and draw(st.integers(0, 5)) > 0:
            # structured: pending prefix (+ interleaved sub-operations), terminator, extras
            script = []
            for _ in range(draw(st.integers(0, 3))):
                if op != "c_find" and draw(st.integers(0, 2)) == 0:
                    script.append(draw(store_rq()))
                script.append(draw(rsp(pend)))
            term = draw(st.integers(0, 9))
            if term < 5:
                script.append(draw(rsp(final)))
            elif term < 6:
                script.append(draw(rsp([None])))
            elif term < 8:
                script.append(draw(wrong(WRONG[op])))
            elif term < 9 and op == "c_find":
                script.append(draw(store_rq()))
            # else: nothing -> timeout
            if term < 9:
                for _ in range(draw(st.integers(0, 2))):
                    script.append(draw(anyitem(op)))
        else:
            script = [draw(anyitem(op)) for _ in range(draw(st.integers(0, 3)))]
        c = {"op": op, "script": script, "ts": draw(st.sampled_from(list(K.UNCOMPRESSED))), "elems": draw(elems())}
        if draw(st.sampled_from([False] * 11 + [True])):
            c["peer_abort"] = True
        return c

    return case()


def run(ctx):
    import warnings

    warnings.simplefilter("ignore")
    ctx.hyp("scu", strategies(), 6000 if ctx.quick else 30000)
