"""C16 - every DIMSE message pynetdicom sends is completely receivable by its peer (engine E3 syncassoc).

SCU side: every public Association.send_* call, data-set parameter absent (None) / empty Dataset() / non-empty
(for C-STORE also a file path, normal and chunked).  SCP side: Association._serve_request with handlers bound through
the public evt API returning / yielding datasets that are absent / empty / non-empty / un-encodable, for every
request type (C-GET sub-operations answered by a scripted peer, C-MOVE through a stubbed ae.associate).
Every message found on the recorder is split by PDV structure (PS3.8 E.2), its command set is read by an independent
Implicit VR LE reader, and the same P-DATA are fed to a fresh pynetdicom DIMSEMessage (the receiver).
"""
import os

from engines import e3kit as K
from engines.syncassoc import PeerScript, mk, no_sleep
from vlib import sig
from vlib.core import HarnessError

LEVEL = "exploration"
RULE = (
    "Hypothesis draws (operation, data-set class, element list, transfer syntax of the accepted context, peer maximum "
    "PDU length). SCU cases call the public send_* method on a thread-free requestor Association whose DUL is a recorder; "
    "SCP cases feed a request primitive to _serve_request with handlers (public evt API) that return/yield the drawn "
    "(status, dataset) sequence. Every recorded message is checked: CommandDataSetType != 0101H <=> >=1 data PDV; a fresh "
    "DIMSEMessage completes exactly at the message's last P-DATA and yields the same data-set bytes; a non-empty data-set "
    "parameter is actually transmitted (and, for requests, decodes to the caller's dataset under the context's transfer "
    "syntax); SCU requests are also delivered through an acceptor's DIMSEServiceProvider.receive_primitive. "
    "Non-trivial = the data-set parameter of the case is absent, empty or un-encodable and the API did not reject the call; "
    "distinct = distinct case."
)
ASSUMPTIONS = [
    "E3: Association built without threads, dul.send_pdu replaced by a recorder; everything above the DUL is the real code",
    "PDV message control header bits as in PS3.8 Annex E.2; CommandDataSetType 0101H = no data set (PS3.7 E.1-1), read by "
    "refs.cmdfield_ref (no pynetdicom, no pydicom)",
    "a call that raises (ValueError/AttributeError/... for inputs the API refuses) is counted as api-rejected; whatever it "
    "sent before raising is still checked",
    "root-cause label of a message = state of the data-set-like parameter of the primitive handed to "
    "DIMSEServiceProvider.send_msg (no-param / none / empty-stream / stream / path), observed by wrapping the bound method",
    "receiver incompleteness is reported only when CommandDataSetType and the data PDVs agree (otherwise it is the same "
    "root cause as the cdst-iff-data failure and is attributed to it)",
]
SHARDS = {"quick": 1, "thorough": 8}
MIN_NONTRIVIAL = 20

TS_POOL = list(K.UNCOMPRESSED)
MAXPDU = [0, 8, 16, 64, 16382]

# op -> (abstract syntax of the accepted context, data-set classes tried)
SCU_OPS = {
    "c_echo": (K.VERIFICATION, ["absent"]),
    "c_cancel": (K.PR_FIND, ["absent"]),
    "c_store": (K.CT, ["nonempty", "empty", "file", "file-chunked", "file-chunked-nodata"]),
    "c_find": (K.PR_FIND, ["absent", "empty", "nonempty"]),
    "c_get": (K.PR_GET, ["absent", "empty", "nonempty", "nonempty+substore"]),
    "c_move": (K.PR_MOVE, ["absent", "empty", "nonempty"]),
    "n_event_report": (K.PRINTER, ["absent", "empty", "nonempty"]),
    "n_get": (K.PRINTER, ["absent"]),
    "n_set": (K.FILM_SESSION, ["absent", "empty", "nonempty"]),
    "n_action": (K.FILM_SESSION, ["absent", "empty", "nonempty"]),
    "n_create": (K.FILM_SESSION, ["absent", "empty", "nonempty"]),
    "n_delete": (K.FILM_SESSION, ["absent"]),
}
SCP_OPS = ["c_echo", "c_store", "c_find", "c_get", "c_move", "n_event_report", "n_get", "n_set", "n_action", "n_create", "n_delete"]
SCP_ABSTRACT = {
    "c_echo": K.VERIFICATION,
    "c_store": K.CT,
    "c_find": K.PR_FIND,
    "c_get": K.PR_GET,
    "c_move": K.PR_MOVE,
}


# --------------------------------------------------------------------------- per-message oracle
def check_message(ctx, sent, msg, label, where):
    """All clauses for one recorded message. `label` = root-cause label (see ASSUMPTIONS)."""
    from refs import cmdfield_ref as C

    for err in msg.errors:
        ctx.fail("pdv-structure", f"{err}:{label}", f"{where}: {err}")
        return None
    if not msg.cmd_complete:
        ctx.fail("pdv-structure", f"command-never-completed:{label}", f"{where}: no command PDV marked last")
        return None
    if len(set(msg.cid)) != 1:
        ctx.fail("pdv-structure", f"mixed-context-ids:{label}", f"{where}: PDVs of one message use context IDs {sorted(set(msg.cid))}")
    try:
        vals = K.command_values(msg)
    except C.Malformed as e:
        ctx.fail("command-set", f"unparseable:{label}", f"{where}: command set unreadable: {e}")
        return None
    cdst = vals.get("CommandDataSetType")
    if cdst is None:
        ctx.fail("command-set", f"no-cdst:{label}", f"{where}: (0000,0800) missing in {vals}")
        return None
    kind = C.FIELD_TO_KIND.get(vals.get("CommandField"), "?")
    has_data = len(msg.data) > 0
    says = cdst != C.NO_DATA_SET
    if says != has_data:
        ctx.cls("cdst-mismatch:" + label)
        ctx.fail(
            "cdst-iff-data",
            f"{'cdst-present-no-data' if says else 'cdst-absent-with-data'}:{label}",
            f"{where}: {kind} sent with CommandDataSetType=0x{cdst:04X} and {len(msg.data)} data PDV(s) "
            f"(data-set parameter of the primitive: {label}); the peer "
            + ("waits for data-set fragments that never come" if says else "gets unannounced data-set fragments"),
        )
        return vals  # consequences (receiver never completes ...) belong to this root cause
    if has_data and not msg.data_complete:
        ctx.fail("pdv-structure", f"data-never-completed:{label}", f"{where}: {kind}: no data PDV marked last")
        return vals
    if label == "stream" and not has_data:
        ctx.fail("dataset-sent", f"nonempty-stream-not-sent:{label}", f"{where}: {kind}: non-empty data-set parameter but no data PDV")
    if label in ("none", "no-param") and has_data:
        ctx.fail("dataset-sent", f"data-without-parameter:{label}", f"{where}: {kind}: data PDVs although the parameter is absent")
    done, n, prim, exc = K.receiver_trace(sent, msg)
    if exc is not None:
        ctx.fail("receiver-completes", f"raises:{sig.exc_key(exc)}:{label}", f"{where}: {kind}: fresh DIMSEMessage raised\n{sig.exc_text(exc)}")
        return vals
    if done is None:
        ctx.fail("receiver-completes", f"never-completes:{label}", f"{where}: {kind}: receiver not complete after all {n} P-DATA")
        return vals
    if done != n - 1:
        ctx.fail("receiver-completes", f"completes-early:{label}", f"{where}: {kind}: receiver complete at P-DATA {done + 1} of {n}")
        return vals
    got = None
    for name in K._DS_PARAMS:
        if hasattr(prim, name):
            v = getattr(prim, name)
            got = v.getvalue() if v is not None else None
            break
    want = msg.data_bytes if has_data else None
    if (got or None) != (want or None):
        ctx.fail("receiver-completes", f"dataset-differs:{label}", f"{where}: {kind}: receiver's data set {got!r} != bytes sent {want!r}")
    return vals


def check_all(ctx, assoc, log, where):
    """Check every message recorded on `assoc`; -> list of (Msg, label, command values)."""
    msgs = K.messages(assoc.sent)
    if len(msgs) != len(log):
        # every send_msg call must put exactly one message on the recorder
        if len(msgs) < len(log):
            ctx.fail("pdv-structure", "send-without-message", f"{where}: {len(log)} send_msg calls but {len(msgs)} messages recorded")
        labels = [e[0] for e in log] + ["unknown"] * (len(msgs) - len(log))
    else:
        labels = [e[0] for e in log]
    out = []
    for m, lab in zip(msgs, labels):
        vals = check_message(ctx, assoc.sent, m, lab, where)
        out.append((m, lab, vals))
    return out


# --------------------------------------------------------------------------- SCU side
def _ct_dataset(elems, ts):
    from pydicom.dataset import FileMetaDataset

    ds = K.mk_ds(elems)
    ds.SOPClassUID = K.CT
    ds.SOPInstanceUID = "1.2.826.0.1.3680043.8.498.1"
    fm = FileMetaDataset()
    fm.TransferSyntaxUID = ts
    fm.MediaStorageSOPClassUID = K.CT
    fm.MediaStorageSOPInstanceUID = ds.SOPInstanceUID
    ds.file_meta = fm
    return ds


def _write_file(ctx, ds, ts, nodata=False):
    os.makedirs(ctx.work, exist_ok=True)
    path = os.path.join(ctx.work, "c16_store.dcm")
    imp, little, _, _ = K.TS[ts]
    if nodata:
        from pydicom import Dataset

        d2 = Dataset()
        d2.file_meta = ds.file_meta
        ds = d2
    ds.save_as(path, implicit_vr=imp, little_endian=little, enforce_file_format=True)
    return path


def _dataset_arg(case):
    from pydicom import Dataset

    c = case["ds"]
    if c == "absent":
        return None
    if c == "empty":
        return Dataset()
    return K.mk_ds(case["elems"])


def call_scu(ctx, a, case):
    """Perform the public API call of the case. -> (expected request dataset | None, 'ok' | exception)."""
    from pynetdicom import _config

    op, ts = case["op"], case["ts"]
    abstract = SCU_OPS[op][0]
    want = None
    old_chunk = _config.STORE_SEND_CHUNKED_DATASET
    try:
        with no_sleep():
            if op == "c_echo":
                a.send_c_echo(msg_id=7)
            elif op == "c_cancel":
                a.send_c_cancel(7, query_model=abstract)
            elif op == "c_store":
                c = case["ds"]
                ds = _ct_dataset(case["elems"], ts)
                if c == "nonempty":
                    want = ds
                    a.send_c_store(ds, msg_id=7)
                elif c == "empty":
                    from pydicom import Dataset

                    a.send_c_store(Dataset(), msg_id=7)
                else:
                    path = _write_file(ctx, ds, ts, nodata=c.endswith("nodata"))
                    _config.STORE_SEND_CHUNKED_DATASET = c.startswith("file-chunked")
                    if not c.endswith("nodata"):
                        want = ds
                    a.send_c_store(path, msg_id=7)
            elif op in ("c_find", "c_get", "c_move"):
                arg = _dataset_arg(case)
                want = arg if case["ds"].startswith("nonempty") else None
                if op == "c_find":
                    g = a.send_c_find(arg, abstract, msg_id=7)
                elif op == "c_get":
                    g = a.send_c_get(arg, abstract, msg_id=7)
                else:
                    g = a.send_c_move(arg, "DEST", abstract, msg_id=7)
                for i, _ in enumerate(g):
                    if i > 8:
                        raise HarnessError("response iterator does not end on an empty queue")
            else:
                arg = _dataset_arg(case)
                want = arg if case["ds"] == "nonempty" else None
                if op == "n_event_report":
                    a.send_n_event_report(arg, 1, abstract, "1.2.3.4", msg_id=7)
                elif op == "n_get":
                    a.send_n_get([0x00100010], abstract, "1.2.3.4", msg_id=7)
                elif op == "n_set":
                    a.send_n_set(arg, abstract, "1.2.3.4", msg_id=7)
                elif op == "n_action":
                    a.send_n_action(arg, 1, abstract, "1.2.3.4", msg_id=7)
                elif op == "n_create":
                    a.send_n_create(arg, abstract, "1.2.3.4", msg_id=7)
                elif op == "n_delete":
                    a.send_n_delete(abstract, "1.2.3.4", msg_id=7)
                else:
                    raise HarnessError(f"unknown op {op}")
        return want, "ok"
    except HarnessError:
        raise
    except Exception as e:
        return want, e
    finally:
        _config.STORE_SEND_CHUNKED_DATASET = old_chunk


def _store_rq(elems, ts, cid):
    from pynetdicom.dimse_primitives import C_STORE

    ds = _ct_dataset(elems, ts)
    r = C_STORE()
    r.MessageID = 21
    r.AffectedSOPClassUID = K.CT
    r.AffectedSOPInstanceUID = ds.SOPInstanceUID
    r.Priority = 2
    r.DataSet = K.BytesIO(K.ref_encode(ds, ts))
    r._context_id = cid
    return r


def _get_rsp(status, cid):
    from pynetdicom.dimse_primitives import C_GET

    r = C_GET()
    r.MessageIDBeingRespondedTo = 7
    r.AffectedSOPClassUID = K.PR_GET
    r.Status = status
    r.NumberOfCompletedSuboperations = 1
    r.NumberOfFailedSuboperations = 0
    r.NumberOfWarningSuboperations = 0
    r._context_id = cid
    return r


def check_scu(ctx, case):
    from pynetdicom import evt

    op, dsc, ts, maxpdu = case["op"], case["ds"], case["ts"], case["maxpdu"]
    abstract = SCU_OPS[op][0]
    contexts = [(abstract, ts, True, True, 1)]
    if dsc == "nonempty+substore":
        contexts.append((K.CT, ts, False, True, 3))
    a = mk("requestor", contexts, max_pdu_peer=maxpdu)
    log = K.tap_send_msg(a)
    if dsc == "nonempty+substore":
        a.bind(evt.EVT_C_STORE, lambda event: 0x0000)
        a.dimse.msg_queue.put((3, _store_rq(case["elems"], ts, 3)))
        a.dimse.msg_queue.put((1, _get_rsp(0x0000, 1)))
    want, outcome = call_scu(ctx, a, case)
    rejected = outcome != "ok"
    classes = [f"scu:{op}:{dsc}", "ts:" + ts, f"maxpdu:{maxpdu}"]
    if rejected:
        classes.append(f"api-rejected:{type(outcome).__name__}")
    nontrivial = (not rejected) and dsc in ("absent", "empty", "file-chunked-nodata") and len(log) > 0
    ctx.note(case, nontrivial=nontrivial, classes=classes)
    checked = check_all(ctx, a, log, f"SCU {op}({dsc})")
    if any(len(m.data) > 1 for m, _, _ in checked):
        ctx.cls("data-fragmented")
    if rejected:
        return
    if not checked:
        ctx.fail("dataset-sent", f"nothing-sent:{op}", f"send_{op} returned normally but no DIMSE message was recorded")
        return
    m, lab, vals = checked[0]
    # the request's data set is what the caller supplied, under the context's transfer syntax
    if want is not None and vals is not None and m.data:
        try:
            got = K.ds_plain(K.ref_decode(m.data_bytes, ts))
        except Exception as e:
            ctx.fail("dataset-sent", f"request-dataset-undecodable:{type(e).__name__}", f"{op}: sent data set not decodable under {ts}: {e!r}")
            got = None
        exp = K.ds_plain(want)
        if got is not None and got != exp:
            ctx.fail("dataset-sent", "request-dataset-differs", f"{op}: first difference {sig.diff_path(exp, got)}; sent {got} != supplied {exp} under {ts}")
    # hand-off to the peer's service layer: the same P-DATA through an acceptor's DIMSE provider
    if vals is not None and (vals.get("CommandDataSetType") != 0x0101) == bool(m.data) and op != "n_event_report":
        b = mk("acceptor", [(abstract, ts, False, True, 1)] + ([(K.CT, ts, True, False, 3)] if len(contexts) > 1 else []))
        for i in m.pdata:
            try:
                b.dimse.receive_primitive(a.sent[i])
            except Exception as e:
                ctx.fail("delivered", f"receive-raises:{sig.exc_key(e)}", f"{op}: acceptor receive_primitive raised\n{sig.exc_text(e)}")
                return
        n_q = b.dimse.msg_queue.qsize() + len(b.dimse.cancel_req)
        if n_q != 1:
            ctx.fail("delivered", f"not-queued:{lab}", f"{op}({dsc}): after all P-DATA the acceptor has {n_q} queued messages (want 1)")


# --------------------------------------------------------------------------- SCP side
def _handler_ds(cls, elems, ts):
    from pydicom import Dataset

    if cls == "absent":
        return None
    if cls == "empty":
        return Dataset()
    if cls == "ct":
        return _ct_dataset(elems, ts)
    ds = K.mk_ds(elems)
    if cls == "unencodable":
        if "FailedSOPInstanceUIDList" not in ds:
            ds.FailedSOPInstanceUIDList = ["1.2.3"]
        ds.add_new(0x00280010, "US", "abc")  # write_dataset raises -> pynetdicom's encode() returns None
    return ds


def _request(op, ts, elems):
    from pynetdicom import dimse_primitives as P

    ident = K.BytesIO(K.ref_encode(K.mk_ds(elems or [["PatientName", "*"]]), ts))
    if op == "c_echo":
        r = P.C_ECHO()
        r.AffectedSOPClassUID = K.VERIFICATION
    elif op == "c_store":
        return _store_rq(elems, ts, 1)
    elif op in ("c_find", "c_get", "c_move"):
        r = {"c_find": P.C_FIND, "c_get": P.C_GET, "c_move": P.C_MOVE}[op]()
        r.AffectedSOPClassUID = SCP_ABSTRACT[op]
        r.Priority = 2
        r.Identifier = ident
        if op == "c_move":
            r.MoveDestination = "DEST"
    elif op == "n_event_report":
        r = P.N_EVENT_REPORT()
        r.AffectedSOPClassUID = K.FILM_SESSION
        r.AffectedSOPInstanceUID = "1.2.3.4"
        r.EventTypeID = 1
        r.EventInformation = ident
    elif op == "n_get":
        r = P.N_GET()
        r.RequestedSOPClassUID = K.FILM_SESSION
        r.RequestedSOPInstanceUID = "1.2.3.4"
        r.AttributeIdentifierList = [0x00100010]
    elif op == "n_set":
        r = P.N_SET()
        r.RequestedSOPClassUID = K.FILM_SESSION
        r.RequestedSOPInstanceUID = "1.2.3.4"
        r.ModificationList = ident
    elif op == "n_action":
        r = P.N_ACTION()
        r.RequestedSOPClassUID = K.FILM_SESSION
        r.RequestedSOPInstanceUID = "1.2.3.4"
        r.ActionTypeID = 1
        r.ActionInformation = ident
    elif op == "n_create":
        r = P.N_CREATE()
        r.AffectedSOPClassUID = K.FILM_SESSION
        r.AffectedSOPInstanceUID = "1.2.3.4"
        r.AttributeList = ident
    elif op == "n_delete":
        r = P.N_DELETE()
        r.RequestedSOPClassUID = K.FILM_SESSION
        r.RequestedSOPInstanceUID = "1.2.3.4"
    else:
        raise HarnessError(op)
    r.MessageID = 11
    r._context_id = 1
    return r


def _store_responder(cid_status):
    def responder(pr):
        from pynetdicom.dimse_primitives import C_STORE

        if isinstance(pr, C_STORE) and pr.MessageIDBeingRespondedTo is None:
            rsp = C_STORE()
            rsp.MessageIDBeingRespondedTo = pr.MessageID
            rsp.AffectedSOPClassUID = pr.AffectedSOPClassUID
            rsp.AffectedSOPInstanceUID = pr.AffectedSOPInstanceUID
            rsp.Status = cid_status
            return [(pr._context_id, rsp)]
        return []

    return responder


def check_scp(ctx, case):
    from pynetdicom import evt

    op, ts, maxpdu, rsp = case["op"], case["ts"], case["maxpdu"], case["rsp"]
    abstract = case.get("model") or SCP_ABSTRACT.get(op, K.FILM_SESSION)
    contexts = [(abstract, ts, False, True, 1)]
    if op == "c_get":
        contexts.append((K.CT, ts, True, False, 3))  # acceptor is SCU of the storage context (role selection)
    a = mk("acceptor", contexts, max_pdu_peer=maxpdu)
    log = K.tap_send_msg(a)
    items = [(st, cls, _handler_ds(cls, el, ts)) for st, cls, el in rsp]
    store_assoc, store_log = None, None

    if op == "c_echo":
        a.bind(evt.EVT_C_ECHO, lambda e: items[0][0])
    elif op == "c_store":
        a.bind(evt.EVT_C_STORE, lambda e: items[0][0])
    elif op == "c_find":

        def h_find(e):
            for st, _, ds in items:
                yield st, ds

        a.bind(evt.EVT_C_FIND, h_find)
    elif op == "c_get":

        def h_get(e):
            yield case["nsub"]
            for st, _, ds in items:
                yield st, ds

        a.bind(evt.EVT_C_GET, h_get)
        PeerScript(a, _store_responder(case.get("store_status", 0)))
    elif op == "c_move":
        store_assoc = mk("requestor", [(K.CT, ts, True, False, 1)], ae=a.ae, max_pdu_peer=maxpdu)
        store_log = K.tap_send_msg(store_assoc)
        PeerScript(store_assoc, _store_responder(case.get("store_status", 0)))
        store_assoc.release = lambda: None
        a.ae.associate = lambda *args, **kw: store_assoc

        def h_move(e):
            yield "127.0.0.1", 11112
            yield case["nsub"]
            for st, _, ds in items:
                yield st, ds

        a.bind(evt.EVT_C_MOVE, h_move)
    elif op == "n_delete":
        a.bind(evt.EVT_N_DELETE, lambda e: items[0][0])
    else:
        ev = {
            "n_event_report": evt.EVT_N_EVENT_REPORT,
            "n_get": evt.EVT_N_GET,
            "n_set": evt.EVT_N_SET,
            "n_action": evt.EVT_N_ACTION,
            "n_create": evt.EVT_N_CREATE,
        }[op]
        a.bind(ev, lambda e: (items[0][0], items[0][2]))

    req = _request(op, ts, case.get("elems"))
    if case.get("model"):
        req.AffectedSOPClassUID = case["model"]
    try:
        with no_sleep():
            a._serve_request(req, 1)
    except Exception as e:
        raise HarnessError(f"_serve_request raised {e!r} for {case}")
    dcls = sorted({cls for _, cls, _ in rsp})
    n_sent = len(log) + (len(store_log) if store_log is not None else 0)
    classes = [f"scp:{op}", "ts:" + ts, f"maxpdu:{maxpdu}"] + (["scp-find-model:" + case["model"]] if case.get("model") else []) + [f"scp:{op}:{c}" for c in dcls] + [f"scp-messages:{min(n_sent, 4)}"]
    nontrivial = n_sent > 0 and any(c in ("absent", "empty", "unencodable") for c in dcls)
    ctx.note(case, nontrivial=nontrivial, classes=classes)
    checked = check_all(ctx, a, log, f"SCP {op}")
    if store_assoc is not None:
        checked += check_all(ctx, store_assoc, store_log, f"SCP {op} (C-STORE sub-operation association)")
    if any(len(m.data) > 0 for m, _, _ in checked):
        ctx.cls("scp-response-with-dataset")
    if any(len(m.data) > 1 for m, _, _ in checked):
        ctx.cls("data-fragmented")


CHECKS = {"scu": check_scu, "scp": check_scp}


# --------------------------------------------------------------------------- generators
def strategies():
    from hypothesis import strategies as st

    @st.composite
    def elems(draw, min_size=1):
        kws = draw(st.lists(st.sampled_from(K.POOL_KEYS), min_size=min_size, max_size=5, unique=True))
        return [[k, draw(st.sampled_from(K.POOL[k]))] for k in kws]

    @st.composite
    def scu(draw):
        op = draw(st.sampled_from(sorted(SCU_OPS)))
        dsc = draw(st.sampled_from(SCU_OPS[op][1]))
        return {
            "side": "scu",
            "op": op,
            "ds": dsc,
            "elems": draw(elems()),
            "ts": draw(st.sampled_from(TS_POOL)),
            "maxpdu": draw(st.sampled_from(MAXPDU)),
        }

    find_status = [0xFF00, 0xFF01, 0x0000, 0xA700, 0xC000, 0xFE00, 0xB000, 0x1234]
    qr_status = [0xFF00, 0x0000, 0xB000, 0xA702, 0xA701, 0xC000, 0xFE00, 0x1234]
    n_status = [0x0000, 0x0001, 0x0107, 0x0116, 0xB600, 0x0110, 0x0112, 0xC616, 0x1234]

    @st.composite
    def scp(draw):
        op = draw(st.sampled_from(SCP_OPS))
        case = {
            "side": "scp",
            "op": op,
            "ts": draw(st.sampled_from(TS_POOL)),
            "maxpdu": draw(st.sampled_from(MAXPDU)),
            "elems": draw(elems()),
        }
        if op in ("c_echo", "c_store", "n_delete"):
            case["rsp"] = [[draw(st.sampled_from([0x0000, 0x0110, 0xA700, 0xB000, 0x0122])), "absent", []]]
        elif op == "c_find":
            # QR find, Modality Worklist, Relevant Patient Information (single-response SCP), UPS Pull (service_class_n)
            case["model"] = draw(st.sampled_from([K.PR_FIND, K.PR_FIND, "1.2.840.10008.5.1.4.31", "1.2.840.10008.5.1.4.37.1", K.UPS_PULL]))
            it = []
            for _ in range(draw(st.integers(0, 3))):
                it.append([draw(st.sampled_from([0xFF00, 0xFF00, 0xFF01])), draw(st.sampled_from(["nonempty", "nonempty", "nonempty", "empty", "absent", "unencodable"])), draw(elems())])
            if draw(st.integers(0, 2)):
                it.append([draw(st.sampled_from(find_status)), draw(st.sampled_from(["absent", "absent", "empty", "nonempty", "unencodable"])), draw(elems())])
            case["rsp"] = it
        elif op in ("c_get", "c_move"):
            case["nsub"] = draw(st.sampled_from([0, 1, 2, 2, 3, 3]))
            case["store_status"] = draw(st.sampled_from([0x0000, 0x0000, 0xB000, 0xA700]))
            it = []
            for _ in range(draw(st.integers(0, 3))):
                it.append([0xFF00, draw(st.sampled_from(["ct", "ct", "ct", "absent", "empty"])), draw(elems())])
            if draw(st.integers(0, 2)):
                it.append([draw(st.sampled_from(qr_status)), draw(st.sampled_from(["absent", "empty", "nonempty", "unencodable"])), draw(elems())])
            case["rsp"] = it
        else:
            case["rsp"] = [[draw(st.sampled_from(n_status)), draw(st.sampled_from(["absent", "empty", "nonempty", "unencodable"])), draw(elems())]]
        return case

    return scu(), scp()


def run(ctx):
    import warnings

    warnings.simplefilter("ignore")
    scu, scp = strategies()
    n = 1500 if ctx.quick else 15000
    ctx.hyp("scu", scu, n)
    ctx.hyp("scp", scp, n)
