"""C12 - association requests and responses pynetdicom sends are structurally conformant (E1 strict parser over captured bytes)."""
from engines import negoscen as N
from engines import ps38ref as R

LEVEL = "exploration"
RULE = (
    "Configurations are generated through the public API only (AE titles incl. 16-character and odd but legal ones, requested contexts 1..130 with "
    "repeats, build_role proposals, SOP-class (common) extended negotiation, asynchronous operations window, user identity, maximum PDU sizes, "
    "implementation class UID / version name; acceptor supported contexts, roles and negotiation handlers). The association is negotiated between "
    "two real AEs under E4 and the A-ASSOCIATE-RQ and the A-ASSOCIATE-AC/RJ actually written to the wire are captured. Oracle: the strict PS3.8 "
    "reference parser accepts the RQ (1..128 contexts, distinct odd IDs, one abstract and >=1 transfer syntax each, exactly one application context "
    "and one user-information item with exactly one maximum-length and one implementation-class-UID sub-item, legal AE titles and UIDs), and the AC "
    "(one result item per proposed context ID, a transfer syntax on every accepted item). Configurations the API rejects are counted and skipped. "
    "Families (class fam:*): base (random configuration), titles / odd (random configuration with an edge title / UID / version name), big (17..130 "
    "contexts), preset-ids (otherwise known-good configuration whose contexts= argument of associate() carries PresentationContext.context_id values "
    "set beforehand, as contexts taken from an earlier association do: None / odd 1..255 / gaps / duplicates / all equal / high values; even and "
    "out-of-range values only to count the setter's rejection), title-focus (ENUMERATED, not sampled: known-good minimal configuration with one AE "
    "title from a pool - each of the 32 C0 control characters, DEL and backslash at the start, in the middle and at the end of a title, leading / "
    "trailing / only spaces, empty, 15/16/17 characters with and without padding, non-ASCII, all legal punctuation - through every API path that takes "
    "a title that goes on the wire: AE(ae_title=), the AE.ae_title setter, associate(ae_title=), each as str and as the deprecated bytes form; the "
    "quick tier runs the three str paths in full and one bytes path per pool entry), version-focus (enumerated: the same kinds of value for "
    "implementation_version_name). Every family has its own Hypothesis seed (check aliases wire-*). "
    "Non-trivial = >16 contexts, or >=2 kinds of negotiation item, or a preset-ids case with >=1 pre-set ID / a title-focus or version-focus case whose request reached the wire."
)
ASSUMPTIONS = ["engines/ps38ref.ref_parse(strict=True) transcribes the PS3.8 cardinalities and value-representation rules", "E4 substitution table"]
SHARDS = {"quick": 1, "thorough": 16}


def check_wire(ctx, case):
    out = N.run(case)
    kinds = {e[0] for e in case.get("ext", [])} | ({"role"} if case.get("roles") else set())
    n = len(case["requested"])
    fam = case.get("family", "base")
    famcls = ["fam:" + fam] + [f"{fam}:{l}" for l in case.get("labels", ())]
    if out.get("api_error"):
        ctx.note(case, nontrivial=False, classes=["api-rejected:" + out["api_error"][0] + ":" + out["api_error"][1], f"{fam}:api-rejected"] + famcls)
        return
    focus = (fam in ("title-focus", "version-focus") or (fam == "preset-ids" and any(i is not None for i in case.get("preset_ids") or ()))) and out["rq_bytes"] is not None
    ctx.note(case, nontrivial=n > 16 or len(kinds) >= 2 or focus, classes=["established" if out["established"] else "not-established", f"n={'>16' if n > 16 else n if n < 5 else '5-16'}"] + sorted("ext:" + k for k in kinds) + famcls + ([f"{fam}:on-wire"] if fam in ("title-focus", "version-focus", "preset-ids") else []))
    rqb = out["rq_bytes"]
    if rqb is None:
        ctx.cls("no-rq-on-wire")
        return
    try:
        v, used = R.ref_parse(rqb, strict=True)
    except R.Reject as e:
        why = str(e).split(":")[0]
        ctx.fail("rq-nonconformant", why, f"A-ASSOCIATE-RQ sent is not conformant: {e}; bytes {rqb.hex()[:600]}; case={case}")
        return
    if not isinstance(v, R.AssocRQ):
        ctx.fail("rq-nonconformant", "not-an-rq", f"first PDU sent by the requestor is {type(v).__name__}")
        return
    if len(v.contexts) != n:
        ctx.fail("rq-context-count", "count", f"{n} contexts requested through the API, {len(v.contexts)} on the wire")
        return
    rep = out["reply_bytes"]
    if rep is None:
        return
    if rep[0] == 2:
        try:
            a, used = R.ref_parse(rep, strict=True)
        except R.Reject as e:
            why = str(e).split(":")[0]
            ctx.fail("ac-nonconformant", why, f"A-ASSOCIATE-AC sent is not conformant: {e}; bytes {rep.hex()[:600]}; case={case}")
            return
        if sorted(c.cid for c in a.contexts) != sorted(c.cid for c in v.contexts):
            ctx.fail("ac-result-per-context", "ids", f"AC result IDs {sorted(c.cid for c in a.contexts)} != proposed IDs {sorted(c.cid for c in v.contexts)}")
            return
        if sum(isinstance(i, R.MaxLength) for i in a.user_info) != 1 or sum(isinstance(i, R.ImplClassUID) for i in a.user_info) != 1:
            ctx.fail("ac-nonconformant", "user-info", f"AC user information {a.user_info}")
    elif rep[0] == 3:
        try:
            R.ref_parse(rep, strict=True)
        except R.Reject as e:
            ctx.fail("rj-nonconformant", str(e).split(":")[0], f"A-ASSOCIATE-RJ sent is not conformant: {e}; {rep.hex()}")


# one function; the aliases only give every generator family its own Hypothesis seed
CHECKS = {"wire": check_wire, "wire-preset": check_wire, "wire-titles": check_wire, "wire-big": check_wire, "wire-odd": check_wire}

VERIFICATION, IMPLICIT = "1.2.840.10008.1.1", "1.2.840.10008.1.2"


def minimal():
    """a configuration that is known to be accepted and established"""
    return {"rq_title": "SCU", "ac_title": "ANY-SCP", "called": None, "max_pdu": 16382, "impl_uid": None, "impl_version": None,
            "requested": [[VERIFICATION, [IMPLICIT]]], "roles": {}, "ext": [], "supported": [[VERIFICATION, [IMPLICIT], None, None]],
            "acc_handlers": {"sopext": False, "userid": None, "async": False}}


# characters the AE value representation excludes: C0 controls, DEL, backslash
SPECIAL = [chr(c) for c in range(0x20)] + ["\x7f", "\\"]
PLAIN_TITLES = [
    ("", "empty"), (" ", "only-spaces"), (" " * 16, "only-spaces"), (" " * 17, "only-spaces"),
    ("A", "legal"), ("x" * 15, "legal"), ("x" * 16, "len16"), ("x" * 17, "len17"), (" " + "x" * 15, "len16"), ("x" * 15 + " ", "len16"),
    (" " + "x" * 16, "len17"), ("x" * 16 + " ", "len17"), (" " + "x" * 14 + " ", "len16"), ("  PAD  ", "padded"), (" LEAD", "padded"), ("TRAIL ", "padded"),
    (" " * 9 + "LEADING", "padded"), ("STORE_SCU" + " " * 7, "padded"), ("STORE_SCU" + " " * 8, "len17"), ("a b", "legal"), ("lower case", "legal"),
    ("!\"#$%&'()*+,-./", "punctuation"), (":;<=>?@[]^_`{|}~", "punctuation"), ("0123456789", "legal"),
    ("\u00c4E", "non-ascii"), ("CAF\u00c9", "non-ascii"), ("A\u00a0B", "non-ascii"), ("\u2003X", "non-ascii"), ("\uff21\uff25", "non-ascii"), ("AE\u0085", "non-ascii"), ("AE\u0080X", "non-ascii"),
]
TITLE_PATHS = [("rq_title", "ctor"), ("rq_title", "setter"), ("called", "arg"), ("rq_title", "ctor-bytes"), ("rq_title", "setter-bytes"), ("called", "arg-bytes")]


def _kind(c):
    return "DEL" if c == "\x7f" else "backslash" if c == "\\" else "ctrl-ws" if c in "\t\n\v\f\r\x1c\x1d\x1e\x1f" else "ctrl"


def title_focus_cases(seed, quick):
    """Enumeration: pool title x API path, everything else known-good and minimal."""
    pool = []
    for c in SPECIAL:
        pool += [(c + "ECHOSCU", [_kind(c), "pos:start"]), ("ECHO" + c + "SCU", [_kind(c), "pos:middle"]), ("ECHOSCU" + c, [_kind(c), "pos:end"])]
    pool += [(" " + "\n" + "ECHOSCU", ["ctrl-ws", "pos:after-pad"]), ("ECHOSCU" + "\n" + " ", ["ctrl-ws", "pos:before-pad"]), ("\x7f", ["DEL", "pos:only"]), ("\n", ["ctrl-ws", "pos:only"]),
             ("\x7f" * 16, ["DEL", "pos:only"]), ("x" * 15 + "\x7f", ["DEL", "pos:end"]), ("x" * 16 + "\n", ["ctrl-ws", "pos:end"])]
    pool += [(t, [k]) for t, k in PLAIN_TITLES]
    out = []
    for i, (t, labels) in enumerate(pool):
        paths = TITLE_PATHS[:3] + [TITLE_PATHS[3 + (i + seed) % 3]] if quick else TITLE_PATHS
        for field, via in paths:
            c = minimal()
            c["family"], c["labels"] = "title-focus", labels + ["via:" + ("associate-" if field == "called" else "") + via]
            c[field] = t
            c["called_via" if field == "called" else "rq_title_via"] = via
            out.append(c)
    # both titles at once (the requestor's own and the one it calls)
    for i, (t, labels) in enumerate(pool):
        if quick and (i + seed) % 4:
            continue
        c = minimal()
        c["family"], c["labels"] = "title-focus", labels + ["via:both"]
        c["rq_title"], c["rq_title_via"], c["called"], c["called_via"] = t, "setter", pool[(i * 7 + seed) % len(pool)][0], "arg"
        out.append(c)
    # implementation version name (1..16 characters, same setter family): ServiceUser/AE.implementation_version_name
    versions = [("", "empty"), (" ", "only-spaces"), (" " * 16, "only-spaces"), ("x" * 16, "len16"), ("x" * 17, "len17"), ("V 1", "legal"), (" V1 ", "padded"),
                ("V1\n", "ctrl-ws"), ("\tV1", "ctrl-ws"), ("V\x001", "ctrl"), ("V1\x7f", "DEL"), ("\x7f", "DEL"), ("V\\1", "backslash"), ("V\u00c41", "non-ascii"), ("PYNETDICOM_300", "legal")]
    for v, k in versions:
        c = minimal()
        c["family"], c["labels"], c["impl_version"] = "version-focus", [k], v
        out.append(c)
    return out


def run(ctx):
    from hypothesis import strategies as st

    base = N.strategy(12 if ctx.quick else 40)

    @st.composite
    def big(draw):
        c = dict(draw(base))
        n = draw(st.sampled_from([17, 64, 127, 128, 129, 130]))
        c["requested"] = [[draw(st.sampled_from(N.ABSTRACT_POOL)), [draw(st.sampled_from(N.TS_POOL))]] for _ in range(n)]
        c["roles"] = {}
        return c

    @st.composite
    def odd(draw):
        """configurations at the edge of what the API accepts: empty transfer-syntax lists, odd UIDs and titles"""
        c = dict(draw(base))
        k = draw(st.integers(0, 3))
        if k == 0:
            c["requested"] = c["requested"] + [[draw(st.sampled_from(N.ABSTRACT_POOL)), []]]
        elif k == 1:
            c["requested"] = c["requested"] + [[draw(st.sampled_from(["1.2.03", "abc.def", "1..2", "1.2." + "9" * 61])), ["1.2.840.10008.1.2"]]]
        elif k == 2:
            t = draw(st.sampled_from(["  PAD  ", "A\\B", "x" * 17, "", "   ", "ÄE", "STORE_SCU" + " " * 10, " " * 9 + "LEADING_PAD", "ECHOSCU\n", "TAB\tTITLE", "SIXTEEN_CHARS_OK", " " + "x" * 16]))
            if draw(st.booleans()):
                c["rq_title"] = t
            else:
                c["called"] = t  # the title the requestor calls (ae_title= argument of associate)
        else:
            c["impl_version"] = draw(st.sampled_from(["", " ", "x" * 17, "ok"]))
        return c

    @st.composite
    def titles(draw):
        """AE titles at the edge of what set_ae()/validate_ae accept: padding that pushes the length over 16, control characters"""
        c = dict(draw(base))
        pad = st.sampled_from(["", " ", "  ", " " * 7, " " * 10])
        core_t = draw(st.sampled_from(["STORE_SCU", "A", "SIXTEEN_CHARS_OK", "FIFTEEN_CHARS_X", "x" * 17, "ECHOSCU\n", "TAB\tX", "A\\B", "ÄE", "a b"]))
        t = draw(pad) + core_t + draw(pad)
        which = draw(st.sampled_from(["rq_title", "called", "ac_title"]))
        c[which] = t
        return c

    @st.composite
    def preset(draw):
        """contexts= argument whose PresentationContext objects already carry a context_id (as accepted_contexts / rejected_contexts /
        requested_contexts of an earlier association do); everything else known-good"""
        c = minimal()
        n = draw(st.integers(2, 6))
        c["requested"] = [[draw(st.sampled_from(N.ABSTRACT_POOL)), [draw(st.sampled_from(N.TS_POOL[:3]))]] for _ in range(n)]
        c["supported"] = [[ab, list(N.TS_POOL[:2]), None, None] for ab in draw(st.lists(st.sampled_from(N.ABSTRACT_POOL), min_size=1, max_size=5, unique=True))]
        mode = draw(st.sampled_from(["reuse-gap", "reuse-gap", "random-odd", "random-odd", "dup", "all-same", "high", "reordered", "invalid"]))
        odd_small = st.integers(0, n + 1).map(lambda k: 2 * k + 1)
        if mode == "reuse-gap":
            # accepted contexts of an earlier association (increasing IDs with gaps) followed by new contexts without an ID
            k = draw(st.integers(1, n - 1))
            ids = sorted(draw(st.lists(st.integers(0, n + 2).map(lambda k: 2 * k + 1), min_size=k, max_size=k, unique=True))) + [None] * (n - k)
            if draw(st.booleans()):
                ids = ids[k:] + ids[:k]  # new ones first
        elif mode == "random-odd":
            ids = [draw(st.one_of(st.none(), odd_small)) for _ in range(n)]
        elif mode == "dup":
            ids = [draw(odd_small) for _ in range(n)]
            ids[draw(st.integers(1, n - 1))] = ids[0]
        elif mode == "all-same":
            ids = [draw(st.sampled_from([1, 3, 255]))] * n
        elif mode == "high":
            ids = [draw(st.sampled_from([None, 251, 253, 255, 255])) for _ in range(n)]
        elif mode == "reordered":
            ids = draw(st.permutations([2 * i + 1 for i in range(n)]))
        else:
            ids = [draw(st.sampled_from([None, 1, 3, 0, 2, 4, 256, 257, -1])) for _ in range(n)]
        c["preset_ids"] = list(ids)
        c["family"], c["labels"] = "preset-ids", [mode]
        return c

    def fam(strategy, name):
        return strategy.map(lambda c: {**c, "family": name})

    focus = title_focus_cases(ctx.seed, ctx.quick)
    ctx.each("wire", focus[ctx.shard :: ctx.nshards])
    ctx.extra["title_focus_cases"] = len(focus)
    ctx.hyp("wire-preset", preset(), 60 if ctx.quick else 250)
    ctx.hyp("wire", base, 150 if ctx.quick else 1000)
    ctx.hyp("wire-titles", fam(titles(), "titles"), 60 if ctx.quick else 400)
    ctx.hyp("wire-big", fam(big(), "big"), 12 if ctx.quick else 100)
    ctx.hyp("wire-odd", fam(odd(), "odd"), 60 if ctx.quick else 400)
