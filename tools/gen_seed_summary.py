#!/venv/bin/python
import json, glob, os
rows = []
for d in sorted(glob.glob("/verif/seeded/C*")):
    m = json.load(open(d + "/meta.json"))
    t = ""
    if os.path.exists(d + "/tests.txt"):
        lines = open(d + "/tests.txt").read().strip().splitlines()
        t = next((l for l in reversed(lines) if l.startswith("total failed:")), "")
    rows.append((m["property"], m["caught_by"], m.get("strengthening", ""), t))
with open("/verif/seeded/SUMMARY.md", "w") as f:
    f.write("# Independently seeded changes: one per property (see <ID>/meta.json, patch.diff, demo.py, tests.txt)\n\n")
    f.write("| property | caught by (quick tier, VERIF_REPO=<patched scratch worktree>) | check strengthened first? | repository suite on the patched tree |\n|---|---|---|---|\n")
    for r in rows:
        f.write(f"| {r[0]} | {r[1]} | {r[2] or 'no'} | {r[3]} |\n")
    f.write("\n# Second round: two more per property (seeded/<ID>/r2A, r2B), different clauses; tests run by the authors on the changed modules\n\n")
    f.write("| change | verdict (quick tier, VERIF_REPO=<patched scratch worktree>) | note | check strengthened first? |\n|---|---|---|---|\n")
    n2 = 0
    for d in sorted(glob.glob("/verif/seeded/C*/r[2345]*")):
        m = json.load(open(d + "/meta.json"))
        f.write(f"| {m['name']} | {m['caught_by'][:220]} | {(m.get('note') or '')[:300]} | {m.get('strengthening') or 'no'} |\n")
        n2 += 1
print(len(rows), "rows", n2, "round-2 rows")
