#!/bin/bash
# usage: eval_seed2.sh <name e.g. C07A> [tier] : evaluate a round-2 seeded change (/tmp/seed2/out/<name>/ or, once kept, seeded/<ID>/r2<A|B>/)
N=$1; ID=${N:0:3}; X=${N:3}; TIER=${2:-quick}
D=/tmp/seed2/out/$N; [ -d "$D" ] || D=/verif/seeded/$ID/r2$X
/verif/tools/eval_seed.sh "$ID" "$D/patch.diff" "$D/demo.py" "$TIER" 2>&1 | sed "s/^$ID:/$N:/"
