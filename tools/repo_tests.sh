#!/bin/bash
# Run (part of) the repository test suite in a private network namespace (the suite binds fixed TCP ports; a private
# loopback lets several runs proceed in parallel).  usage: repo_tests.sh <repo_dir> [pytest args...]
REPO=${1:-/repo}; shift
cd "$REPO" || exit 2
exec unshare -rn bash -c 'ip link set lo up; exec /venv/bin/python -m pytest -q -p no:cacheprovider --timeout=900 "$@"' _ "$@"
