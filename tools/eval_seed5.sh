#!/bin/bash
# usage: eval_seed5.sh <name e.g. C07C> [tier] : evaluate a round-5 seeded change (/tmp/seed5/out/<name>/ or, once kept, seeded/<ID>/r5E/)
N=$1; ID=${N:0:3}; X=${N:3}; TIER=${2:-quick}
D=/tmp/seed5/out/$ID; [ -d "$D" ] || D=/verif/seeded/$ID/r5$X
/verif/tools/eval_seed.sh "$ID" "$D/patch.diff" "$D/demo.py" "$TIER" 2>&1 | sed "s/^$ID:/$N:/"
