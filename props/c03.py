"""C03 - PDU framing is independent of how TCP splits the byte stream (E2).

The real AssociationSocket.recv + DULServiceProvider._read_pdu_data read a generated PDU sequence from a scripted
socket that hands out the bytes in generated chunks (every raw recv returns at most the rest of the current chunk), with
an optional end-of-stream at any byte offset.
"""
from engines import ps38ref as R
from engines import vsock as V
from vlib import sig
from vlib.core import HarnessError

LEVEL = "exploration"
RULE = (
    "Hypothesis draws 1..6 conformant PDUs (E1 strategies, all 7 kinds), a cut list over the concatenated stream (uniform, "
    "plus cuts biased to offsets 1..6 of a PDU and +-1 around PDU boundaries, plus one-byte-at-a-time delivery) and an optional EOF "
    "offset. Oracle: the PDUs delivered by _read_pdu_data re-encode to exactly the sent PDU byte strings, in order, each with its "
    "own event; with EOF at offset k exactly the PDUs ending at or before k are delivered, followed by Evt17, never Evt19 or a partial PDU; "
    "without EOF the reader never consumes bytes of a PDU that is not complete... (a blocking read on an incomplete PDU is a Stall, allowed). "
    "Non-trivial = a cut strictly inside a 6-byte header or an EOF strictly inside a PDU; distinct = (pdu bytes, cuts, eof)."
)
ASSUMPTIONS = [
    "socket model of engines/vsock.py (recv returns at most one chunk; EOF readable; b'' at EOF)",
    "inter-chunk delays are not modelled in this synchronous harness (a blocked recv simply continues with the next chunk); "
    "delays against timeouts are exercised by the E4-based checks",
]
SHARDS = {"quick": 1, "thorough": 16}

EVENT_OF = {"AssocRQ": "Evt6", "AssocAC": "Evt3", "AssocRJ": "Evt4", "PData": "Evt10", "ReleaseRQ": "Evt12", "ReleaseRP": "Evt13", "Abort": "Evt16"}


def check_stream(ctx, case):
    pdus = [bytes(p) for p in case["pdus"]]
    kinds = case["kinds"]
    cuts = list(case["cuts"])
    eof = case["eof"]
    stream = b"".join(pdus)
    bounds = []
    o = 0
    for p in pdus:
        bounds.append((o, o + len(p)))
        o += len(p)
    in_header = any(any(b0 < c < b0 + 6 for b0, _ in bounds) for c in cuts if eof is None or c < eof)
    eof_inside = eof is not None and any(b0 < eof < b1 for b0, b1 in bounds)
    ctx.note(
        case,
        nontrivial=in_header or eof_inside,
        classes=[f"n={len(pdus)}", "eof" if eof is not None else "no-eof"] + (["cut-in-header"] if in_header else []) + (["eof-inside-pdu"] if eof_inside else []) + (["bytewise"] if len(cuts) >= len(stream) - 1 and len(stream) > 8 else []),
    )
    if eof is None:
        n_expect = len(pdus)
    else:
        n_expect = sum(1 for _, b1 in bounds if b1 <= eof)

    with V.installed():
        h = V.SyncDUL(mode="acceptor", state="Sta6")
        raw, dul = h.raw, h.dul
        data = stream if eof is None else stream[:eof]
        raw.feed(data, cuts)
        raw.eof = eof is not None
        events, got = [], []
        stalled = False
        for _ in range(len(pdus) + 3):
            if not h.sock.ready:
                break
            try:
                dul._read_pdu_data()
            except V.Stall:
                stalled = True
                break
            except Exception as e:
                ctx.fail("exception", sig.exc_key(e), f"_read_pdu_data raised {e!r}\n{sig.exc_text(e)}")
                return
            while not dul.event_queue.empty():
                events.append(dul.event_queue.get(False))
            while not dul._recv_pdu.empty():
                got.append(dul._recv_pdu.get(False))
            if events and events[-1] in ("Evt17", "Evt19"):
                break
        if stalled:
            raise HarnessError("blocking read although every PDU is complete or followed by EOF")

        want_events = [EVENT_OF[k] for k in kinds[:n_expect]] + (["Evt17"] if eof is not None else [])
        if "Evt19" in events:
            ctx.fail("truncated-as-invalid", "Evt19", f"valid stream produced Evt19: events={events} want={want_events} cuts={cuts} eof={eof}")
            return
        if events != want_events:
            key = "missing-or-extra-pdu" if [e for e in events if e != "Evt17"] != want_events[:n_expect] else "evt17"
            ctx.fail("event-sequence", key, f"events={events} want={want_events} cuts={cuts[:20]} eof={eof} lens={[len(p) for p in pdus]}")
            return
        if len(got) != n_expect:
            ctx.fail("pdu-count", "count", f"{len(got)} PDUs delivered, expected {n_expect}")
            return
        for i, (pdu, want) in enumerate(zip(got, pdus)):
            try:
                enc = pdu.encode()
            except Exception as e:
                ctx.fail("exception", sig.exc_key(e), f"delivered PDU cannot be encoded: {e!r}")
                return
            if enc != want:
                ctx.fail("pdu-bytes", kinds[i], f"PDU #{i} ({kinds[i]}) differs from what was sent\n want={want.hex()[:400]}\n got ={enc.hex()[:400]}\n cuts={cuts[:20]}")
                return
        # nothing beyond the delivered PDUs (+ the partial one at EOF) may have been consumed
        if eof is None and raw.pending() != 0:
            ctx.fail("leftover", "unread", f"{raw.pending()} bytes left unread")


CHECKS = {"stream": check_stream}


def run(ctx):
    import dataclasses

    from hypothesis import strategies as st

    S = R.strategies()

    def canon(v):
        return dataclasses.replace(v, lead_called=0, lead_calling=0) if isinstance(v, R.AssocRQ) else v

    # AC contexts always carry one transfer syntax (C01 domain); values the reference round-trip accepts
    ac = st.builds(R.AssocAC, S.ae_title(), S.ae_title(), S.uid(), st.lists(st.builds(R.PCAC, S.cid, st.integers(0, 4), S.uid()), max_size=3), S.ac_items, st.just(1))
    pdu = st.one_of(S.assoc_rq(3, leads=False), ac, S.rj, S.pdata, S.pdata, st.just(R.ReleaseRQ()), st.just(R.ReleaseRP()), S.abort)

    @st.composite
    def cases(draw):
        vals = [canon(v) for v in draw(st.lists(pdu, min_size=1, max_size=6 if not ctx.quick else 4))]
        enc = [R.ref_encode(v) for v in vals]
        total = sum(len(e) for e in enc)
        starts, o = [], 0
        for e in enc:
            starts.append(o)
            o += len(e)
        mode = draw(st.integers(0, 5))
        cuts = set()
        if mode == 0 and total <= 600:
            cuts = set(range(1, total))
        elif mode == 1:
            cuts = set(draw(st.lists(st.integers(1, max(total - 1, 1)), max_size=12)))
        else:
            for s0 in starts:
                for d in draw(st.lists(st.integers(-1, 7), max_size=3)):
                    if 0 < s0 + d < total:
                        cuts.add(s0 + d)
            cuts |= set(draw(st.lists(st.integers(1, max(total - 1, 1)), max_size=4)))
        eof = None
        if draw(st.booleans()):
            if draw(st.booleans()):
                s0 = draw(st.sampled_from(starts + [total]))
                eof = min(max(s0 + draw(st.integers(-1, 7)), 0), total)
            else:
                eof = draw(st.integers(0, total))
        return {"pdus": enc, "kinds": [type(v).__name__ for v in vals], "cuts": sorted(cuts), "eof": eof}

    ctx.hyp("stream", cases(), 1200 if ctx.quick else 4000)
