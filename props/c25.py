"""C25 - datasets arrive exactly as sent, for every transfer syntax and storage mode (E4 end to end)."""
import os
import tempfile

from engines import dsched as S
from vlib import sig
from vlib.core import VERIF, HarnessError

LEVEL = "exploration"
RULE = (
    "Hypothesis builds pydicom datasets from an element pool covering every VR the installed pydicom dictionary offers (one public tag per VR, "
    "multi-valued where the VM allows, empty and odd-length values, sequences to depth 2, a private block), kept only if pydicom alone (its own "
    "writer/reader + zlib, nothing from the tree under test) round-trips the dataset under every transfer syntax involved (differential baseline). "
    "Transfer syntax in {implicit LE, explicit LE, explicit BE, deflated}; "
    "maximum PDU sizes 0 and 7..300 on both sides; chunked send and chunked receive on/off; operation C-STORE, C-FIND (request identifier and "
    "response identifiers) or C-GET (C-STORE sub-operation towards the requestor). Two real AEs exchange the data under the E4 scheduler. Oracle: the "
    "peer handler's event.dataset / event.identifier, the decoded event.encoded_dataset(False), and in chunked-receive mode the file at "
    "event.dataset_path all equal the original dataset. "
    "Three generators feed the same check: (1) the general one above (one transfer syntax, the data set is sent in it; a third of the cases in "
    "chunked-send mode); (2) a C-STORE-only one biased to small odd/even maximum PDU sizes (9..301) with a padding element sized so that the LAST "
    "data-set fragment is 1 byte / less than half / at least half / exactly full (chunked and in-memory sends alike, all four transfer syntaxes) "
    "and half of the cases in chunked-send mode; (3) an enumerated matrix 'transfer syntax of the file or data set given to send_c_store' x "
    "'transfer syntax(es) accepted for its SOP class' (all 4 x (4 single + 12 ordered pairs) combinations in chunked-send mode, and for in-memory "
    "data sets all 16 single-context pairs plus every ordered pair of two accepted contexts once) with seeded payloads, where the outcome must be "
    "'refused before anything was sent' (documented ValueError; only acceptable when the file's transfer syntax itself was not accepted) or "
    "'delivered equal by every access path under the context it arrived on'. "
    "Non-trivial = the data set was fragmented over >=3 P-DATA PDUs, sent deflated, or its transfer syntax differs from an accepted one."
)
ASSUMPTIONS = [
    "baseline = pydicom alone: filewriter.write_dataset / filereader.read_dataset on the right VR/endianness and, for the deflated syntax, a raw "
    "RFC 1951 stream (zlib wbits=-15, PS3.5 A.5) via engines/e3kit.ref_encode/ref_decode - pynetdicom.dsutils of the tree under test is not "
    "involved in the baseline or in decoding event.encoded_dataset(); datasets pydicom cannot round-trip under each transfer syntax involved "
    "are discarded and counted",
    "dataset equality = pydicom Dataset.__eq__ on fully decoded datasets without file meta",
    "send_c_store raising ValueError with nothing delivered ('no accepted presentation context', documented) is the only acceptable "
    "alternative to delivery, and only when the transfer syntax of the file / data set was not itself accepted for the SOP class",
    "the bytes returned by event.encoded_dataset(False) are decoded under the transfer syntax of event.context, which must be one of the "
    "transfer syntaxes the scenario had accepted",
    "E4 substitution table (engines/dsched.py)",
]
SHARDS = {"quick": 1, "thorough": 16}
PORT = 11112
CT = "1.2.840.10008.5.1.4.1.1.2"
FIND = "1.2.840.10008.5.1.4.1.2.1.1"
GET = "1.2.840.10008.5.1.4.1.2.1.3"
TS = {"implicit": "1.2.840.10008.1.2", "explicit": "1.2.840.10008.1.2.1", "big": "1.2.840.10008.1.2.2", "deflated": "1.2.840.10008.1.2.1.99"}
_POOL = None
TEXT_VRS = ("AE", "AS", "CS", "DA", "DS", "DT", "IS", "LO", "LT", "PN", "SH", "ST", "TM", "UC", "UI", "UR", "UT")


def pool():
    """one public, non-retired, unambiguous tag per VR from pydicom's dictionary"""
    global _POOL
    if _POOL is None:
        from pydicom.datadict import DicomDictionary

        want = {}
        for tag, (vr, vm, name, retired, kw) in sorted(DicomDictionary.items()):
            if retired or not kw or " or " in vr or vr in ("SQ", "NONE") or tag >> 16 in (0x0000, 0x0002, 0x7FE0) or (tag & 0xFFFF) == 0:
                continue
            if tag in (0x00080005, 0x00080016, 0x00080018):
                continue  # SpecificCharacterSet, SOP Class/Instance UID are set explicitly
            multi = vm != "1"
            want.setdefault((vr, multi), (kw, vm))
        _POOL = want
    return _POOL


def build_ds(spec):
    """spec: list of [vr, multi(bool), values(list of plain)] + optional sequences -> pydicom Dataset"""
    from pydicom.dataset import Dataset
    from pydicom.sequence import Sequence

    def mk(elems):
        ds = Dataset()
        for e in elems:
            if e[0] == "SQ":
                items = [mk(x) for x in e[1]]
                ds.ReferencedStudySequence = Sequence(items) if e[2] == 0 else None
                if e[2] == 1:
                    ds.ReferencedSeriesSequence = Sequence(items)
                    del ds.ReferencedStudySequence
                continue
            if e[0] == "PRIVATE":
                blk = ds.private_block(0x000B, "VERIF PRIVATE", create=True)
                blk.add_new(0x01, e[1], e[2])
                continue
            vr, multi, vals = e
            key = (vr, bool(multi))
            if key not in pool():
                continue
            kw, vm = pool()[key]
            v = [_val(vr, x) for x in vals]
            v = [x for x in v if not (isinstance(x, (bytes, str)) and len(x) == 0 and (vr in ("DS", "IS") or isinstance(x, bytes)))]
            if not multi:
                v = v[0] if v else None
            elif vm.isdigit() or ("-" in vm and vm.split("-")[0] == vm.split("-")[1]):
                n = int(vm.split("-")[0])
                v = (v * n)[:n] if v else None
            elif vm.startswith("2-2n") or vm.startswith("2-n"):
                v = (v * 2)[: max(2, len(v) - len(v) % 2)] if v else None
            elif vm.startswith("3-"):
                v = (v * 3)[:3] if v else None
            if v in (None, []):
                if vr in TEXT_VRS and vr not in ("DS", "IS"):
                    v = ""  # zero-length value (pydicom decodes a zero-length text element to '')
                else:
                    continue
            setattr(ds, kw, v)
        return ds

    return mk(spec)


def _val(vr, x):
    if vr in ("OB", "OW", "OF", "OD", "OL", "OV", "UN"):
        unit = {"OB": 2, "UN": 2, "OW": 2, "OF": 4, "OL": 4, "OD": 8, "OV": 8}[vr]  # even lengths: odd-length binary values are padded irreversibly
        b = bytes(x)
        return b[: len(b) - len(b) % unit]
    return x


def strategies(ctx, which="general"):
    from hypothesis import strategies as st

    text = st.text(alphabet="ABCDEFGHIJ abcxyz0123456789_-", min_size=0, max_size=14).map(lambda s: s.strip())
    per_vr = {
        "AE": st.sampled_from(["A", "STORE_SCP", "AE TITLE 16 CHAR"]), "AS": st.sampled_from(["010Y", "003M", "099D"]), "CS": st.sampled_from(["CT", "ORIGINAL", "A_B", ""]),
        "DA": st.sampled_from(["20200101", "19991231", ""]), "DS": st.sampled_from(["1.5", "-0.25", "100", "1e3"]), "DT": st.sampled_from(["20200101120000", "20200101120000.123456", "2020"]),
        "IS": st.sampled_from(["0", "-12", "2147483647"]), "LO": text, "LT": text, "SH": text.map(lambda s: s[:12]), "ST": text, "UC": text, "UT": text, "UR": st.sampled_from(["http://a.b/c", "x:y"]),
        "PN": st.sampled_from(["Doe^John", "A^B^C^D^E", "X", "", "Ono^Taro=山田^太郎".split("=")[0]]), "TM": st.sampled_from(["120000", "235959.999999", "07"]),
        "UI": st.sampled_from(["1.2.3", "1.2.840.10008.1.1", "1.2.3.4.5.6.7.8.9.10.11"]),
        "FL": st.sampled_from([0.0, 1.5, -2.25, 1e10]), "FD": st.sampled_from([0.0, 1.5, -2.25, 1e100]),
        "SL": st.integers(-2**31, 2**31 - 1), "UL": st.integers(0, 2**32 - 1), "SS": st.integers(-2**15, 2**15 - 1), "US": st.integers(0, 2**16 - 1),
        "SV": st.integers(-2**63, 2**63 - 1), "UV": st.integers(0, 2**64 - 1), "AT": st.sampled_from([0x00100010, 0x7FE00010, 0x00080018]),
        "OB": st.binary(max_size=40), "OW": st.binary(max_size=40), "OF": st.binary(max_size=40), "OD": st.binary(max_size=40), "OL": st.binary(max_size=40), "OV": st.binary(max_size=40), "UN": st.binary(max_size=20),
    }
    keys = sorted(k for k in pool() if k[0] in per_vr)

    @st.composite
    def elems(draw, depth):
        out = []
        for (vr, multi) in draw(st.lists(st.sampled_from(keys), max_size=8, unique=True)):
            n = draw(st.integers(0, 3)) if multi else draw(st.integers(0, 1))
            out.append([vr, multi, [draw(per_vr[vr]) for _ in range(n)]])
        if depth > 0 and draw(st.integers(0, 2)) == 0:
            out.append(["SQ", [draw(elems(depth - 1)) for _ in range(draw(st.integers(0, 2)))], draw(st.integers(0, 1))])
        if draw(st.integers(0, 5)) == 0:
            out.append(["PRIVATE", "LO", draw(st.sampled_from(["private value", "pv", "x y"]))])
        return out

    @st.composite
    def case(draw):
        big = draw(st.integers(0, 3)) == 0
        spec = draw(elems(2))
        if big:
            spec.append(["OB", False, [draw(st.binary(min_size=200, max_size=1500))]])
        return {
            "op": draw(st.sampled_from(["store", "store", "find", "get"])),
            "ts": draw(st.sampled_from(["implicit", "explicit", "big", "deflated"])),
            "spec": spec,
            "max_pdu_rq": draw(st.sampled_from([0, 7, 8, 16, 64, 300, 16382])), "max_pdu_ac": draw(st.sampled_from([0, 7, 9, 32, 128, 300, 16382])),
            "chunk_send": draw(st.sampled_from([True, True, False])), "chunk_recv": draw(st.booleans()),
            "policy": draw(st.sampled_from(["fifo", "random"])), "seed": draw(st.integers(0, 9999)),
            "tail": draw(st.sampled_from([None, None, "1", "lt", "gt", "full"])),
        }

    @st.composite
    def spec_only(draw):
        spec = draw(elems(2))
        if draw(st.integers(0, 2)) == 0:
            spec.append(["OB", False, [draw(st.binary(min_size=100, max_size=900))]])
        return spec

    @st.composite
    def store_tail(draw):
        """C-STORE only, small maximum PDU sizes of both parities, every fill level of the last fragment, half chunked-send."""
        c = draw(case())
        c.update(
            op="store",
            max_pdu_ac=draw(st.sampled_from([9, 10, 13, 16, 21, 32, 37, 64, 101, 128, 300, 301])),
            chunk_send=draw(st.booleans()),
            tail=draw(st.sampled_from(["1", "lt", "lt", "gt", "full"])),
        )
        return c

    if which == "spec":
        return spec_only()
    if which == "store_tail":
        return store_tail()
    return case()


TS_NAMES = ("implicit", "explicit", "big", "deflated")


def matrix_cases(ctx, payloads):
    """Enumerated: transfer syntax of the file / data set x transfer syntaxes accepted for its SOP class (1 or 2 contexts)."""
    import random

    singles = [[t] for t in TS_NAMES]
    pairs = [[a, b] for a in TS_NAMES for b in TS_NAMES if a != b]
    rows = [(f, acc, True) for f in TS_NAMES for acc in singles + pairs]  # chunked send: all 64
    rows += [(f, acc, False) for f in TS_NAMES for acc in singles]  # in-memory: all 16 single-context pairs
    rows += [(TS_NAMES[(k + (0 if ctx.quick else rep)) % 4], acc, False) for rep in range(1 if ctx.quick else 4) for k, acc in enumerate(pairs)]
    rnd = random.Random(ctx.seed * 7919 + 25)
    out = []
    for idx, (file_ts, accept, chunk) in enumerate(rows):
        if idx % ctx.nshards != ctx.shard:
            rnd.random()
            continue
        out.append(
            {
                "op": "store", "ts": accept[0], "file_ts": file_ts, "accept": accept, "spec": payloads[idx % len(payloads)],
                "max_pdu_rq": rnd.choice([0, 16, 300, 16382]), "max_pdu_ac": rnd.choice([0, 9, 32, 37, 128, 300, 16382]),
                "chunk_send": chunk, "chunk_recv": rnd.random() < 0.35, "policy": "fifo", "seed": idx,
                "tail": rnd.choice([None, "1", "lt", "gt", "full"]),
            }
        )
    return out


def _strip(ds):
    from copy import deepcopy

    d = deepcopy(ds)
    if hasattr(d, "file_meta"):
        try:
            del d.file_meta
        except Exception:
            pass
    for kw in ("SOPClassUID", "SOPInstanceUID", "QueryRetrieveLevel"):
        pass
    return d


def _same(a, b):
    try:
        return a == b
    except Exception:
        return False


PAD_TAG = 0x00420011  # Encapsulated Document (OB): padding element used to steer the length of the encoded data set


def _convertible(src, dst):
    """docs/user/presentation_requestor.rst (same rule as engines/e3kit.ts_convertible): same syntax, or both
    uncompressed/deflated with the same byte order"""
    return src == dst or (src != "big") == (dst != "big")


def _pad_for_tail(ds, ts_uid, frag, tail, seed):
    """Add the padding element to `ds` so that the data set encoded under `ts_uid` ends in a last fragment of the wanted
    fill level when cut into pieces of `frag` bytes (best effort; the achieved level is measured by the caller)."""
    import random

    from engines import e3kit as K

    if frag < 2 or frag > 400:
        return
    want = {"1": 1, "lt": max(1, frag // 4), "gt": min(frag - 1, (3 * frag) // 4), "full": 0}[tail] % frag
    stream = random.Random(seed).randbytes(2 * frag + 1300)
    deflated = K.TS[ts_uid][2]

    def length(p):
        ds.add_new(PAD_TAG, "OB", stream[:p])
        return len(K.ref_encode(ds, ts_uid))

    if not deflated:
        l0 = length(0)
        p = (want - l0) % frag
        if p % 2:
            p += frag if frag % 2 else 1
        while l0 + p <= frag:
            p += frag * (1 if frag % 2 == 0 else 2)
        length(p)
        return
    best = None
    for p in range(0, min(2 * frag + 1200, 1300), 2):
        n = length(p)
        if n > frag and n % frag == want:
            return
        if best is None and n > frag:
            best = p
    length(best or 0)


def _fill_class(n, frag):
    if frag <= 0 or n <= frag:
        return "single"
    r = n % frag
    if r == 0:
        return "full"
    if r == 1:
        return "1-byte"
    return "<half" if 2 * r < frag else ">=half"


def check_transfer(ctx, case):
    from io import BytesIO

    from engines import e3kit as K
    from pydicom import dcmread
    from pydicom.dataset import Dataset, FileMetaDataset
    from pynetdicom import AE, _config, evt

    op = case["op"]
    ts = case["ts"]
    # transfer syntax of the data set / file handed to send_c_store and the ones accepted for its SOP class
    file_ts = case.get("file_ts", ts) if op == "store" else ts
    accept = list(case.get("accept") or [ts]) if op == "store" else [ts]
    involved = sorted(set(accept + [file_ts]))
    tsuid = TS[ts]
    deflated = "deflated" in involved
    try:
        spec = [e for e in case["spec"] if not (e[0] == "PRIVATE" and "implicit" in involved)]
        ds = build_ds(spec)
    except Exception as e:
        ctx.note(case, nontrivial=False, classes=["unbuildable:" + type(e).__name__])
        return
    if op in ("store", "get"):
        ds.SOPClassUID = CT
        ds.SOPInstanceUID = "1.2.3.4.5"
    else:
        ds.QueryRetrieveLevel = "PATIENT"
    chunk_send = bool(case["chunk_send"]) and op == "store"
    # the transfer syntax the data set is expected to travel in (None: no usable context, the send must be refused)
    if file_ts in accept:
        wire = file_ts
    else:
        wire = next((t for t in accept if _convertible(file_ts, t)), None) if not chunk_send else None
    # sender's fragment size: the receiver's maximum PDU length minus the 6 byte PDV item header
    max_pdu_dir = case["max_pdu_rq"] if op == "get" else case["max_pdu_ac"]
    frag = max_pdu_dir - 6 if max_pdu_dir else 0
    # differential baseline: pydicom alone (no code of the tree under test) must round-trip it under every syntax involved
    try:
        if case.get("tail") and wire and frag:
            _pad_for_tail(ds, TS[wire], frag, case["tail"], case.get("seed", 0))
        ok = True
        for t in involved:
            raw = K.ref_encode(ds, TS[t])
            back = K.ref_decode(raw, TS[t])
            str(back)  # force full decoding
            ok = ok and _same(back, ds)
        wire_len = len(K.ref_encode(ds, TS[wire])) if wire else 0
    except Exception:
        ok = False
    if not ok:
        ctx.note(case, nontrivial=False, classes=["baseline-discarded"])
        return

    tmpdir = tempfile.mkdtemp(prefix="c25_", dir=os.path.join(VERIF, ".work")) if os.path.isdir(os.path.join(VERIF, ".work")) else tempfile.mkdtemp(prefix="c25_", dir="/var/tmp")
    old = (_config.STORE_SEND_CHUNKED_DATASET, _config.STORE_RECV_CHUNKED_DATASET)
    _config.STORE_SEND_CHUNKED_DATASET = chunk_send
    _config.STORE_RECV_CHUNKED_DATASET = bool(case["chunk_recv"])
    seen = []  # (where, kind, dataset or exception)
    paths = []
    result = {}
    accepted_uids = {TS[t] for t in accept}
    try:
        with S.World(S.Chooser(case["policy"], case["seed"]), max_steps=60000, quantum=0.1) as w:
            def grab_store(event, where):
                try:
                    cx_ts = str(event.context.transfer_syntax)
                except Exception as e:
                    cx_ts = None
                    seen.append((where, "context", e))
                result.setdefault("cx_ts", []).append(cx_ts)
                try:
                    seen.append((where, "dataset", _strip(event.dataset)))
                except Exception as e:
                    seen.append((where, "dataset", e))
                try:
                    enc = event.encoded_dataset(include_meta=False)
                    if cx_ts in accepted_uids:
                        seen.append((where, "encoded", _strip(K.ref_decode(enc, cx_ts))))
                except Exception as e:
                    seen.append((where, "encoded", e))
                if _config.STORE_RECV_CHUNKED_DATASET:
                    try:
                        p = event.dataset_path
                        paths.append(str(p))
                        seen.append((where, "path", _strip(dcmread(p))))
                    except Exception as e:
                        seen.append((where, "path", e))
                return 0

            def h_find(event):
                try:
                    seen.append(("scp", "identifier", _strip(event.identifier)))
                except Exception as e:
                    seen.append(("scp", "identifier", e))
                yield 0xFF00, ds

            def h_get(event):
                yield 1
                d = Dataset()
                d.update(ds)
                d.file_meta = FileMetaDataset()
                d.file_meta.TransferSyntaxUID = tsuid
                yield 0xFF00, d

            scp = AE("SCP")
            scp.acse_timeout, scp.dimse_timeout, scp.network_timeout = 5, 5, 10
            scp.maximum_pdu_size = case["max_pdu_ac"]
            scp.add_supported_context(CT, [TS[t] for t in accept], scu_role=True, scp_role=True)
            scp.add_supported_context(FIND, tsuid)
            scp.add_supported_context(GET, tsuid)
            w.serve(scp, PORT, handlers=[(evt.EVT_C_STORE, grab_store, ["scp"]), (evt.EVT_C_FIND, h_find), (evt.EVT_C_GET, h_get)])

            def user():
                from pynetdicom import build_role

                scu = AE("SCU")
                scu.acse_timeout, scu.dimse_timeout, scu.network_timeout = 5, 5, 10
                for t in accept:  # one proposed (and accepted) context per transfer syntax
                    scu.add_requested_context(CT, TS[t])
                scu.add_requested_context(FIND, tsuid)
                scu.add_requested_context(GET, tsuid)
                ext = [build_role(CT, scu_role=True, scp_role=True)] if op == "get" else []
                a = scu.associate("127.0.0.1", PORT, max_pdu=case["max_pdu_rq"], ext_neg=ext, evt_handlers=[(evt.EVT_C_STORE, grab_store, ["scu"])])
                result["established"] = a.is_established
                if not a.is_established:
                    return
                result["accepted"] = sorted(str(cx.transfer_syntax[0]) for cx in a.accepted_contexts if cx.abstract_syntax == CT)
                if op == "store":
                    d = Dataset()
                    d.update(ds)
                    d.file_meta = FileMetaDataset()
                    d.file_meta.TransferSyntaxUID = TS[file_ts]
                    d.file_meta.MediaStorageSOPClassUID = CT
                    d.file_meta.MediaStorageSOPInstanceUID = "1.2.3.4.5"
                    src = d
                    if _config.STORE_SEND_CHUNKED_DATASET:
                        src = os.path.join(tmpdir, "send.dcm")
                        d.save_as(src, implicit_vr=file_ts == "implicit", little_endian=file_ts != "big", enforce_file_format=True)
                    try:
                        st_ = a.send_c_store(src)
                        result["status"] = st_.Status if (st_ is not None and "Status" in st_) else None
                    except ValueError as e:  # documented: no accepted presentation context for the data set
                        result["refused"] = repr(e)
                elif op == "find":
                    got = []
                    for st_, ident in a.send_c_find(ds, FIND):
                        got.append(st_.Status if (st_ is not None and "Status" in st_) else None)
                        if ident is not None:
                            seen.append(("scu", "identifier", _strip(ident)))
                    result["status"] = got
                else:
                    ident = Dataset()
                    ident.QueryRetrieveLevel = "PATIENT"
                    ident.PatientID = "*"
                    got = [(s_.Status if (s_ is not None and "Status" in s_) else None) for s_, _ in a.send_c_get(ident, GET)]
                    result["status"] = got
                a.release()

            w.spawn(user, "user")
            how = w.run()
            rep = w.report()
            n_pdata = sum(1 for _, cid, side, b in w.tap if b is not None and b[:1] == b"\x04")
    finally:
        _config.STORE_SEND_CHUNKED_DATASET, _config.STORE_RECV_CHUNKED_DATASET = old
        for p in paths:
            try:
                os.remove(p)
            except OSError:
                pass
        import shutil

        shutil.rmtree(tmpdir, ignore_errors=True)

    mode = ("chunk-send" if chunk_send else "mem-send") + "/" + ("chunk-recv" if case["chunk_recv"] else "mem-recv")
    classes = [op, ts, mode, how, f"pdata={'>=3' if n_pdata >= 3 else n_pdata}"]
    mismatch = file_ts not in accept
    if op == "store":
        relation = "exact" if not mismatch else ("convertible" if any(_convertible(file_ts, t) for t in accept) else "inconvertible")
        classes += [f"contexts-accepted:{len(accept)}", f"file-ts:{relation}", "outcome:" + ("refused" if "refused" in result else "sent")]
        if "accept" in case or "file_ts" in case:
            classes.append(f"matrix:{'chunk' if chunk_send else 'mem'}:{file_ts}->{'+'.join(accept)}")
    if wire:
        classes.append(f"last-fragment:{'chunk' if chunk_send else 'mem'}:{_fill_class(wire_len, frag)}")
    ctx.note(case, nontrivial=n_pdata >= 3 or deflated or mismatch, classes=classes)
    desc = f"op={op} file_ts={file_ts} accepted={accept} mode={mode} max_pdu={case['max_pdu_rq']}/{case['max_pdu_ac']}"
    if how == "budget":
        ctx.inconclusive += 1
        return
    died = [t for t in rep["threads"] if t["exc"]]
    if died:
        ctx.fail("thread-exception", f"{died[0]['kind']}:{died[0]['exc'][2]}", f"{died[0]['name']} died: {died[0]['exc'][:2]}; {desc}")
        return
    if not result.get("established"):
        raise HarnessError("association not established in C25 scenario")
    if op == "store" and result.get("accepted") != sorted(accepted_uids):
        raise HarnessError(f"C25 scenario: accepted storage contexts {result.get('accepted')} != planned {sorted(accepted_uids)}")
    want = _strip(ds)
    if "refused" in result:
        # nothing may have reached the peer, and a refusal is only acceptable when the file's syntax was not accepted
        if seen:
            ctx.fail("refused-but-sent", f"{mode.split('/')[0]}:{relation}", f"send_c_store raised {result['refused']} but the peer's handler was invoked; {desc}")
        elif not mismatch:
            ctx.fail("not-delivered", f"{op}:{mode}:refused", f"send_c_store refused a data set whose transfer syntax was accepted: {result['refused']}; {desc}")
        return
    if not seen:
        ctx.fail("not-delivered", f"{op}:{mode}", f"no handler saw the dataset; status={result.get('status')} ts={ts} {desc}")
        return
    for cx_ts in result.get("cx_ts", []):
        if cx_ts not in accepted_uids:
            ctx.fail("context", f"{op}:{mode.split('/')[0]}", f"the handler's event.context has transfer syntax {cx_ts}, accepted were {sorted(accepted_uids)}; {desc}")
            return
    for where, kind, got in seen:
        tag = ts if not mismatch else f"{relation}-ts"
        if isinstance(got, Exception):
            ctx.fail("access-raises", f"{kind}:{mode.split('/')[1]}:{type(got).__name__}" if not mismatch else f"{kind}:{mode.split('/')[0]}:{relation}-ts:{type(got).__name__}", f"{where} handler: accessing {kind} raised {got!r}; ts={ts} {desc}")
            return
        if not _same(got, want):
            ctx.fail("dataset-differs", (f"{kind}:{mode.split('/')[1]}:{tag}" if not mismatch else f"{kind}:{mode.split('/')[0]}:{tag}") if kind != "identifier" else f"{op}:{kind}:{where}:{ts}", f"{where} handler: {kind} differs from the dataset sent; ts={ts} {desc}\n sent={want}\n got ={got}")
            return


CHECKS = {"transfer": check_transfer}


def run(ctx):
    os.makedirs(os.path.join(VERIF, ".work"), exist_ok=True)
    ctx.hyp("transfer", strategies(ctx), 100 if ctx.quick else 800)
    ctx.hyp("transfer", strategies(ctx, "store_tail"), 50 if ctx.quick else 300)
    # matrix payloads: seeded specs that pydicom round-trips under all four transfer syntaxes (so no combination is discarded)
    from engines import e3kit as K

    payloads = []
    for spec in ctx.collect("matrix-payloads", strategies(ctx, "spec"), 40):
        spec = [e for e in spec if e[0] != "PRIVATE"]
        try:
            ds = build_ds(spec)
            ds.SOPClassUID, ds.SOPInstanceUID = CT, "1.2.3.4.5"
            if all(_same(K.ref_decode(K.ref_encode(ds, TS[t]), TS[t]), ds) for t in TS_NAMES):
                payloads.append(spec)
        except Exception:
            continue
        if len(payloads) == 12:
            break
    if not payloads:
        raise HarnessError("C25: no matrix payload round-trips under all transfer syntaxes")
    ctx.each("transfer", matrix_cases(ctx, payloads))
