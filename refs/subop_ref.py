"""Reference bookkeeping for C-GET / C-MOVE sub-operations (C22) and C-CANCEL visibility (C23).

Written from PS3.4 C.4.2 / C.4.3 (SCP behaviour: "Remaining ... Completed, Failed, Warning sub-operations", final
status Success / Warning / Failure-Refused rule) and the documented status tables in
docs/service_classes/{storage,query_retrieve}_service_class.rst.  Nothing is imported from pynetdicom.
"""
from __future__ import annotations

SUCCESS, WARNING, FAILURE, CANCEL, PENDING = "success", "warning", "failure", "cancel", "pending"


def storage_category(code):
    """Category of a C-STORE response status as documented for the Storage service; None = not documented
    there (the retrieve SCP must still account for the sub-operation, in exactly one counter)."""
    if code == 0x0000:
        return SUCCESS
    if code in (0xB000, 0xB006, 0xB007):
        return WARNING
    if 0xA700 <= code <= 0xA7FF or 0xA900 <= code <= 0xA9FF or 0xC000 <= code <= 0xCFFF:
        return FAILURE
    if code in (0x0117, 0x0122, 0x0124, 0x0210, 0x0211, 0x0212):
        return FAILURE
    return None


def retrieve_category(svc, code):
    """Category of a status a C-GET / C-MOVE handler may yield (documented tables); None = not documented."""
    if not isinstance(code, int) or isinstance(code, bool):
        return None
    if code == 0x0000:
        return SUCCESS
    if code == 0xFF00:
        return PENDING
    if code == 0xFE00:
        return CANCEL
    if code == 0xB000:
        return WARNING
    if code in (0xA701, 0xA702, 0xA900, 0xAA00, 0xAA01, 0xAA02, 0xAA03, 0xAA04) or 0xC000 <= code <= 0xCFFF:
        return FAILURE
    if code in (0x0122, 0x0124, 0x0210, 0x0212) or (svc == "move" and code in (0xA801, 0x0211)):
        return FAILURE
    return None


class SubopModel:
    """remaining/failed/warning/completed for N announced sub-operations, plus the failed instance list."""

    def __init__(self, n):
        self.n = n
        self.r, self.f, self.w, self.c = n, 0, 0, 0
        self.failed_uids = []
        self.invalid = 0  # invalid objects counted as failed (they have no SOP Instance UID)

    @property
    def counters(self):
        return (self.r, self.f, self.w, self.c)

    def account(self, category, uid=None, invalid=False):
        """One announced sub-operation ends in `category`."""
        assert self.r > 0
        self.r -= 1
        if category == FAILURE:
            self.f += 1
            if invalid:
                self.invalid += 1
            elif uid is not None:
                self.failed_uids.append(uid)
        elif category == WARNING:
            self.w += 1
        elif category == SUCCESS:
            self.c += 1
        else:
            raise ValueError(category)

    def final_status(self):
        """The status the SCP itself has to choose (PS3.4 C.4.2.3.1 / C.4.3.3.1)."""
        if self.f == 0 and self.w == 0:
            return 0x0000
        if self.f == self.n:
            return 0xA702
        return 0xB000


class CancelModel:
    """Which C-CANCELs an operation's handler must / must not see (C23).

    Fed with the recorded history: start(msg_id) / cancel(id, window) / polled(result) / end().
    window: "idle" (no operation in progress), "queued" (request received by the DIMSE provider, not yet
    dispatched), "during" (the service class is running the operation)."""

    def __init__(self):
        self.in_progress = None
        self.seen_earlier = set()  # IDs of every cancel received before the current operation started
        self._reset()

    def _reset(self):
        self.matching_arrived = False  # a cancel naming the operation arrived while it was in progress
        self.reported = False  # is_cancelled has already been True for it
        self.unreported = []  # (window, distinct IDs pending before it arrived) of matching cancels not yet reported
        self.others_during = 0
        self.stale_same_id = False
        self.pending = set()  # distinct IDs received while the service class runs and not reported (label only)
        self.max_pending = 0
        self.received = set()
        self.polls = 0
        self.polled_before_match = False

    def start(self, msg_id):
        self._reset()
        self.in_progress = msg_id
        self.stale_same_id = msg_id in self.seen_earlier

    def end(self):
        self.seen_earlier |= self.received
        self.in_progress = None

    def cancel(self, msg_id, window):
        if self.in_progress is None:
            self.seen_earlier.add(msg_id)
            return
        self.received.add(msg_id)
        before = len(self.pending)
        if window == "during":
            self.pending.add(msg_id)
            self.max_pending = max(self.max_pending, len(self.pending))
        if msg_id == self.in_progress:
            self.matching_arrived = True
            self.unreported.append((window, before))
            if self.polls:
                self.polled_before_match = True
        else:
            self.others_during += 1

    def expect_poll(self):
        """-> True (must report), False (must not report) or None (unconstrained: already reported once)."""
        if not self.matching_arrived:
            return False
        if not self.reported:
            return True
        return None

    def polled(self, result):
        self.polls += 1
        if result:
            self.reported = True
            self.unreported = []
            self.pending.discard(self.in_progress)

    def miss_cause(self):
        """Structural label for a matching cancel that was not reported."""
        during = [b for w, b in self.unreported if w == "during"]
        if not during:
            return "received-before-dispatch"
        if all(b >= 10 for b in during):
            return "in-progress:>=10-other-cancels-pending"
        return "in-progress:<10-cancels-pending"

    def describe(self):
        return ", ".join(f"{w} with {b} distinct cancel IDs pending" for w, b in self.unreported)
