#!/bin/bash
export VERIF_EVIDENCE_DIR=${VERIF_EVIDENCE_DIR:-/var/tmp/evidence_scratch}  # exploratory run: do not touch /verif/evidence
# usage: run_mutants.sh [pattern]  : apply every mutants/<ID>-*.patch to a scratch worktree of /repo HEAD, run the quick check of <ID>
# against it (VERIF_REPO) and report caught / missed / does-not-apply. Results -> mutants/RESULTS.md
cd /verif; PAT=${1:-C}; [ "$PAT" = C ] && : > /var/tmp/mutants_results.txt
for p in $(ls mutants/*.patch | grep "$PAT"); do
  id=$(basename $p | cut -d- -f1); WT=/var/tmp/mut_$$
  git -C /repo worktree add -q $WT HEAD || exit 2
  if git -C $WT apply /verif/$p 2>/dev/null || git -C $WT apply -p0 /verif/$p 2>/dev/null || (cd $WT && patch -p1 -s --fuzz=3 < /verif/$p >/dev/null 2>&1) || (cd $WT && git checkout -q . && patch -p0 -s --fuzz=3 < /verif/$p >/dev/null 2>&1); then
    out=$(VERIF_REPO=$WT timeout 1500 /venv/bin/python check.py $id 2>&1); rc=$?
    first=$(echo "$out" | grep -m1 "violation clause" | cut -c1-120)
    echo "$(basename $p) | rc=$rc | $([ $rc -eq 1 ] && echo caught || echo MISSED) | $first" | tee -a /var/tmp/mutants_results.txt
  else
    echo "$(basename $p) | - | does not apply to HEAD (code changed by a later fix) |" | tee -a /var/tmp/mutants_results.txt
  fi
  git -C /repo worktree remove --force $WT
done
{ echo "# Mutant run ($(date -u +%F)) against /repo HEAD $(git -C /repo rev-parse --short HEAD): quick check of the property, VERIF_REPO=<scratch worktree>"; echo; echo "| mutant | exit | verdict | first violation |"; echo "|---|---|---|---|"; sed 's/^/| /; s/$/ |/' /var/tmp/mutants_results.txt; } > mutants/RESULTS.md
