"""C18 - outgoing messages use an accepted presentation context compatible with their content (engine E3 syncassoc).

Generated sets of accepted contexts (abstract syntax x transfer syntax x local roles, duplicates, UPS family, meta SOP
class) and operations through the public API: send_c_store with datasets of every transfer-syntax labelling (built from
scratch with/without encoding flags, read from bytes with raw elements, from a file, chunked from a file), send_c_echo,
send_c_find/get/move, send_n_* with/without meta_uid, and C-STORE sub-operation requests arriving during send_c_get
(answered by Association._c_store_scp).  The oracle is a reference model of "admissible context" written from the
property statement and docs/user/presentation_requestor.rst; the recorded message gives the context actually used and the
data-set bytes, which are decoded independently under that context's transfer syntax.
"""
import os

from engines import e3kit as K
from engines.syncassoc import mk, no_sleep
from vlib import sig
from vlib.core import HarnessError

LEVEL = "exploration"
RULE = (
    "Hypothesis draws 1..6 accepted contexts (abstract syntax from a pool biased to the operation's SOP class, transfer "
    "syntax from {implicit LE, explicit LE, deflated, explicit BE, JPEG baseline, JPEG2000 lossless, RLE}, roles "
    "as_scu/as_scp in all four combinations, unique odd IDs 1..15) and one operation. Oracle: the recorded request uses an "
    "accepted context whose abstract syntax is the SOP class / meta SOP class (UPS Push may use Pull/Watch/Event/Query), "
    "on which the local side is SCU (N-EVENT-REPORT: role not asserted); for C-STORE the context's transfer syntax equals "
    "the dataset's or both are uncompressed/deflated with the same byte order, an exact transfer-syntax match is used when "
    "one exists, chunked file sending needs the exact syntax; the data-set bytes decode under the used context's transfer "
    "syntax to the caller's dataset; with no admissible context the call raises and sends nothing; with an admissible "
    "exact-abstract context and a consistent dataset it does not raise. C-STORE sub-operation responses during C-GET: context "
    "accepted; if the handler ran, its abstract syntax is the request's SOP class and the local side is SCP there. "
    "Non-trivial = >=2 accepted contexts carry the operation's target abstract syntax (or a UPS substitute); distinct = distinct case."
)
ASSUMPTIONS = [
    "E3: Association without threads; accepted contexts installed directly (assoc._accepted_cx) with the local roles",
    "transfer-syntax facts (implicit/little/deflated/encapsulated) are this module's own table (PS3.5), deflated counts as "
    "uncompressed little endian (docs/user/presentation_requestor.rst: 'Uncompressed and deflated transfer syntaxes ... "
    "provided the endianness remains the same')",
    "UPS Push -> Pull/Watch/Event/Query substitution as announced in docs/changelog/v1.5.2.rst; when a Push context exists "
    "but lacks the role, either outcome (raise / use a substitute) is accepted",
    "N-EVENT-REPORT: the role is not asserted (association.py documents that role selection is ignored for it)",
    "datasets whose encoding flags contradict their file-meta transfer syntax: the call may raise; if it sends, the context "
    "must be compatible with the label or with the natural syntax of the actual encoding, and the bytes must still decode "
    "to the dataset",
    "sub-operation requests are generated only on accepted context IDs (unaccepted IDs belong to C19)",
    "'context the request arrived on' is not asserted for sub-operation responses, only accepted/abstract/role",
]
SHARDS = {"quick": 1, "thorough": 8}
MIN_NONTRIVIAL = 20

ALL_TS = list(K.TS)
STORAGE = [K.CT, K.MR, K.SC]
NATURAL = {(True, True): K.IVLE, (False, True): K.EVLE, (False, False): K.EVBE}

N_OPS = ("n_event_report", "n_get", "n_set", "n_action", "n_create", "n_delete")


# --------------------------------------------------------------------------- reference model
def target_abstract(op):
    k = op["kind"]
    if k == "c_echo":
        return K.VERIFICATION
    if k == "c_store":
        return op["sop"]
    if k in ("c_find", "c_get", "c_move"):
        return op["model"]
    return op.get("meta_uid") or op["class_uid"]


def store_source(op):
    """-> (consistent, [source transfer syntaxes the used context may be compatible with])"""
    label = op["label"]
    flags = op.get("flags")
    if flags is None:
        return True, [label]
    enc = (bool(flags[0]), bool(flags[1]))
    if enc == K.TS[label][:2]:
        return True, [label]
    out = [label]
    if enc in NATURAL:
        out.append(NATURAL[enc])
    return False, out


def admissible(contexts, op):
    """-> (exact: set of cids, subst: set of cids) admissible for the request of `op`."""
    tgt = target_abstract(op)
    need_scu = op["kind"] != "n_event_report"
    exact, subst = set(), set()
    for ab, ts, scu, scp, cid in contexts:
        if need_scu and not scu:
            continue
        if op["kind"] == "c_store":
            _, srcs = store_source(op)
            if op["via"] == "file-chunked":
                if ts != op["label"]:
                    continue
            elif not any(K.ts_convertible(s, ts) for s in srcs):
                continue
        if ab == tgt:
            exact.add(cid)
        elif tgt == K.UPS_PUSH and ab in K.UPS_FAMILY_SUBST:
            subst.add(cid)
    return exact, subst


def why_not(contexts, op, cid):
    """Which criterion the used context violates (first of: not-accepted, abstract-syntax, role, transfer-syntax:*)."""
    cx = {c[4]: c for c in contexts}.get(cid)
    if cx is None:
        return "not-accepted"
    ab, ts, scu, scp, _ = cx
    tgt = target_abstract(op)
    if not (ab == tgt or (tgt == K.UPS_PUSH and ab in K.UPS_FAMILY_SUBST)):
        return "abstract-syntax"
    if op["kind"] != "n_event_report" and not scu:
        return "role"
    if op["kind"] == "c_store":
        _, srcs = store_source(op)
        if op["via"] == "file-chunked":
            return "transfer-syntax:chunked-needs-exact"
        a, b = K.TS[srcs[0]], K.TS[ts]
        if a[3] or b[3]:
            return "transfer-syntax:compressed"
        if a[1] != b[1]:
            return "transfer-syntax:endianness"
        return "transfer-syntax:other"
    return "unknown"


# --------------------------------------------------------------------------- building the inputs
def _store_dataset(ctx, op):
    """-> (argument for send_c_store, the dataset the peer must be able to decode)"""
    from pydicom.dataset import FileMetaDataset
    from pydicom.filereader import read_dataset

    ds = K.mk_ds(op["elems"])
    ds.SOPClassUID = op["sop"]
    ds.SOPInstanceUID = "1.2.826.0.1.3680043.8.498.77"
    fm = FileMetaDataset()
    fm.TransferSyntaxUID = op["label"]
    fm.MediaStorageSOPClassUID = op["sop"]
    fm.MediaStorageSOPInstanceUID = ds.SOPInstanceUID
    via = op["via"]
    if via == "scratch":
        ds.file_meta = fm
        if op.get("flags") is not None:
            ds.set_original_encoding(bool(op["flags"][0]), bool(op["flags"][1]))
        return ds, ds
    if via == "read":
        imp, little = bool(op["flags"][0]), bool(op["flags"][1])
        real = NATURAL[(imp, little)]
        raw = K.ref_encode(ds, real)
        rd = read_dataset(K.BytesIO(raw), imp, little)
        rd.file_meta = fm
        return rd, ds
    # file / file-chunked: a truthful Part 10 file in the labelled transfer syntax
    ds.file_meta = fm
    os.makedirs(ctx.work, exist_ok=True)
    path = os.path.join(ctx.work, "c18_store.dcm")
    imp, little, _, _ = K.TS[op["label"]]
    ds.save_as(path, implicit_vr=imp, little_endian=little, enforce_file_format=True)
    return path, ds


def perform(ctx, a, op):
    """Call the public API. -> (expected dataset | None, 'ok' | exception)"""
    from pynetdicom import _config

    k = op["kind"]
    want = None
    old = _config.STORE_SEND_CHUNKED_DATASET
    try:
        with no_sleep():
            if k == "c_echo":
                a.send_c_echo(msg_id=5)
            elif k == "c_store":
                arg, want = _store_dataset(ctx, op)
                _config.STORE_SEND_CHUNKED_DATASET = op["via"] == "file-chunked"
                a.send_c_store(arg, msg_id=5)
            elif k in ("c_find", "c_get", "c_move"):
                want = K.mk_ds(op["elems"])
                if k == "c_find":
                    g = a.send_c_find(want, op["model"], msg_id=5)
                elif k == "c_get":
                    g = a.send_c_get(want, op["model"], msg_id=5)
                else:
                    g = a.send_c_move(want, "DEST", op["model"], msg_id=5)
                for i, _ in enumerate(g):
                    if i > 6:
                        raise HarnessError("iterator does not end")
            else:
                cu, mu = op["class_uid"], op.get("meta_uid")
                ds = K.mk_ds(op["elems"])
                if k == "n_event_report":
                    want = ds
                    a.send_n_event_report(ds, 1, cu, "1.2.3.4", msg_id=5, meta_uid=mu)
                elif k == "n_get":
                    a.send_n_get([0x00100010], cu, "1.2.3.4", msg_id=5, meta_uid=mu)
                elif k == "n_set":
                    want = ds
                    a.send_n_set(ds, cu, "1.2.3.4", msg_id=5, meta_uid=mu)
                elif k == "n_action":
                    want = ds
                    a.send_n_action(ds, 1, cu, "1.2.3.4", msg_id=5, meta_uid=mu)
                elif k == "n_create":
                    want = ds
                    a.send_n_create(ds, cu, "1.2.3.4", msg_id=5, meta_uid=mu)
                elif k == "n_delete":
                    a.send_n_delete(cu, "1.2.3.4", msg_id=5, meta_uid=mu)
                else:
                    raise HarnessError(k)
        return want, "ok"
    except HarnessError:
        raise
    except Exception as e:
        return want, e
    finally:
        _config.STORE_SEND_CHUNKED_DATASET = old


# --------------------------------------------------------------------------- check: requests
def check_request(ctx, case):
    contexts, op, mode = [list(c) for c in case["contexts"]], case["op"], case.get("mode", "requestor")
    a = mk(mode, [tuple(c) for c in contexts])
    exact, subst = admissible(contexts, op)
    tgt = target_abstract(op)
    n_cand = sum(1 for c in contexts if c[0] == tgt or (tgt == K.UPS_PUSH and c[0] in K.UPS_FAMILY_SUBST))
    consistent = True
    if op["kind"] == "c_store":
        consistent, _ = store_source(op)
    want, outcome = perform(ctx, a, op)
    msgs = K.messages(a.sent)
    kind = op["kind"]
    classes = [
        "op:" + kind,
        "candidates:%d" % min(n_cand, 3),
        "admissible:" + ("exact" if exact else "subst" if subst else "none"),
        "outcome:" + ("sent" if outcome == "ok" else "raised:" + type(outcome).__name__),
        "mode:" + mode,
    ]
    if kind == "c_store":
        classes += ["store-via:" + op["via"], "store-label:" + op["label"], "store-consistent" if consistent else "store-inconsistent"]
    if tgt == K.UPS_PUSH:
        classes.append("ups-push")
    if op.get("meta_uid"):
        classes.append("meta-uid")
    ctx.note(case, nontrivial=n_cand >= 2, classes=classes)

    if outcome != "ok":
        if msgs:
            ctx.fail("reject-sends", f"{kind}:{type(outcome).__name__}", f"{kind} raised {outcome!r} but {len(msgs)} DIMSE message(s) were sent")
        if exact and consistent:
            ctx.fail(
                "unexpected-reject",
                f"{kind}:{sig.exc_key(outcome)}",
                f"{kind} for {tgt} raised although context(s) {sorted(exact)} of {contexts} are admissible\n{sig.exc_text(outcome)}",
            )
        return
    if len(msgs) < 1:
        ctx.fail("context", f"{kind}:nothing-sent", f"{kind} returned normally but nothing was sent")
        return
    m = msgs[0]
    cid = m.cid[0]
    if cid not in exact and cid not in subst:
        ctx.fail(
            "context",
            f"{kind}:{why_not(contexts, op, cid)}",
            f"{kind} for {tgt} ({'store source ' + str(store_source(op)) if kind == 'c_store' else ''}) was sent on context {cid}; "
            f"accepted contexts {contexts}; admissible {sorted(exact | subst)}",
        )
        return
    used = {c[4]: c for c in contexts}[cid]
    if kind == "c_store" and consistent:
        src = op["label"]
        if used[1] != src and any({c[4]: c for c in contexts}[x][1] == src for x in exact):
            ctx.fail("exact-preferred", "c_store", f"dataset labelled {src} sent on context {cid} ({used[1]}) although an exact match is admissible: {contexts}")
    # the command set names the SOP class the caller asked for (not the context's abstract syntax)
    try:
        vals = K.command_values(m)
    except Exception as e:
        raise HarnessError(f"command set unreadable: {e!r}")
    want_cls = op.get("sop") or op.get("model") or op.get("class_uid") or K.VERIFICATION
    got_cls = vals.get("AffectedSOPClassUID") or vals.get("RequestedSOPClassUID")
    if got_cls != want_cls:
        ctx.fail("sop-class", f"{kind}", f"{kind}: command set SOP class {got_cls} != requested {want_cls}")
    # the data set is encoded in the used context's transfer syntax
    if want is not None:
        if not m.data:
            if (vals.get("CommandDataSetType") != 0x0101) == bool(m.data):
                ctx.fail("encoding", f"{kind}:no-data", f"{kind}: no data set sent")
            return
        try:
            got = K.ds_plain(K.ref_decode(m.data_bytes, used[1]))
        except Exception as e:
            ctx.fail("encoding", f"{kind}:undecodable:{type(e).__name__}", f"{kind}: data set sent on context {cid} does not decode under {used[1]}: {e!r}; case store source {store_source(op) if kind == 'c_store' else None}")
            return
        exp = K.ds_plain(want)
        if got != exp:
            ctx.fail("encoding", f"{kind}:differs", f"{kind}: first difference {sig.diff_path(exp, got)}; decoded under {used[1]}: {got} != supplied {exp}")


# --------------------------------------------------------------------------- check: C-STORE sub-operations during C-GET
def check_substore(ctx, case):
    from pynetdicom import evt
    from pynetdicom.dimse_primitives import C_GET, C_STORE

    contexts = [list(c) for c in case["contexts"]]
    get_cid, rq_cid, sop = case["get_cid"], case["rq_cid"], case["sop"]
    cmap = {c[4]: c for c in contexts}
    if rq_cid not in cmap or get_cid not in cmap:
        raise HarnessError("generator must use accepted IDs")
    a = mk("requestor", [tuple(c) for c in contexts])
    ran = []

    def h(event):
        ran.append(event.context.context_id)
        return 0x0000

    a.bind(evt.EVT_C_STORE, h)
    ts = cmap[rq_cid][1]
    enc_ts = ts if not K.TS[ts][3] else K.EVLE
    r = C_STORE()
    r.MessageID = 9
    r.AffectedSOPClassUID = sop
    r.AffectedSOPInstanceUID = "1.2.3.4.5"
    r.Priority = 2
    r.DataSet = K.BytesIO(K.ref_encode(K.mk_ds(case["elems"]), enc_ts))
    r._context_id = rq_cid
    fin = C_GET()
    fin.MessageIDBeingRespondedTo = 5
    fin.AffectedSOPClassUID = K.PR_GET
    fin.Status = 0x0000
    fin._context_id = get_cid
    a.dimse.msg_queue.put((rq_cid, r))
    a.dimse.msg_queue.put((get_cid, fin))
    rq_cx = cmap[rq_cid]
    suitable = rq_cx[0] == sop and bool(rq_cx[3])
    classes = ["op:substore", "substore-request-context:" + ("suitable" if suitable else "abstract-mismatch" if rq_cx[0] != sop else "no-scp-role")]
    classes.append("cid1-accepted" if 1 in cmap else "cid1-not-accepted")
    n_cand = sum(1 for c in contexts if c[0] == sop)
    ctx.note(case, nontrivial=n_cand >= 2 or not suitable, classes=classes)
    try:
        with no_sleep():
            ys = list(a.send_c_get(K.mk_ds([["PatientID", "1"]]), K.PR_GET, msg_id=5))
    except Exception as e:
        raise HarnessError(f"send_c_get raised {e!r} for {case}")
    msgs = K.messages(a.sent)
    rsps = []
    for m in msgs[1:]:
        v = K.command_values(m)
        if v.get("CommandField") == 0x8001:
            rsps.append((m, v))
    if len(rsps) != 1:
        ctx.fail("substore-response", f"count:{len(rsps)}", f"{len(rsps)} C-STORE responses for one sub-operation request; yields {len(ys)}")
        return
    m, v = rsps[0]
    cid = m.cid[0]
    handled = bool(ran)
    if cid not in cmap:
        ctx.fail(
            "context",
            f"substore-response:not-accepted:{'handled' if handled else 'refused'}",
            f"C-STORE-RQ for {sop} arrived on accepted context {rq_cid} {rq_cx}; the response (Status 0x{v.get('Status', 0):04X}) "
            f"was sent on context {cid}, which is not among the accepted contexts {sorted(cmap)}",
        )
        return
    if handled:
        used = cmap[cid]
        if used[0] != sop:
            ctx.fail("context", "substore-response:abstract-syntax:handled", f"handler ran for {sop}; response on context {cid} {used}; request context {rq_cx}")
        elif not used[3]:
            ctx.fail("context", "substore-response:role:handled", f"handler ran and response sent on context {cid} {used} where the local side is not SCP")
        if ran[0] not in cmap:
            ctx.fail("context", "substore-handler:not-accepted", f"handler saw context {ran[0]}")
    else:
        if suitable:
            ctx.fail("unexpected-reject", "substore", f"request on suitable context {rq_cx} for {sop} was refused (Status 0x{v.get('Status', 0):04X})")


CHECKS = {"request": check_request, "substore": check_substore}


# --------------------------------------------------------------------------- generators
def strategies():
    from hypothesis import strategies as st

    roles = st.sampled_from([(True, False)] * 4 + [(False, True), (True, True), (False, False)])

    @st.composite
    def elems(draw):
        kws = draw(st.lists(st.sampled_from(K.POOL_KEYS), min_size=1, max_size=4, unique=True))
        return [[k, draw(st.sampled_from(K.POOL[k]))] for k in kws]

    scp_roles = st.sampled_from([(False, True)] * 3 + [(True, True), (True, False), (False, False)])

    @st.composite
    def ctxs(draw, ab_pool, ts_pool, must=None, roles=roles):
        n = draw(st.integers(1, 6))
        cids = draw(st.lists(st.sampled_from(list(range(1, 17, 2))), min_size=n, max_size=n, unique=True))
        out = []
        for cid in cids:
            scu, scp = draw(roles)
            out.append([draw(st.sampled_from(ab_pool)), draw(st.sampled_from(ts_pool)), scu, scp, cid])
        if must is not None:
            out[0][0] = must
        return out

    @st.composite
    def store_case(draw):
        sop = draw(st.sampled_from(STORAGE))
        label = draw(st.sampled_from(ALL_TS))
        via = draw(st.sampled_from(["scratch", "scratch", "scratch-flags", "read", "read", "file", "file-chunked"]))
        op = {"kind": "c_store", "sop": sop, "label": label, "elems": draw(elems()), "via": via}
        if via == "scratch-flags":
            op["via"] = "scratch"
            op["flags"] = draw(st.sampled_from([[True, True], [False, True], [False, False], [True, False], list(K.TS[label][:2])]))
        elif via == "read":
            # raw elements really encoded as `flags`; the label agrees with them most of the time
            op["flags"] = draw(st.sampled_from([list(K.TS[label][:2])] * 3 + [[True, True], [False, True], [False, False]]))
        # contexts biased to the SOP class and to syntaxes related to the label
        ts_pool = [label] * 2 + ALL_TS
        ab_pool = [sop] * 4 + STORAGE + [K.VERIFICATION]
        return {"contexts": draw(ctxs(ab_pool, ts_pool)), "op": op, "mode": draw(st.sampled_from(["requestor", "requestor", "acceptor"]))}

    @st.composite
    def qr_case(draw):
        kind = draw(st.sampled_from(["c_find", "c_get", "c_move", "c_echo"]))
        models = {"c_find": [K.PR_FIND, K.SR_FIND], "c_get": [K.PR_GET, K.SR_GET], "c_move": [K.PR_MOVE, K.SR_MOVE], "c_echo": [K.VERIFICATION]}[kind]
        model = draw(st.sampled_from(models))
        op = {"kind": kind, "elems": draw(elems())}
        if kind != "c_echo":
            op["model"] = model
        ab_pool = [model] * 4 + models + [K.PR_FIND, K.PR_GET, K.PR_MOVE, K.VERIFICATION, K.CT]
        return {"contexts": draw(ctxs(ab_pool, list(K.UNCOMPRESSED))), "op": op, "mode": "requestor"}

    @st.composite
    def n_case(draw):
        kind = draw(st.sampled_from(N_OPS))
        fam = draw(st.sampled_from(["print", "print-meta", "ups", "ups", "mpps"]))
        op = {"kind": kind, "elems": draw(elems())}
        if fam == "print":
            op["class_uid"] = draw(st.sampled_from([K.FILM_SESSION, K.PRINTER]))
            ab_pool = [op["class_uid"]] * 3 + [K.FILM_SESSION, K.PRINTER, K.PRINT_META_GRAY]
        elif fam == "print-meta":
            op["class_uid"] = draw(st.sampled_from([K.FILM_SESSION, K.PRINTER]))
            op["meta_uid"] = K.PRINT_META_GRAY
            ab_pool = [K.PRINT_META_GRAY] * 3 + [K.FILM_SESSION, K.PRINTER]
        elif fam == "ups":
            op["class_uid"] = draw(st.sampled_from([K.UPS_PUSH, K.UPS_PUSH, K.UPS_PULL, K.UPS_WATCH]))
            ab_pool = [K.UPS_PUSH, K.UPS_PULL, K.UPS_WATCH, K.UPS_EVENT, K.UPS_QUERY, op["class_uid"], K.MPPS]
        else:
            op["class_uid"] = K.MPPS
            ab_pool = [K.MPPS] * 3 + [K.UPS_PUSH, K.VERIFICATION]
        return {"contexts": draw(ctxs(ab_pool, list(K.UNCOMPRESSED))), "op": op, "mode": draw(st.sampled_from(["requestor", "acceptor"]))}

    @st.composite
    def substore_case(draw):
        sop = draw(st.sampled_from(STORAGE))
        ab_pool = [sop] * 3 + STORAGE + [K.PR_GET]
        cx = draw(ctxs(ab_pool, ALL_TS[:4] + [K.JPEG_BASELINE], roles=scp_roles))
        # one C-GET context on which we are SCU
        get_cid = draw(st.sampled_from([c for c in range(1, 21, 2) if c not in {x[4] for x in cx}]))
        cx.append([K.PR_GET, K.IVLE, True, False, get_cid])
        cands = [c[4] for c in cx if c[4] != get_cid]
        rq_cid = draw(st.sampled_from(cands + [get_cid]))
        return {"contexts": cx, "get_cid": get_cid, "rq_cid": rq_cid, "sop": sop, "elems": draw(elems())}

    return st.one_of(store_case(), store_case(), qr_case(), n_case()), substore_case()


def run(ctx):
    import warnings

    warnings.simplefilter("ignore")
    rq, sub = strategies()
    ctx.hyp("request", rq, 2200 if ctx.quick else 20000)
    ctx.hyp("substore", sub, 700 if ctx.quick else 6000)
