"""SCP-side handler-behaviour grammar on top of E3 (syncassoc): services catalogue, request builders, a generic
handler that interprets a plain-data behaviour script, an independent wire decoder for what the association sent,
and `run_scp_case(case)` which drives `Association._serve_request` thread-free and returns an `Obs`.

Everything a check needs to know about what happened is observed from OUTSIDE pynetdicom's service layer:
* the P-DATA primitives handed to `dul.send_pdu` are re-assembled here (PS3.8 Annex E message control header) and the
  command set is decoded with pydicom (implicit VR little endian) - no pynetdicom decoder is involved;
* the handler log (which script items the service class actually consumed) comes from the generic handler itself.

A case is plain data (JSON-able):

  {"svc": <key of SERVICES>, "ts": "implicit"|"explicit"|"big"|"deflated", "msg_id": 0..65535, "cx": odd 1..255,
   "mode": "gen"|"iter"|"none"|"scalar"      (C-FIND/C-GET/C-MOVE handlers: generator, plain function returning an
                                              iterator object / None / 0; other services always return one value)
   "pre":  None | <exception name>           raise before the first yield / instead of returning
   "items": [ITEM, ...]                      values yielded (multi-response services) or [the returned value]
   "end":  "return" | <exception name>       what happens after the last item (generators only)
   "n": int|None, "dest": ...                C-GET/C-MOVE: announced count / first C-MOVE yield
   "sub": [int|None, ...]}                   C-GET/C-MOVE: status of the i-th C-STORE sub-operation response (None: no reply)

  ITEM   = {"k": "pair", "st": STATUS, "ds": DS}      -> (status, dataset) tuple   [services returning only a status
                                                          use "st" alone: {"k": "st", "st": STATUS}]
         | {"k": "raise", "exc": name}
         | {"k": "raw", "v": RAW}                      -> a non-tuple / wrong-arity value
  STATUS = {"t": "int", "v": int}
         | {"t": "ds", "status": int|None, "extra": {keyword: value}}   pydicom Dataset (Status optional)
         | {"t": "other", "v": "none"|"str"|"float"|"list"|"bytes"}
  DS     = None | {"t": "ds", "elems": [[keyword, value], ...]} | {"t": "bad"} | {"t": "other", "v": "str"|"int"}
  RAW    = "none" | "int" | "str" | "tuple1" | "tuple3" | "ds"
"""
from __future__ import annotations

import warnings
import zlib
from io import BytesIO

from . import syncassoc as E3

# --------------------------------------------------------------------------------------------- transfer syntaxes
TS = {
    "implicit": ("1.2.840.10008.1.2", True, True, False),
    "explicit": ("1.2.840.10008.1.2.1", False, True, False),
    "big": ("1.2.840.10008.1.2.2", False, False, False),
    "deflated": ("1.2.840.10008.1.2.1.99", False, True, True),
}

# --------------------------------------------------------------------------------------------- services catalogue
# key -> (request type, SOP class UID, family).  `family` names the service-class implementation family the
# documentation is organised by (docs/service_classes/*.rst); it is used in signature keys and by the reference model.
SERVICES = {
    "echo": ("C-ECHO", "1.2.840.10008.1.1", "verification"),
    "store-ct": ("C-STORE", "1.2.840.10008.5.1.4.1.1.2", "storage"),
    "store-sc": ("C-STORE", "1.2.840.10008.5.1.4.1.1.7", "storage"),
    "store-hp": ("C-STORE", "1.2.840.10008.5.1.4.38.1", "non-patient"),
    "find-qr-p": ("C-FIND", "1.2.840.10008.5.1.4.1.2.1.1", "qr"),
    "find-qr-s": ("C-FIND", "1.2.840.10008.5.1.4.1.2.2.1", "qr"),
    "find-repo": ("C-FIND", "1.2.840.10008.5.1.4.1.1.201.6", "qr-repository"),
    "find-mwl": ("C-FIND", "1.2.840.10008.5.1.4.31", "worklist"),
    "find-rpi": ("C-FIND", "1.2.840.10008.5.1.4.37.1", "relevant-patient"),
    "find-subst": ("C-FIND", "1.2.840.10008.5.1.4.41", "substance"),
    "find-hang": ("C-FIND", "1.2.840.10008.5.1.4.38.2", "hanging"),
    "find-color": ("C-FIND", "1.2.840.10008.5.1.4.39.2", "color"),
    "find-dpp": ("C-FIND", "1.2.840.10008.5.1.4.20.1", "defined-procedure"),
    "find-impl": ("C-FIND", "1.2.840.10008.5.1.4.43.2", "implant"),
    "find-pa": ("C-FIND", "1.2.840.10008.5.1.4.1.1.200.4", "protocol-approval"),
    "find-inv": ("C-FIND", "1.2.840.10008.5.1.4.1.1.201.2", "inventory"),
    "find-ups": ("C-FIND", "1.2.840.10008.5.1.4.34.6.3", "ups"),
    "get-qr-p": ("C-GET", "1.2.840.10008.5.1.4.1.2.1.3", "qr"),
    "move-qr-p": ("C-MOVE", "1.2.840.10008.5.1.4.1.2.1.2", "qr"),
    "nget-display": ("N-GET", "1.2.840.10008.5.1.1.40", "display"),
    "nget-media": ("N-GET", "1.2.840.10008.5.1.1.33", "media"),
    "nget-mpps": ("N-GET", "1.2.840.10008.3.1.2.3.4", "mpps"),
    "nget-print": ("N-GET", "1.2.840.10008.5.1.1.16", "print"),
    "nget-ups": ("N-GET", "1.2.840.10008.5.1.4.34.6.1", "ups"),
    "nget-rt": ("N-GET", "1.2.840.10008.5.1.4.34.8", "rt-machine"),
    "nset-mpps": ("N-SET", "1.2.840.10008.3.1.2.3.3", "mpps"),
    "nset-print": ("N-SET", "1.2.840.10008.5.1.1.1", "print"),
    "nset-ups": ("N-SET", "1.2.840.10008.5.1.4.34.6.3", "ups"),
    "nset-rt": ("N-SET", "1.2.840.10008.5.1.4.34.8", "rt-machine"),
    "naction-print": ("N-ACTION", "1.2.840.10008.5.1.1.1", "print"),
    "naction-commit": ("N-ACTION", "1.2.840.10008.1.20.1", "storage-commitment"),
    "naction-applog": ("N-ACTION", "1.2.840.10008.1.40", "application-event"),
    "naction-media": ("N-ACTION", "1.2.840.10008.5.1.1.33", "media"),
    "naction-ups": ("N-ACTION", "1.2.840.10008.5.1.4.34.6.1", "ups"),
    "naction-rt": ("N-ACTION", "1.2.840.10008.5.1.4.34.8", "rt-machine"),
    "naction-stmgmt": ("N-ACTION", "1.2.840.10008.5.1.4.1.1.201.5", "storage-management"),
    "ncreate-ian": ("N-CREATE", "1.2.840.10008.5.1.4.33", "instance-availability"),
    "ncreate-mpps": ("N-CREATE", "1.2.840.10008.3.1.2.3.3", "mpps"),
    "ncreate-print": ("N-CREATE", "1.2.840.10008.5.1.1.1", "print"),
    "ncreate-media": ("N-CREATE", "1.2.840.10008.5.1.1.33", "media"),
    "ncreate-ups": ("N-CREATE", "1.2.840.10008.5.1.4.34.6.1", "ups"),
    "ncreate-rt": ("N-CREATE", "1.2.840.10008.5.1.4.34.8", "rt-machine"),
    "ndelete-print": ("N-DELETE", "1.2.840.10008.5.1.1.1", "print"),
    "ndelete-rt": ("N-DELETE", "1.2.840.10008.5.1.4.34.8", "rt-machine"),
    "nevent-print": ("N-EVENT-REPORT", "1.2.840.10008.5.1.1.16", "print"),
    "nevent-commit": ("N-EVENT-REPORT", "1.2.840.10008.1.20.1", "storage-commitment"),
    "nevent-mpps": ("N-EVENT-REPORT", "1.2.840.10008.3.1.2.3.5", "mpps"),
    "nevent-ups": ("N-EVENT-REPORT", "1.2.840.10008.5.1.4.34.6.5", "ups"),
    "nevent-rt": ("N-EVENT-REPORT", "1.2.840.10008.5.1.4.34.8", "rt-machine"),
    "nevent-stmgmt": ("N-EVENT-REPORT", "1.2.840.10008.5.1.4.1.1.201.5", "storage-management"),
}

# PS3.7 Table E.1-1 command field values (request, response); the response dataset parameter name is pynetdicom's
# primitive attribute (used only to *build* requests / stub responses, never as an expected value).
CMD = {
    "C-STORE": (0x0001, 0x8001),
    "C-GET": (0x0010, 0x8010),
    "C-FIND": (0x0020, 0x8020),
    "C-MOVE": (0x0021, 0x8021),
    "C-ECHO": (0x0030, 0x8030),
    "N-EVENT-REPORT": (0x0100, 0x8100),
    "N-GET": (0x0110, 0x8110),
    "N-SET": (0x0120, 0x8120),
    "N-ACTION": (0x0130, 0x8130),
    "N-CREATE": (0x0140, 0x8140),
    "N-DELETE": (0x0150, 0x8150),
    "C-CANCEL": (0x0FFF, None),
}
EVENT = {
    "C-STORE": "EVT_C_STORE",
    "C-GET": "EVT_C_GET",
    "C-FIND": "EVT_C_FIND",
    "C-MOVE": "EVT_C_MOVE",
    "C-ECHO": "EVT_C_ECHO",
    "N-EVENT-REPORT": "EVT_N_EVENT_REPORT",
    "N-GET": "EVT_N_GET",
    "N-SET": "EVT_N_SET",
    "N-ACTION": "EVT_N_ACTION",
    "N-CREATE": "EVT_N_CREATE",
    "N-DELETE": "EVT_N_DELETE",
}
MULTI = ("C-FIND", "C-GET", "C-MOVE")  # handlers are generators of (status, dataset)
STATUS_ONLY = ("C-ECHO", "C-STORE", "N-DELETE")  # handlers return a status alone
PAIR = ("N-GET", "N-SET", "N-ACTION", "N-CREATE", "N-EVENT-REPORT")  # handlers return (status, dataset)

EXC = {
    "ValueError": ValueError,
    "KeyError": KeyError,
    "RuntimeError": RuntimeError,
    "NotImplementedError": NotImplementedError,
    "AttributeError": AttributeError,
    "TypeError": TypeError,
    "StopIteration": StopIteration,
    "ZeroDivisionError": ZeroDivisionError,
    "NoArgsError": type("NoArgsError", (Exception,), {"__init__": lambda self, *a: Exception.__init__(self)}),  # exc.args == ()
    "OSError": OSError,
}

INSTANCE_UID = "1.2.826.0.1.3680043.8.498.1"
STORE_UID = "1.2.840.10008.5.1.4.1.1.2"  # CT Image Storage: what C-GET / C-MOVE sub-operations send


# --------------------------------------------------------------------------------------------- builders
def build_ds(spec):
    """DS spec -> python object handed to pynetdicom."""
    from pydicom.dataset import Dataset

    if spec is None:
        return None
    t = spec["t"]
    if t == "ds":
        ds = Dataset()
        for kw, v in spec["elems"]:
            if kw == "SEQ":
                item = Dataset()
                item.PatientID = str(v)
                ds.ReferencedStudySequence = [item]
            else:
                setattr(ds, kw, v)
        if "SOPClassUID" in ds:
            # a storable instance (C-GET / C-MOVE sub-operations): send_c_store needs the file meta transfer syntax
            from pydicom.dataset import FileMetaDataset

            ds.file_meta = FileMetaDataset()
            ds.file_meta.TransferSyntaxUID = TS["implicit"][0]
        return ds
    if t == "bad":
        # write_dataset() cannot pack a str as US -> pynetdicom's dsutils.encode() returns None
        from pydicom.dataelem import DataElement

        ds = Dataset()
        ds.PatientID = "X"
        ds[0x00280010] = DataElement(0x00280010, "US", "not-a-number", validation_mode=0)
        return ds
    if t == "other":
        return {"str": "a string", "int": 7}[spec["v"]]
    raise ValueError(spec)


def build_status(spec):
    from pydicom.dataset import Dataset

    t = spec["t"]
    if t == "int":
        return spec["v"]
    if t == "ds":
        ds = Dataset()
        if spec.get("status") is not None:
            ds.add_new(0x00000900, "US", spec["status"])
        for kw, v in sorted((spec.get("extra") or {}).items()):
            if kw == "OffendingElement":
                ds.add_new(0x00000901, "AT", [int(x) for x in v] if isinstance(v, list) else int(v))
            elif kw == "ErrorComment":
                ds.add_new(0x00000902, "LO", v)
            elif kw == "ErrorID":
                ds.add_new(0x00000903, "US", v)
            elif kw == "MessageIDBeingRespondedTo":
                ds.add_new(0x00000120, "US", v)
            elif kw == "MessageID":
                ds.add_new(0x00000110, "US", v)
            else:
                setattr(ds, kw, v)
        return ds
    if t == "other":
        return {"none": None, "str": "0x0000", "float": 0.0, "list": [0], "bytes": b"\x00\x00"}[spec["v"]]
    raise ValueError(spec)


def build_item(item):
    k = item["k"]
    if k == "pair":
        return (build_status(item["st"]), build_ds(item.get("ds")))
    if k == "st":
        return build_status(item["st"])
    if k == "raw":
        from pydicom.dataset import Dataset

        v = item["v"]
        if v == "ds":
            d = Dataset()
            d.add_new(0x00000900, "US", 0)
            return d
        return {"none": None, "int": 0, "str": "ab", "tuple1": (0,), "tuple3": (0, None, None)}[v]
    raise ValueError(item)


class HandlerLog:
    def __init__(self):
        self.calls = 0  # handler invocations
        self.consumed = []  # indexes of items handed to pynetdicom (yielded/returned), or "pre"/"end" raise markers
        self.events = []  # event names seen


def make_handler(case, log):
    """Generic handler interpreting the behaviour script."""
    rtype = SERVICES[case["svc"]][0]
    items = case.get("items") or []
    pre, end, mode = case.get("pre"), case.get("end", "return"), case.get("mode", "gen")

    def _lead():
        out = []
        if rtype == "C-MOVE":
            d = case.get("dest", ["127.0.0.1", 11112])
            out.append(tuple(d) if isinstance(d, list) else d)
        if rtype in ("C-GET", "C-MOVE"):
            out.append(case.get("n"))
        return out

    if rtype in MULTI and mode == "gen":

        def handler(event):
            log.calls += 1
            log.events.append(event.event.name)
            if pre:
                log.consumed.append("pre")
                raise EXC[pre]("scripted")
            for v in _lead():
                yield v
            for i, it in enumerate(items):
                if it["k"] == "raise":
                    log.consumed.append(i)
                    raise EXC[it["exc"]]("scripted")
                v = build_item(it)
                log.consumed.append(i)
                yield v
            if end != "return":
                log.consumed.append("end")
                raise EXC[end]("scripted")

        return handler

    class _Iter:
        """mode "iter": a plain function returning an iterator object (not a generator); consumption is logged."""

        def __init__(self):
            self.lead, self.i = _lead(), 0

        def __iter__(self):
            return self

        def __next__(self):
            if self.lead:
                return self.lead.pop(0)
            if self.i >= len(items):
                if end != "return" and self.i == len(items):
                    self.i += 1
                    log.consumed.append("end")
                    raise EXC[end]("scripted")
                raise StopIteration
            i, it = self.i, items[self.i]
            self.i += 1
            log.consumed.append(i)
            if it["k"] == "raise":
                self.i = len(items) + 1
                raise EXC[it["exc"]]("scripted")
            return build_item(it)

    def handler(event):
        log.calls += 1
        log.events.append(event.event.name)
        if pre:
            log.consumed.append("pre")
            raise EXC[pre]("scripted")
        if rtype in MULTI:
            if mode == "none":
                return None
            if mode == "scalar":
                return 0
            return _Iter()
        it = items[0]
        log.consumed.append(0)
        if it["k"] == "raise":
            raise EXC[it["exc"]]("scripted")
        return build_item(it)

    return handler


def request_dataset_bytes(tsname):
    from pydicom.dataset import Dataset

    ds = Dataset()
    ds.PatientID = "12345"
    ds.QueryRetrieveLevel = "PATIENT"
    ds.SOPInstanceUID = INSTANCE_UID
    return BytesIO(encode_ds(ds, tsname))


def mk_request(rtype, uid, msg_id, tsname="implicit", with_instance=True):
    """A valid request primitive of `rtype` for SOP class `uid` (own construction through public setters)."""
    from pynetdicom import dimse_primitives as P

    if rtype == "C-ECHO":
        r = P.C_ECHO()
        r.AffectedSOPClassUID = uid
    elif rtype == "C-STORE":
        r = P.C_STORE()
        r.AffectedSOPClassUID = uid
        r.AffectedSOPInstanceUID = INSTANCE_UID
        r.Priority = 2
        r.DataSet = request_dataset_bytes(tsname)
    elif rtype in ("C-FIND", "C-GET", "C-MOVE"):
        r = {"C-FIND": P.C_FIND, "C-GET": P.C_GET, "C-MOVE": P.C_MOVE}[rtype]()
        r.AffectedSOPClassUID = uid
        r.Priority = 2
        r.Identifier = request_dataset_bytes(tsname)
        if rtype == "C-MOVE":
            r.MoveDestination = "DEST"
    elif rtype == "N-EVENT-REPORT":
        r = P.N_EVENT_REPORT()
        r.AffectedSOPClassUID = uid
        r.AffectedSOPInstanceUID = INSTANCE_UID
        r.EventTypeID = 1
    elif rtype == "N-GET":
        r = P.N_GET()
        r.RequestedSOPClassUID = uid
        r.RequestedSOPInstanceUID = INSTANCE_UID
    elif rtype == "N-SET":
        r = P.N_SET()
        r.RequestedSOPClassUID = uid
        r.RequestedSOPInstanceUID = INSTANCE_UID
        r.ModificationList = request_dataset_bytes(tsname)
    elif rtype == "N-ACTION":
        r = P.N_ACTION()
        r.RequestedSOPClassUID = uid
        r.RequestedSOPInstanceUID = INSTANCE_UID
        r.ActionTypeID = 1
    elif rtype == "N-CREATE":
        r = P.N_CREATE()
        r.AffectedSOPClassUID = uid
        if with_instance:
            r.AffectedSOPInstanceUID = INSTANCE_UID
    elif rtype == "N-DELETE":
        r = P.N_DELETE()
        r.RequestedSOPClassUID = uid
        r.RequestedSOPInstanceUID = INSTANCE_UID
    elif rtype == "C-CANCEL":
        r = P.C_CANCEL()
        r.MessageIDBeingRespondedTo = msg_id
        return r
    else:
        raise ValueError(rtype)
    r.MessageID = msg_id
    return r


# --------------------------------------------------------------------------------------------- datasets
def encode_ds(ds, tsname):
    """Own encoder (pydicom only) used for request payloads and as the reference for comparisons."""
    from pydicom.filebase import DicomBytesIO
    from pydicom.filewriter import write_dataset

    _, imp, little, defl = TS[tsname]
    fp = DicomBytesIO()
    fp.is_implicit_VR, fp.is_little_endian = imp, little
    write_dataset(fp, ds)
    b = fp.getvalue()
    if defl:
        c = zlib.compressobj(zlib.Z_DEFAULT_COMPRESSION, zlib.DEFLATED, -zlib.MAX_WBITS)
        b = c.compress(b) + c.flush()
        if len(b) % 2:
            b += b"\x00"
    return b


def decode_ds(b, tsname):
    from pydicom.filereader import read_dataset

    _, imp, little, defl = TS[tsname]
    if defl:
        b = zlib.decompress(b, -zlib.MAX_WBITS)
    return read_dataset(BytesIO(b), imp, little, bytelength=None)


def ds_plain(ds):
    """Dataset -> {tag: normalised value} (plain, comparable, independent of VR bookkeeping)."""
    out = {}
    for el in ds:
        if el.VR == "SQ":
            out[f"{int(el.tag):08X}"] = [ds_plain(i) for i in el.value]
        else:
            v = el.value
            if isinstance(v, (list, tuple)) or type(v).__name__ == "MultiValue":
                v = [str(x) for x in v]
            elif isinstance(v, bytes):
                v = v.hex()
            else:
                v = str(v)
            out[f"{int(el.tag):08X}"] = v
    return out


# --------------------------------------------------------------------------------------------- wire decoder
class Msg:
    """One DIMSE message re-assembled from recorded P-DATA."""

    __slots__ = ("cmd", "data", "cx_ids", "error")

    def __init__(self):
        self.cmd, self.data, self.cx_ids, self.error = None, None, [], None

    @property
    def field(self):
        return None if self.cmd is None else self.cmd.get(0x00000100).value

    def get(self, tag):
        el = self.cmd.get(tag) if self.cmd is not None else None
        return None if el is None else el.value

    status = property(lambda s: s.get(0x00000900))
    rsp_to = property(lambda s: s.get(0x00000120))
    msg_id = property(lambda s: s.get(0x00000110))
    has_data = property(lambda s: s.get(0x00000800) != 0x0101)
    is_response = property(lambda s: s.field is not None and bool(s.field & 0x8000))


def wire_decode(sent):
    """recorded primitives -> list of ("dimse", Msg) / ("abort", prim) / ("release", prim) / ("other", prim) in order.
    Written from PS3.8 Annex E (message control header: bit0 command, bit1 last) and PS3.7 6.3.1 (command set is
    implicit VR little endian); uses pydicom only."""
    from pydicom.filereader import read_dataset

    out = []
    cur, cbuf, dbuf, phase = None, b"", b"", "cmd"
    for p in sent:
        name = type(p).__name__
        if name != "P_DATA":
            kind = {"A_ABORT": "abort", "A_P_ABORT": "abort", "A_RELEASE": "release"}.get(name, "other")
            out.append((kind, p))
            continue
        for cx, data in p.presentation_data_value_list:
            if cur is None:
                cur, cbuf, dbuf, phase = Msg(), b"", b"", "cmd"
            hdr, body = data[0], data[1:]
            cur.cx_ids.append(cx)
            if hdr & 1:
                if phase != "cmd":
                    cur.error = "command fragment after data"
                cbuf += body
                if hdr & 2:
                    try:
                        cur.cmd = read_dataset(BytesIO(cbuf), True, True, bytelength=None)
                    except Exception as e:  # noqa
                        cur.error = f"undecodable command set: {e!r}"
                        out.append(("dimse", cur))
                        cur = None
                        continue
                    if not cur.has_data:
                        out.append(("dimse", cur))
                        cur = None
                    else:
                        phase = "data"
            else:
                if phase != "data":
                    cur.error = "data fragment before complete command set"
                dbuf += body
                if hdr & 2:
                    cur.data = dbuf
                    out.append(("dimse", cur))
                    cur = None
    if cur is not None:
        cur.error = "incomplete message"
        out.append(("dimse", cur))
    return out


# --------------------------------------------------------------------------------------------- running a case
class Obs:
    """What one case did, as seen from outside."""

    def __init__(self):
        self.log = HandlerLog()
        self.wire = []  # wire_decode() output
        self.escaped = None  # exception escaping _serve_request (never expected)
        self.aborted_locally = False  # pynetdicom handed an A-ABORT to the DUL
        self.store_rqs = []  # C-STORE sub-operation requests seen (C-GET: on this association; C-MOVE: on the stub)
        self.store_released = 0

    def responses(self):
        """DIMSE messages sent on the association that are not C-STORE sub-operation requests."""
        return [m for k, m in self.wire if k == "dimse" and not (m.field == 0x0001)]


class _StubSocket:
    def close(self):
        pass


class StubStoreAssoc:
    """What `ae.associate()` returns for C-MOVE: answers send_c_store from the scripted outcome list."""

    def __init__(self, obs, outcomes, established=True):
        from types import SimpleNamespace

        self.is_established = established
        self.obs, self.outcomes, self.i = obs, list(outcomes or []), 0
        self.dul = SimpleNamespace(socket=_StubSocket())

    def send_c_store(self, dataset, msg_id=1, priority=2, originator_aet=None, originator_id=None):
        from pydicom.dataset import Dataset

        self.obs.store_rqs.append((msg_id, originator_id))
        st = self.outcomes[self.i] if self.i < len(self.outcomes) else 0
        self.i += 1
        out = Dataset()
        if st is not None:
            out.Status = st
        return out

    def release(self):
        self.obs.store_released += 1


def run_scp_case(case):
    """Drive one request through Association._serve_request with the scripted handler. -> Obs"""
    from pynetdicom import evt
    from pynetdicom import dimse_primitives as P

    rtype, uid, _family = SERVICES[case["svc"]]
    tsname = case.get("ts", "implicit")
    cx = case.get("cx", 1)
    contexts = [(uid, TS[tsname][0], False, True, cx)]
    if rtype == "C-GET":
        contexts.append((STORE_UID, TS["implicit"][0], True, False, cx + 2 if cx < 253 else 1))
    obs = Obs()
    a = E3.mk("acceptor", contexts)
    a.bind(getattr(evt, EVENT[rtype]), make_handler(case, obs.log))

    if rtype == "C-GET":
        sub = list(case.get("sub") or [])
        state = {"i": 0}

        def responder(pr):
            if isinstance(pr, P.C_STORE) and pr.MessageIDBeingRespondedTo is None:
                obs.store_rqs.append((pr.MessageID, None))
                i = state["i"]
                state["i"] += 1
                st = sub[i] if i < len(sub) else 0
                if st is None:
                    return []
                rsp = P.C_STORE()
                rsp.MessageIDBeingRespondedTo = pr.MessageID
                rsp.Status = st
                return [(pr._context_id, rsp)]
            return []

        E3.PeerScript(a, responder)
    if rtype == "C-MOVE":
        a.ae.associate = lambda *args, **kw: StubStoreAssoc(obs, case.get("sub"))

    req = mk_request(rtype, uid, case.get("msg_id", 1), tsname, with_instance=case.get("with_instance", True))
    with E3.no_sleep(), warnings.catch_warnings():
        warnings.simplefilter("ignore")
        try:
            a._serve_request(req, cx)
        except Exception as e:  # noqa: BLE001 - recorded, judged by the property
            obs.escaped = e
    obs.wire = wire_decode(a.sent)
    obs.aborted_locally = any(k == "abort" for k, _ in obs.wire)
    obs.assoc = a
    return obs


# --------------------------------------------------------------------------------------------- Hypothesis strategies
STATUS_POOL = [
    0x0000,
    0xFF00,
    0xFF01,
    0xFE00,
    0x0001,
    0x0107,
    0x0116,
    0xB000,
    0xB001,
    0xB006,
    0xB007,
    0xB300,
    0xA700,
    0xA900,
    0xC000,
    0xC001,
    0xC100,
    0xC311,
    0x0110,
    0x0122,
    0x0210,
    0x0213,
    0x0002,
    0x1234,
    0xD000,
    0xFF02,
    0xFFFF,
]
OUT_OF_RANGE = [-1, 65536, 2**31, -(2**15)]
INSTANCE_DS = {"t": "ds", "elems": [["SOPClassUID", STORE_UID], ["SOPInstanceUID", "1.2.3.4"], ["PatientID", "P1"]]}


def strategies(clean_fraction=True):
    """-> namespace of strategies producing plain-data cases (see module docstring)."""
    from types import SimpleNamespace

    from hypothesis import strategies as st

    text = st.text(alphabet="ABCXYZabc0123", min_size=1, max_size=12)
    in_range = st.one_of(st.sampled_from(STATUS_POOL), st.sampled_from(STATUS_POOL), st.integers(0, 0xFFFF))
    pending = st.sampled_from([0xFF00, 0xFF00, 0xFF01])
    extra = st.fixed_dictionaries(
        {},
        optional={
            "ErrorComment": text,
            "OffendingElement": st.lists(st.sampled_from([0x00100010, 0x00100020, 0x0020000D, 0x00080018]), min_size=1, max_size=3, unique=True),
            "ErrorID": st.integers(0, 0xFFFF),
        },
    )
    extra_cmd = st.one_of(extra, extra, extra, extra.map(lambda d: dict(d, MessageIDBeingRespondedTo=4660)))

    def st_status(code=in_range, allow_bad=True):
        opts = [
            (6, st.builds(lambda v: {"t": "int", "v": v}, code)),
            (4, st.builds(lambda v, e: {"t": "ds", "status": v, "extra": e}, code, extra_cmd if allow_bad else extra)),
        ]
        if allow_bad:
            opts += [
                (1, st.builds(lambda e: {"t": "ds", "status": None, "extra": e}, extra)),
                (1, st.builds(lambda v: {"t": "other", "v": v}, st.sampled_from(["none", "str", "float", "list", "bytes"]))),
                (1, st.builds(lambda v: {"t": "int", "v": v}, st.sampled_from(OUT_OF_RANGE))),
            ]
        pool = []
        for w, s in opts:
            pool += [s] * w
        return st.one_of(*pool)

    elem = st.one_of(
        st.tuples(st.just("PatientID"), text),
        st.tuples(st.just("PatientName"), text),
        st.tuples(st.just("QueryRetrieveLevel"), st.sampled_from(["PATIENT", "STUDY", "SERIES", "IMAGE"])),
        st.tuples(st.just("StudyInstanceUID"), st.sampled_from(["1.2.3", "1.2.840.1.2.3.4.5.6.7.8.9.10", "2.25.1"])),
        st.tuples(st.just("NumberOfStudyRelatedInstances"), st.integers(0, 9999).map(str)),
        st.tuples(st.just("Rows"), st.integers(0, 0xFFFF)),
        st.tuples(st.just("AccessionNumber"), st.just("")),
        st.tuples(st.just("SEQ"), text),
    )
    good_ds = st.lists(elem, min_size=1, max_size=5, unique_by=lambda e: e[0]).map(lambda es: {"t": "ds", "elems": [list(e) for e in es]})
    any_ds = st.one_of(
        good_ds,
        good_ds,
        good_ds,
        st.none(),
        st.just({"t": "bad"}),
        st.just({"t": "ds", "elems": []}),
        st.builds(lambda v: {"t": "other", "v": v}, st.sampled_from(["str", "int"])),
    )
    exc = st.sampled_from(sorted(EXC))
    raw = st.builds(lambda v: {"k": "raw", "v": v}, st.sampled_from(["none", "int", "str", "tuple1", "tuple3", "ds"]))
    raising = st.builds(lambda e: {"k": "raise", "exc": e}, exc)
    msg_id = st.one_of(st.sampled_from([0, 1, 2, 255, 256, 32767, 32768, 65534, 65535]), st.integers(0, 0xFFFF))
    cx = st.integers(0, 127).map(lambda i: 2 * i + 1)
    ts = st.sampled_from(sorted(TS))
    base = {"ts": ts, "msg_id": msg_id, "cx": cx}

    def keys(rtypes):
        return st.sampled_from(sorted(k for k, v in SERVICES.items() if v[0] in rtypes))

    # ---- single-response services
    def single(clean):
        def item_for(svc):
            rtype = SERVICES[svc][0]
            stat = st_status(allow_bad=not clean)
            if rtype in STATUS_ONLY:
                good = st.builds(lambda s: {"k": "st", "st": s}, stat)
                bad = st.one_of(raising, st.builds(lambda s, d: {"k": "pair", "st": s, "ds": d}, stat, any_ds))
            else:
                dsx = any_ds if not clean else st.one_of(good_ds, st.none())
                if rtype == "N-CREATE":
                    # documented special case: the Attribute List may carry (0000,1000) Affected SOP Instance UID
                    with_uid = good_ds.map(lambda d: {"t": "ds", "elems": d["elems"] + [["AffectedSOPInstanceUID", "1.2.3.99"]]})
                    dsx = st.one_of(dsx, with_uid)
                good = st.builds(lambda s, d: {"k": "pair", "st": s, "ds": d}, stat, dsx)
                bad = st.one_of(raising, raw, st.builds(lambda s: {"k": "st", "st": s}, stat))
            return good if clean else st.one_of(good, good, good, bad)

        svc = st.one_of(keys(STATUS_ONLY + PAIR), keys(PAIR), keys(("C-ECHO", "C-STORE", "N-DELETE")))
        return svc.flatmap(
            lambda svc: st.fixed_dictionaries(
                dict(
                    base,
                    svc=st.just(svc),
                    items=item_for(svc).map(lambda i: [i]),
                    pre=st.none() if clean else st.one_of(st.none(), st.none(), st.none(), st.none(), exc),
                    with_instance=st.booleans() if SERVICES[svc][0] == "N-CREATE" else st.just(True),
                )
            )
        )

    # ---- C-FIND
    def find_items(clean):
        pend = st.builds(lambda s, d: {"k": "pair", "st": s, "ds": d}, st_status(pending, allow_bad=False), good_ds if clean else st.one_of(good_ds, good_ds, good_ds, any_ds))
        other = st.builds(lambda s, d: {"k": "pair", "st": s, "ds": d}, st_status(allow_bad=not clean), st.one_of(st.none(), st.none(), any_ds))
        if clean:
            # pending results, optionally ended by one non-Pending status
            return st.tuples(st.lists(pend, max_size=5), st.one_of(st.just([]), other.map(lambda o: [o]))).map(lambda t: t[0] + t[1])
        return st.lists(st.one_of(*([pend] * 8 + [other, other, raising, raw])), max_size=6)

    def find(clean, svc=None):
        return st.fixed_dictionaries(
            dict(
                base,
                svc=keys(("C-FIND",)) if svc is None else st.just(svc),
                mode=st.just("gen") if clean else st.sampled_from(["gen"] * 8 + ["iter", "none", "scalar"]),
                items=find_items(clean),
                pre=st.none() if clean else st.one_of(st.none(), st.none(), st.none(), st.none(), st.none(), exc),
                end=st.just("return") if clean else st.one_of(st.just("return"), st.just("return"), exc),
            )
        )

    # ---- C-GET / C-MOVE (structure of the response sequence only)
    def retrieve(clean):
        inst = st.builds(lambda u: {"t": "ds", "elems": [["SOPClassUID", STORE_UID], ["SOPInstanceUID", u], ["PatientID", "P1"]]}, st.sampled_from(["1.2.3.1", "1.2.3.2", "1.2.3.3"]))
        pend = st.builds(lambda s, d: {"k": "pair", "st": s, "ds": d}, st_status(pending, allow_bad=False), inst if clean else st.one_of(inst, inst, inst, any_ds))
        other = st.builds(lambda s, d: {"k": "pair", "st": s, "ds": d}, st_status(allow_bad=not clean), st.one_of(st.none(), any_ds))
        if clean:
            items = st.tuples(st.lists(pend, max_size=4), st.one_of(st.just([]), other.map(lambda o: [o]))).map(lambda t: t[0] + t[1])
            n = st.integers(0, 5)
            dest = st.just(["127.0.0.1", 11112])
        else:
            items = st.lists(st.one_of(*([pend] * 8 + [other, other, raising, raw])), max_size=6)
            n = st.one_of(st.integers(0, 5), st.integers(1, 6), st.integers(1, 6), st.sampled_from([None, -1, 65536, "3", "x", 2.5]))
            dest = st.sampled_from([["127.0.0.1", 11112]] * 6 + [[None, None], ["127.0.0.1", None], 5, "ab", ["127.0.0.1"]])
        return st.fixed_dictionaries(
            dict(
                base,
                svc=keys(("C-GET", "C-MOVE")),
                mode=st.just("gen") if clean else st.sampled_from(["gen"] * 9 + ["iter"]),
                n=n,
                dest=dest,
                items=items,
                sub=st.lists(st.sampled_from([0, 0, 0, 0xB000, 0xB007, 0xA700, 0xC000, 0x1234]), max_size=6),
                pre=st.none() if clean else st.one_of(st.none(), st.none(), st.none(), st.none(), st.none(), exc),
                end=st.just("return") if clean else st.one_of(st.just("return"), st.just("return"), exc),
            )
        )

    # ---- C-STORE sub-operations served by the retrieve REQUESTOR (Association._c_store_scp), see run_substore_case
    def substore(clean):
        stat = st_status(allow_bad=not clean)
        good = st.builds(lambda s: {"k": "st", "st": s}, stat)
        bad = st.one_of(raising, st.builds(lambda s, d: {"k": "pair", "st": s, "ds": d}, stat, any_ds))
        item = good if clean else st.one_of(good, good, good, bad)
        where = st.just("ok") if clean else st.sampled_from(["ok"] * 10 + ["unaccepted", "mismatch", "no-role"])
        rq = st.fixed_dictionaries(
            {
                "msg_id": msg_id,
                "items": item.map(lambda i: [i]),
                "pre": st.none() if clean else st.one_of(st.none(), st.none(), st.none(), st.none(), exc),
                "where": where,
                "pick": st.integers(0, 7),
            }
        )
        names = sorted(TS)
        raw_case = st.fixed_dictionaries(
            {
                "via": st.sampled_from(["get", "get", "move"]),
                "ids": st.lists(cx, min_size=7, max_size=7, unique=True),
                "sorted_ids": st.booleans(),
                "ts": st.permutations(names),  # transfer syntaxes of the accepted contexts of the SOP class under test
                "n_same": st.sampled_from([1, 2, 2, 2, 3, 3, 4]),  # on how many contexts the SOP class under test was accepted
                "other_sop": st.booleans(),  # another storage SOP class accepted (SCP role) as well
                "no_role": st.booleans(),  # the SOP class under test accepted once more WITHOUT the SCP role
                "rqs": st.lists(rq, min_size=1, max_size=3),
            }
        )

        def resolve(d):
            ids = sorted(d["ids"]) if d["sorted_ids"] else list(d["ids"])
            model_cx, spare, ids = ids[0], ids[1], ids[2:]
            layout = [[ids[i], "store-ct", d["ts"][i], True] for i in range(d["n_same"])]
            nxt = d["n_same"]
            if d["other_sop"]:
                layout.append([ids[nxt], "store-sc", d["ts"][0], True])
                nxt += 1
            if d["no_role"] and nxt < len(ids):
                layout.append([ids[nxt], "store-ct", d["ts"][1], False])
            same = [e for e in layout if e[1] == "store-ct" and e[3]]
            other = [e for e in layout if e[1] == "store-sc"]
            norole = [e for e in layout if not e[3]]
            rqs, used = [], set()
            for r in d["rqs"]:
                w, k = r["where"], r["pick"]
                if w == "mismatch" and not other:
                    w = "ok"
                if w == "no-role" and not norole:
                    w = "ok"
                if w == "ok":
                    cid = same[k % len(same)][0]
                elif w == "mismatch":
                    cid = other[0][0]  # a CT request on the context accepted for another SOP class
                elif w == "no-role":
                    cid = norole[0][0]
                else:
                    cid = spare  # never proposed / not accepted
                m = r["msg_id"]
                while m in used:
                    m = (m + 1) % 65536
                used.add(m)
                rqs.append({"cid": cid, "where": w, "msg_id": m, "items": r["items"], "pre": r["pre"]})
            return {"family": "substore", "via": d["via"], "model_cx": model_cx, "layout": layout, "rqs": rqs}

        return raw_case.map(resolve)

    def mix(f):
        return st.one_of(f(False), f(False), f(True)) if clean_fraction else f(False)

    def find_one(svc):
        return mix(lambda clean: find(clean, svc))

    return SimpleNamespace(
        single=mix(single), find=mix(find), retrieve=mix(retrieve), find_one=find_one, single_raw=single, find_raw=find, retrieve_raw=retrieve,
        substore=mix(substore), substore_raw=substore,
    )


# --------------------------------------------------------------------------------------------- requestor-side Storage SCP
class SubstoreObs:
    def __init__(self):
        self.logs = {}  # msg_id -> HandlerLog of the request with that Message ID
        self.seen = []  # per handler call: (request Message ID, request._context_id, event.context.context_id, event.context.transfer_syntax)
        self.raised = None  # exception escaping send_c_get/send_c_move or its generator
        self.wire = []
        self.aborted_locally = False
        self.request_sent = False
        self.yields = []

    def store_responses(self):
        return [m for k, m in self.wire if k == "dimse" and m.field == CMD["C-STORE"][1]]

    def others(self):
        """DIMSE messages sent that are neither the retrieve request itself nor C-STORE responses"""
        return [m for k, m in self.wire if k == "dimse" and m.field not in (CMD["C-STORE"][1], CMD["C-GET"][0], CMD["C-MOVE"][0])]


def run_substore_case(case):
    """The Storage SCP a C-GET/C-MOVE *requestor* runs for C-STORE sub-operations on its own association
    (Association._c_store_scp), thread-free.

    case = {"via": "get"|"move", "model_cx": id of the accepted retrieve context,
            "layout": [[context_id, svc key (a C-STORE entry of SERVICES), tsname, as_scp], ...]   accepted storage contexts
            "rqs": [{"cid": context ID the C-STORE request arrives on, "msg_id", "items": [ITEM], "pre": exc name|None,
                     "where": label}, ...]}      the request's SOP class is always SERVICES["store-ct"]
    The peer's messages (every C-STORE request as P-DATA through dimse.receive_primitive, then the final retrieve
    response) are already received when the SCU starts waiting, as in run_ctx_case's 'cget-scu' path.  One EVT_C_STORE
    handler serves all requests and behaves per request (looked up by the request's Message ID) as scripted."""
    from pydicom.dataset import Dataset

    from pynetdicom import dimse_primitives as P
    from pynetdicom import evt

    get = case.get("via", "get") == "get"
    model = CTX_SOP["C-GET" if get else "C-MOVE"]
    contexts = [(model, TS["implicit"][0], True, False, case["model_cx"])]
    ts_of = {}
    for cid, svc, tsname, as_scp in case["layout"]:
        contexts.append((SERVICES[svc][1], TS[tsname][0], not as_scp, as_scp, cid))
        ts_of[cid] = tsname
    obs = SubstoreObs()
    a = E3.mk("requestor", contexts)
    handlers = {}
    for r in case["rqs"]:
        log = HandlerLog()
        obs.logs[r["msg_id"]] = log
        handlers[r["msg_id"]] = make_handler({"svc": "store-ct", "items": r["items"], "pre": r.get("pre")}, log)

    def on_store(event):
        rq = event.request
        obs.seen.append((rq.MessageID, rq._context_id, event.context.context_id, str(event.context.transfer_syntax)))
        return handlers[rq.MessageID](event)

    a.bind(evt.EVT_C_STORE, on_store)
    ident = Dataset()
    ident.QueryRetrieveLevel = "PATIENT"
    ident.PatientID = "1"
    with E3.no_sleep(), warnings.catch_warnings():
        warnings.simplefilter("ignore")
        try:
            for r in case["rqs"]:
                req = mk_request("C-STORE", SERVICES["store-ct"][1], r["msg_id"], ts_of.get(r["cid"], "implicit"))
                E3.inject_message(a, req, r["cid"])
            fin = P.C_GET() if get else P.C_MOVE()
            fin.MessageIDBeingRespondedTo = 1
            fin.AffectedSOPClassUID = model
            fin.Status = 0x0000
            fin.NumberOfCompletedSuboperations = len(case["rqs"])
            fin.NumberOfFailedSuboperations = 0
            fin.NumberOfWarningSuboperations = 0
            E3.inject_message(a, fin, case["model_cx"])
            n0 = len(a.sent)
            gen = a.send_c_get(ident, model, msg_id=1) if get else a.send_c_move(ident, "DEST", model, msg_id=1)
            obs.request_sent = len(a.sent) > n0
            obs.yields = [s.get("Status") for s, _ in gen]
        except Exception as e:  # noqa: BLE001 - recorded, judged by the check
            obs.raised = e
    obs.wire = wire_decode(a.sent)
    obs.aborted_locally = any(k == "abort" for k, _ in obs.wire)
    obs.assoc = a
    return obs


# --------------------------------------------------------------------------------------------- C19: context-ID paths
# one SOP class per request type; a layout says on which context IDs these SOP classes were accepted
CTX_SOP = {
    "C-ECHO": "1.2.840.10008.1.1",
    "C-STORE": STORE_UID,
    "C-FIND": "1.2.840.10008.5.1.4.1.2.1.1",
    "C-GET": "1.2.840.10008.5.1.4.1.2.1.3",
    "C-MOVE": "1.2.840.10008.5.1.4.1.2.1.2",
    "N-EVENT-REPORT": "1.2.840.10008.5.1.1.16",
    "N-GET": "1.2.840.10008.5.1.1.40",
    "N-SET": "1.2.840.10008.3.1.2.3.3",
    "N-ACTION": "1.2.840.10008.1.20.1",
    "N-CREATE": "1.2.840.10008.3.1.2.3.3",
    "N-DELETE": "1.2.840.10008.5.1.1.1",
    "C-CANCEL": None,
}
RTYPES = sorted(CTX_SOP)
PATHS = ("serve", "recv", "recv-chunked", "cget-scu", "cmove-scu")


class _SyncThread:
    """Stand-in for threading.Thread inside pynetdicom.dimse: N-EVENT-REPORT requests are served in a new thread by
    DIMSEServiceProvider.receive_primitive; here the target runs synchronously in the caller."""

    def __init__(self, target=None, args=(), kwargs=None, **_):
        self._t, self._a, self._k = target, args, kwargs or {}

    def start(self):
        self._t(*self._a, **self._k)

    def join(self, timeout=None):
        pass

    def is_alive(self):
        return False


def _recording_handlers(a, log):
    """Bind a handler to every DIMSE intervention event; each returns/yields a valid 'Success' result."""
    from pynetdicom import evt

    def simple(event):
        log.calls += 1
        log.events.append(event.event.name)
        return 0x0000

    def pair(event):
        log.calls += 1
        log.events.append(event.event.name)
        return 0x0000, None

    def find(event):
        log.calls += 1
        log.events.append(event.event.name)
        yield 0x0000, None

    def get(event):
        log.calls += 1
        log.events.append(event.event.name)
        yield 0

    def move(event):
        log.calls += 1
        log.events.append(event.event.name)
        yield None, None
        yield 0

    table = {
        "EVT_C_ECHO": simple,
        "EVT_C_STORE": simple,
        "EVT_N_DELETE": simple,
        "EVT_C_FIND": find,
        "EVT_C_GET": get,
        "EVT_C_MOVE": move,
        "EVT_N_GET": pair,
        "EVT_N_SET": pair,
        "EVT_N_ACTION": pair,
        "EVT_N_CREATE": pair,
        "EVT_N_EVENT_REPORT": pair,
    }
    for name, h in table.items():
        a.bind(getattr(evt, name), h)


def _negotiate_from_ac(a, contexts, answers, unsolicited):
    """Run the real requestor negotiation on the E3 association `a` against a scripted A-ASSOCIATE-AC.

    answers: {proposed context ID (as str or int): 0 (accept) | 1..4 (reject with that result) | "omit"}
    unsolicited: [[context ID never proposed, result]]  -> the set of IDs a conformant reading of the AC accepts"""
    import threading

    from pynetdicom.pdu_primitives import A_ASSOCIATE
    from pynetdicom.presentation import PresentationContext, build_context

    answers = {int(k): v for k, v in answers.items()}
    proposed = []
    for ab, ts, _scu, _scp, i in contexts:
        cx = build_context(ab, [ts])
        cx.context_id = i
        proposed.append(cx)
    a.requestor.requested_contexts = proposed
    results = []
    for ab, ts, _scu, _scp, i in contexts:
        r = answers.get(i, 0)
        if r == "omit":
            continue
        cx = PresentationContext()
        cx.context_id, cx.result = i, r
        cx.transfer_syntax = [ts]  # (a rejecting AC item still carries one transfer syntax sub-item)
        results.append(cx)
    for i, r in unsolicited:
        cx = PresentationContext()
        cx.context_id, cx.result = i, r
        cx.transfer_syntax = [contexts[0][1]]
        results.append(cx)
    ac = A_ASSOCIATE()
    ac.result = 0x00
    ac.presentation_context_definition_results_list = results
    ready = threading.Event()
    ready.set()
    a._accepted_cx = {}
    a.is_established = False
    a.dul.socket = type("S", (), {"_ready": ready, "_is_connected": True, "close": lambda self: None})()
    a.acse.send_request = lambda: None
    a.dul.receive_pdu = lambda wait=False, timeout=None: ac
    a.acse._negotiate_as_requestor()
    a.is_established = True
    a._is_paused = True
    return {i for _ab, _ts, _scu, _scp, i in contexts if answers.get(i, 0) == 0}


def run_ctx_case(case):
    """case = {"layout": [[rtype, context_id, tsname], ...]   accepted contexts (SOP class CTX_SOP[rtype])
               "rejected": [ids],  "path": one of PATHS, "rtype": request type, "cid": 0..255, "max_pdu": int}
    -> Obs (+ .raised: exception escaping the receive path, .accepted: set of accepted IDs)"""
    import pynetdicom.dimse as D
    from pynetdicom import _config
    from pynetdicom import dimse_primitives as P
    from pynetdicom.presentation import build_context

    path, rtype, cid = case["path"], case["rtype"], case["cid"]
    scu = path in ("cget-scu", "cmove-scu")
    contexts = []
    for rt, i, tsname in case["layout"]:
        if scu:
            # requestor side of a retrieve: storage contexts with the SCP role, everything else as SCU
            as_scp = rt == "C-STORE"
            contexts.append((CTX_SOP[rt], TS[tsname][0], not as_scp, as_scp, i))
        else:
            contexts.append((CTX_SOP[rt], TS[tsname][0], False, True, i))
    obs = Obs()
    obs.raised = None
    answers = case.get("answers")
    a = E3.mk("requestor" if (scu or answers) else "acceptor", contexts)
    obs.accepted = set(a._accepted_cx)
    if answers:
        # The accepted set is not planted but derived by pynetdicom's own requestor-side negotiation
        # (ACSE._negotiate_as_requestor -> presentation.negotiate_as_requestor) from a peer's A-ASSOCIATE-AC that
        # accepts, rejects (reasons 1-4), omits, or answers with an ID that was never proposed.  The expected accepted
        # set is computed here from the answers alone: proposed IDs the AC answered with result 0.
        obs.accepted = _negotiate_from_ac(a, contexts, answers, case.get("unsolicited") or [])
    rej = []
    for i in case.get("rejected") or []:
        cx = build_context(CTX_SOP["C-FIND"])
        cx.context_id, cx.result = i, 3
        rej.append(cx)
    a._rejected_cx = rej
    _recording_handlers(a, obs.log)

    tsname = "implicit"
    for rt, i, t in case["layout"]:
        if i == cid:
            tsname = t
    req = mk_request(rtype, CTX_SOP[rtype], 7, tsname)
    import pynetdicom.dimse_messages as DM

    old_thread, old_chunk, old_ntf = D.threading, _config.STORE_RECV_CHUNKED_DATASET, DM.NamedTemporaryFile
    D.threading = type("T", (), {"Thread": _SyncThread})
    _config.STORE_RECV_CHUNKED_DATASET = path == "recv-chunked"
    temp_files = []

    def tracking_ntf(*args, **kw):  # chunked receive creates delete=False temporary files: remove them afterwards
        f = old_ntf(*args, **kw)
        temp_files.append(f)
        return f

    DM.NamedTemporaryFile = tracking_ntf
    try:
        with E3.no_sleep(), warnings.catch_warnings():
            warnings.simplefilter("ignore")
            try:
                if path == "serve":
                    a._serve_request(req, cid)
                elif path in ("recv", "recv-chunked"):
                    E3.inject_message(a, req, cid, case.get("max_pdu", 16382))
                    # what Association._run_reactor does with a completely received message
                    cx_id, msg = a.dimse.get_msg(block=False)
                    if msg:
                        a._serve_request(msg, cx_id)
                else:
                    model = CTX_SOP["C-GET" if path == "cget-scu" else "C-MOVE"]
                    from pydicom.dataset import Dataset

                    ident = Dataset()
                    ident.QueryRetrieveLevel = "PATIENT"
                    ident.PatientID = "1"
                    model_ids = [i for rt, i, _ in case["layout"] if CTX_SOP[rt] == model]
                    # the peer's messages are already queued when the SCU starts waiting: the request under test
                    # followed by the final retrieve response
                    E3.inject_message(a, req, cid, case.get("max_pdu", 16382))
                    fin = P.C_GET() if path == "cget-scu" else P.C_MOVE()
                    fin.MessageIDBeingRespondedTo = 1
                    fin.AffectedSOPClassUID = model
                    fin.Status = 0x0000
                    fin.NumberOfCompletedSuboperations = 0
                    fin.NumberOfFailedSuboperations = 0
                    fin.NumberOfWarningSuboperations = 0
                    E3.inject_message(a, fin, model_ids[0])
                    # (an N-EVENT-REPORT request is served at once by receive_primitive's worker "thread", which leaves
                    # the paused flag cleared; there is no reactor thread here to set it again)
                    a._is_paused = True
                    n0 = len(a.sent)
                    if path == "cget-scu":
                        gen = a.send_c_get(ident, model, msg_id=1)
                    else:
                        gen = a.send_c_move(ident, "DEST", model, msg_id=1)
                    obs.scu_yields = [(s.get("Status"), i) for s, i in gen]
                    obs.request_sent = len(a.sent) > n0
            except Exception as e:  # noqa: BLE001
                obs.raised = e
    finally:
        D.threading, _config.STORE_RECV_CHUNKED_DATASET, DM.NamedTemporaryFile = old_thread, old_chunk, old_ntf
        import os

        for f in temp_files:
            try:
                f.close()
            except Exception:  # noqa: BLE001
                pass
            try:
                os.unlink(f.name)
            except OSError:
                pass
    obs.wire = wire_decode(a.sent)
    obs.aborted_locally = any(k == "abort" for k, _ in obs.wire)
    obs.assoc = a
    return obs
