"""C17 - DIMSE primitives survive conversion to command sets and back (pure PBT, oracle refs/cmdfield_ref)."""
from itertools import combinations

from refs import cmdfield_ref as C
from refs import dimse_gen as G
from vlib import sig
from vlib.core import HarnessError

LEVEL = "exploration"
RULE = (
    "A case is a plain description of one of the 23 DIMSE message kinds (11 requests, 11 responses, C-CANCEL): the "
    "mandatory parameters, a subset of the optional/conditional/status-related parameters PS3.7 lets that message carry "
    "(own table refs/cmdfield_ref.py), in-range values (US 0..65535 with boundary bias, Priority 0/1/2, conformant UIDs of "
    "1..64 chars, AE titles of 1..16 chars, LO comments of 0..64 chars, 0..5 attribute tags), an optional even-length data "
    "set of 2..64 arbitrary bytes, a presentation context ID, and in a quarter of the Hypothesis cases also parameters the "
    "message does not transmit. The primitive is built through public setters, converted with primitive_to_message, encoded "
    "with encode_msg (max 0 or 16382), the command-set bytes are read by an independent Implicit-VR-LE reader and compared "
    "with the description (CommandField per PS3.7 E.1-1, CommandGroupLength, CommandDataSetType, order/even lengths, every "
    "parameter, no foreign element), then decode_msg + message_to_primitive and the resulting primitive is compared. "
    "Quick and thorough tiers also enumerate EVERY subset of optional parameters of every kind with fixed values. "
    "Non-trivial = at least one optional parameter set or an attribute list with >=2 tags; distinct = distinct description."
)
ASSUMPTIONS = [
    "refs/cmdfield_ref.py is a correct transcription of PS3.7 Table E.1-1 (tags, VRs, command field values) and of which "
    "parameters each message carries (9.1/10.1 usage tables, 9.3/10.3 message tables, Annex C status-related fields)",
    "padding PS3.5 declares insignificant is not compared: trailing NUL of UI, leading/trailing spaces of AE and LO; "
    "an empty comment / empty tag list is the same as an absent one",
    "a parameter that was not set must come out absent or zero-length; 'no data set' is None or zero bytes after the round trip",
    "empty (zero-byte) data sets are not generated here: they belong to C16 (CommandDataSetType vs. data fragments)",
    "the data-set parameter is a BytesIO whose position is at the start, in the middle or at the end when the primitive gets it (a caller may "
    "have written into it or read it): the stream's content, not its position, is the data set",
    "the presentation context ID and maximum length given to encode_msg are arbitrary (no association involved)",
    "setter rejections (ValueError/TypeError) of a generated value are counted as api-rejected, not failures",
    "side sweep 'out_of_range' (never counted as non-trivial): integers outside 0..65535 for one US parameter are outside the "
    "in-range domain; the only assertion is 'refused by the setter, or accepted and round-tripped' (statement: every value the "
    "primitive accepts)",
]
SHARDS = {"quick": 1, "thorough": 16}
MIN_NONTRIVIAL = 50


def _classes(desc, m):
    opt_set = [k for k in m.optional if k in desc["params"]]
    cl = [desc["kind"], "opt:%d/%d" % (len(opt_set), len(m.optional))]
    if desc.get("dataset") is not None:
        cl.append("with-dataset")
        cl.append("stream-position:" + desc.get("ds_pos", "start"))
    if desc.get("extras"):
        cl.append("extras-set")
    multi = [k for k in desc["params"] if C.ELEMENTS[k][2]]
    for k in multi:
        n = len(desc["params"][k])
        cl.append("tags:%s" % ("0" if n == 0 else "1" if n == 1 else "2+"))
    if any(C.ELEMENTS[k][1] == "UI" and len(v) % 2 for k, v in desc["params"].items()):
        cl.append("odd-uid")
    if any(C.ELEMENTS[k][1] == "UI" and len(v) == 64 for k, v in desc["params"].items()):
        cl.append("uid-64")
    if any(C.ELEMENTS[k][1] == "US" and v in (0, 0xFFFF) for k, v in desc["params"].items()):
        cl.append("us-boundary")
    nt = bool(opt_set) or any(len(desc["params"][k]) >= 2 for k in multi)
    return cl, nt


_SEND_ASSOC = {}


def _send_assoc():
    from engines import syncassoc as E3

    if "a" not in _SEND_ASSOC:
        _SEND_ASSOC["a"] = E3.mk("requestor", [("1.2.840.10008.5.1.4.1.1.2", "1.2.840.10008.1.2", True, True)])
    a = _SEND_ASSOC["a"]
    a.sent.clear()
    a.acceptor.maximum_length = 0
    return a


def check_roundtrip(ctx, case):
    desc, cid, maxpdu = case["desc"], case["cid"], case.get("max", 0)
    kind = desc["kind"]
    m = C.MESSAGES[kind]
    cl, nt = _classes(desc, m)

    from pynetdicom.dimse_messages import DIMSEMessage

    try:
        prim = G.build(desc)
    except G.Rejected as e:
        ctx.note(case, nontrivial=False, classes=cl + ["api-rejected", "api-rejected:" + e.keyword])
        return
    ctx.note(case, nontrivial=nt, classes=cl)

    # ---------------------------------------------------------------- primitive -> message -> P-DATA
    try:
        msg = G.message_class(kind)()
        msg.primitive_to_message(prim)
        pdatas = list(msg.encode_msg(cid, maxpdu))
    except Exception as e:
        ctx.fail("exception-encode", sig.exc_key(e), f"primitive_to_message/encode_msg raised for {desc}\n{sig.exc_text(e)}")
        return
    cmd, data = bytearray(), bytearray()
    for pd in pdatas:
        for pc, v in pd.presentation_data_value_list:
            if pc != cid:
                ctx.fail("context-id", f"{kind}:pdv", f"PDV carries context {pc}, asked for {cid}")
            (cmd if v[0] & 1 else data).extend(v[1:])
    cmd, data = bytes(cmd), bytes(data)

    # ---------------------------------------------------------------- the same primitive through the DIMSE provider (it picks the message class)
    # (a C-CANCEL request is a primitive with MessageIDBeingRespondedTo set; every other request has it None, every response an int incl. 0)
    try:
        if desc.get("extras"):
            raise G.Rejected("extras", None)  # attributes the message type does not transmit (e.g. an ID being responded to on a request) steer send_msg's choice by design
        a = _send_assoc()
        a.dimse.send_msg(G.build(desc), cid)
        cmd2 = bytearray()
        for p in a.sent:
            for _pc, v in getattr(p, "presentation_data_value_list", []):
                if v[0] & 1:
                    cmd2.extend(v[1:])
        if bytes(cmd2) != cmd:
            v2, _f2 = C.parse_command_set(bytes(cmd2))
            ctx.fail("send-msg-class", f"{kind}:field=0x{v2.get('CommandField', 0):04X}", f"DIMSEServiceProvider.send_msg sent a command set that differs from {kind}'s own encoding: CommandField 0x{v2.get('CommandField', 0):04X}, expected 0x{m.field:04X}; desc={desc}")
            return
    except (C.Malformed, G.Rejected):
        pass
    except Exception as e:
        ctx.fail("exception-encode", "send_msg:" + sig.exc_key(e), f"dimse.send_msg raised for {desc}\n{sig.exc_text(e)}")
        return

    # ---------------------------------------------------------------- independent reading of the command set
    try:
        values, facts = C.parse_command_set(cmd)
    except C.Malformed as e:
        ctx.fail("layout", "malformed", f"command set is not readable as Implicit VR LE / E.1-1: {e}\n desc={desc}\n bytes={cmd.hex()}")
        return
    if facts["unknown"] or not facts["group0"]:
        ctx.fail("layout", "foreign-tag", f"command set contains tags outside PS3.7 E.1-1: {[hex(t) for t in facts['unknown']]}")
    if not facts["sorted"]:
        ctx.fail("layout", "order", f"elements not in increasing tag order: {[hex(t) for t in facts['tags']]}")
    if not facts["even"]:
        ctx.fail("layout", "odd-length", f"an element has odd value length (PS3.5 7.1.1)\n bytes={cmd.hex()}")
    if facts["group_length_value"] is None:
        ctx.fail("group-length", "missing", f"(0000,0000) is not the first element / has no value\n bytes={cmd.hex()}")
    elif facts["group_length_value"] != facts["group_length_measured"]:
        ctx.fail(
            "group-length",
            "value",
            f"CommandGroupLength={facts['group_length_value']} but {facts['group_length_measured']} bytes follow it in group 0000\n desc={desc}",
        )
    if values.get("CommandField") != m.field:
        ctx.fail("command-field", f"{kind}:field", f"CommandField={values.get('CommandField')!r:} but PS3.7 E.1-1 assigns 0x{m.field:04X} to {kind}")
    cdst = values.get("CommandDataSetType")
    has_ds = desc.get("dataset") is not None
    if cdst is None or (cdst == C.NO_DATA_SET) == has_ds:
        ctx.fail(
            "data-set-type",
            f"{kind}:{'with' if has_ds else 'without'}-dataset",
            f"CommandDataSetType={cdst!r} for a message {'with' if has_ds else 'without'} a data set (0101H means none)",
        )
    if data != (desc.get("dataset") or b""):
        ctx.fail("dataset-bytes", f"{kind}:sent", f"data PDVs carry {data.hex()} but the data set is {desc.get('dataset')!r}")
    want = G.expected_params(desc)
    allowed = C.allowed_keywords(kind)
    wrong = set()  # parameters already reported on the encoding side (their round trip is a consequence)
    for kw in sorted(values):
        if kw in C.STRUCTURAL:
            continue
        got = C.norm_value(kw, values[kw])
        if kw not in allowed:
            wrong.add(kw)
            ctx.fail("unexpected-element", f"{kind}:{kw}", f"{kw}={got!r} encoded in a {kind}, which PS3.7 does not define for it\n desc={desc}")
        elif got != want.get(kw, [] if C.ELEMENTS[kw][2] else None):
            wrong.add(kw)
            ctx.fail("element-value", f"{kind}:{kw}", f"{kw} encoded as {got!r}, parameter was {desc['params'].get(kw)!r}\n desc={desc}\n bytes={cmd.hex()}")
    for kw in sorted(want):
        if kw not in values:
            wrong.add(kw)
            ctx.fail("element-missing", f"{kind}:{kw}", f"{kw}={want[kw]!r} was set but is not in the encoded {kind}\n desc={desc}\n bytes={cmd.hex()}")

    # ---------------------------------------------------------------- P-DATA -> message -> primitive
    rx = DIMSEMessage()
    done = []
    try:
        for pd in pdatas:
            done.append(bool(rx.decode_msg(pd)))
        if done != [False] * (len(pdatas) - 1) + [True]:
            ctx.fail("decode-completion", f"{kind}:{'with' if has_ds else 'without'}-dataset", f"decode_msg returned {done} over the {len(pdatas)} P-DATA of one message")
            return
        back = rx.message_to_primitive()
    except Exception as e:
        ctx.fail("exception-decode", sig.exc_key(e), f"decode_msg/message_to_primitive raised for {desc}\n{sig.exc_text(e)}")
        return
    if type(rx).__name__ != kind.replace("-", "_"):
        ctx.fail("roundtrip-type", f"{kind}:message-class", f"decoded message is a {type(rx).__name__}")
    if type(back) is not type(prim):
        ctx.fail("roundtrip-type", f"{kind}:primitive-class", f"decoded primitive is a {type(back).__name__}, sent a {type(prim).__name__}")
        return
    x = G.extract(back)
    if x["kind"] != kind:
        ctx.fail("roundtrip-type", f"{kind}:direction", f"primitive reads as {x['kind']} after the round trip")
    for kw in C.transmitted(kind):
        a, b = want.get(kw), x["params"].get(kw)
        if a != b and kw not in wrong:
            ctx.fail("roundtrip-param", f"{kind}:{kw}", f"{kw}: sent {desc['params'].get(kw)!r}, got back {b!r}\n desc={desc}")
    if (x["dataset"] or b"") != (desc.get("dataset") or b""):
        ctx.fail("roundtrip-dataset", f"{kind}:dataset", f"data set sent {desc.get('dataset')!r}, got back {x['dataset']!r}")
    if x["context_id"] != cid:
        ctx.fail("context-id", f"{kind}:primitive", f"context ID {cid} became {x['context_id']}")


def check_out_of_range(ctx, case):
    """Labelled side domain (outside 'in-range values'): ONE 16-bit (US) parameter gets an integer outside 0..65535.
    The property speaks of 'every combination of parameter values the primitive accepts', so the only outcomes that
    are fine are: the setter refuses the value (ValueError/TypeError), or the accepted value survives the round trip."""
    from pynetdicom.dimse_messages import DIMSEMessage

    desc, kw = case["desc"], case["keyword"]
    kind = desc["kind"]
    try:
        prim = G.build(desc)
    except G.Rejected as e:
        ctx.note(case, nontrivial=False, classes=["out-of-range", "oor:rejected-by-setter", "oor-rejected:" + e.keyword])
        return
    ctx.note(case, nontrivial=False, classes=["out-of-range", "oor:accepted-by-setter", "oor-accepted:" + kw])
    try:
        msg = G.message_class(kind)()
        msg.primitive_to_message(prim)
        pdatas = list(msg.encode_msg(1, 0))
        rx = DIMSEMessage()
        done = [bool(rx.decode_msg(p)) for p in pdatas]
        back = G.extract(rx.message_to_primitive()) if done and done[-1] else None
    except Exception as e:
        ctx.fail(
            "accepted-out-of-range",
            sig.exc_key(e),
            f"{type(prim).__name__}.{kw} = {desc['params'][kw]} is accepted by the setter, then the conversion of the {kind} raises\n{sig.exc_text(e)}",
        )
        return
    if back is None or back["params"].get(kw) != desc["params"][kw]:
        ctx.fail("accepted-out-of-range", f"value-changed:{kw}", f"{kw}={desc['params'][kw]} accepted, came back as {back and back['params'].get(kw)!r} ({kind})")


CHECKS = {"roundtrip": check_roundtrip, "out_of_range": check_out_of_range}

# fixed in-range values for the exhaustive subset enumeration
_FIXED = {
    "UI": ["1.2.840.10008.5.1.4.1.1.2", "1.2.3.4.5"],
    "AE": ["MOVE_SCP", "A"],
    "LO": ["Some error comment", "x"],
    "AT": [[0x00100010, 0x00100020], [0x7FE00010]],
}


def _fixed_value(kw, variant):
    _, vr, _ = C.ELEMENTS[kw]
    if kw == "Priority":
        return variant % 3
    if vr == "US":
        # a different value per keyword so that swapped parameters are visible
        return (0x0101 + 257 * sorted(C.ELEMENTS).index(kw) + variant) & 0xFFFF
    return _FIXED[vr][variant % 2]


def enumerate_subsets():
    """Every kind x every subset of its (exposed) optional parameters x data set absent/present where optional."""
    for kind in C.KINDS:
        m = C.MESSAGES[kind]
        ex = G.exposed(kind)
        opt = [k for k in m.optional if k in ex]
        n = 0
        for r in range(len(opt) + 1):
            for sub in combinations(opt, r):
                params = {k: _fixed_value(k, n) for k in m.mandatory if k in ex}
                params.update({k: _fixed_value(k, n) for k in sub})
                if m.dataset is None:
                    dss = [None]
                elif m.dataset[1] == "M":
                    dss = [b"\x08\x00\x18\x00\x02\x00\x00\x00\x31\x00"]
                else:
                    dss = [None, b"\x10\x00\x10\x00\x04\x00\x00\x00\x41\x5e\x42\x20"]
                for ds in dss:
                    yield {"desc": {"kind": kind, "params": params, "dataset": ds}, "cid": 1 + 2 * (n % 128), "max": 0}
                n += 1


def run(ctx):
    from hypothesis import strategies as st

    ne = G.not_exposed()
    ctx.extra["parameters_in_ps37_table_without_primitive_attribute"] = ne
    if set(G.exposed("C-STORE-RQ")) != set(C.transmitted("C-STORE-RQ")):
        raise HarnessError("C_STORE primitive does not expose the PS3.7 C-STORE-RQ parameters: wrong attribute naming assumption")

    # exhaustive over parameter subsets (fixed values); the shards of the thorough tier split it
    cases = [c for i, c in enumerate(enumerate_subsets()) if i % ctx.nshards == ctx.shard]
    ctx.each("roundtrip", cases)
    ctx.extra["subset_enumeration_cases"] = len(cases)

    case = st.fixed_dictionaries(
        {
            "desc": G.descs(extras=True),
            "cid": st.one_of(st.sampled_from([1, 3, 255]), st.integers(0, 127).map(lambda i: 2 * i + 1)),
            "max": st.sampled_from([0, 0, 16382]),
            "pos": st.sampled_from(["start", "start", "middle", "end"]),
        }
    ).map(lambda c: {"desc": dict(c["desc"], ds_pos=c["pos"]) if c["desc"].get("dataset") is not None else c["desc"], "cid": c["cid"], "max": c["max"]})
    n = 2500 if ctx.quick else 6500
    ctx.hyp("roundtrip", case, n)

    # labelled out-of-domain side sweep: one US parameter outside 0..65535 (see check_out_of_range)
    @st.composite
    def oor(draw):
        d = draw(G.descs(dataset="none"))
        us = [k for k in d["params"] if C.ELEMENTS[k][1] == "US"]
        kw = sorted(us)[draw(st.integers(0, 10**6)) % len(us)]
        d["params"][kw] = draw(st.one_of(st.sampled_from([-1, 65536, 70000, 2**31, 2**32, -(2**15) - 1]), st.integers(65536, 2**33), st.integers(-(2**33), -1)))
        return {"desc": d, "keyword": kw}

    ctx.hyp("out_of_range", oor(), 200 if ctx.quick else 400)
