"""C29 - qrscp returns exactly the entities the PS3.4 C.2.2.2 matching rules select (reference: refs/qr_match_ref)."""
import itertools
import types
import warnings
from collections import Counter
from io import BytesIO

from refs import qr_match_ref as R
from vlib import sig
from vlib.core import HarnessError

LEVEL = "exploration"
RULE = (
    "Hypothesis builds a consistent patient/study/series/image tree of 0..8 instances (attribute values from small colliding "
    "alphabets: 'aA_%b' for LO/SH/PN, 'AB_' for CS, 4 dates, 4 times, 5 integers; required attributes may be absent or "
    "zero-length; instances are loaded as a C-STORE would deliver them, through encode/decode) and one identifier for the Patient Root or Study Root model at any level, with per-key single value / "
    "universal / UID list / wild card ('*','?' mixed with '_','%' and case variants derived from stored "
    "values) / range matching, or a hierarchy violation (no level, level not in the model, missing higher unique key, key "
    "below the level). The database is filled through qrscp's own add_instance(); the identifier is run through "
    "db.search() (C-FIND, C-GET and C-MOVE models), through handlers.handle_find / handle_get with a real events.Event "
    "decoding the wire-encoded identifier, and (sampled) through a thread-free Association serving a C-FIND request. "
    "The returned entities / response identifiers are compared with the reference selection (lower/upper bound where PN "
    "case is the implementation's choice), one response per entity, rejection iff the hierarchy predicate fails. "
    "Non-trivial = hierarchy-valid identifier over >=2 entities at the query level whose reference result is a non-empty "
    "proper subset, or a matched entity holding >=2 instances (per-entity clause bites); distinct = distinct case."
)
ASSUMPTIONS = [
    "refs/qr_match_ref.py is a correct transcription of PS3.4 C.2.2.2.1-5 and of the baseline hierarchical identifier rules",
    "PN case sensitivity is unconstrained: any result between the case-sensitive and the case-folded selection is accepted",
    "not asserted (never generated or accepted either way): absent attribute vs '*'-only wild card; zero-length stored "
    "DA/TM in ranges; ranges with start > end; StudyDate and StudyTime both ranged (combined date-time matching); "
    "DA/TM of differing precision; PN component-group equivalences; non-unique or non-single-value keys above the query "
    "level; identifiers with no supported key; IS numeric-string variants; order of responses; Retrieve AE Title and "
    "other response attributes beyond the requested supported keys; required keys in C-GET/C-MOVE identifiers; "
    "handle_move (needs stored files and a destination); relational queries",
    "stored unique keys are globally unique and every entity's attributes are identical on all of its instances (a "
    "consistent DICOM information model); add_instance() is the documented way to fill the database",
    "handlers.create_engine is substituted (module attribute, from outside) so that the handlers see the per-process "
    "in-memory SQLite database the case was loaded into",
    "a mismatch is attributed to a registered known finding only when the implementation's result equals the reference "
    "result under exactly that deviation (LIKE '_' / LIKE '%' / LIKE ASCII case folding / zero-length text value compared "
    "as a literal / one response per instance); anything else is reported with its own key",
]
SHARDS = {"quick": 1, "thorough": 16}
MIN_NONTRIVIAL = 30

MODEL_UID = {  # PS3.4 C.6.1.3 / C.6.2.3 SOP class UIDs
    ("P", "find"): "1.2.840.10008.5.1.4.1.2.1.1",
    ("P", "move"): "1.2.840.10008.5.1.4.1.2.1.2",
    ("P", "get"): "1.2.840.10008.5.1.4.1.2.1.3",
    ("S", "find"): "1.2.840.10008.5.1.4.1.2.2.1",
    ("S", "move"): "1.2.840.10008.5.1.4.1.2.2.2",
    ("S", "get"): "1.2.840.10008.5.1.4.1.2.2.3",
}
OPTIONAL_KEY = {"PATIENT": "PatientBirthDate", "STUDY": "StudyDescription", "SERIES": "SeriesDescription", "IMAGE": "ContentDate"}
HYPS = ["like-underscore", "like-percent", "like-casefold", "star-vs-zero-length", "per-instance-duplicates"]
HYP_CLAUSE = {
    "like-underscore": "matching",
    "like-percent": "matching",
    "like-casefold": "matching",
    "star-vs-zero-length": "matching",
    "per-instance-duplicates": "one-response-per-entity",
}

# ------------------------------------------------------------------------------------------ pynetdicom side
_ENV = {}


class _Log:
    def __init__(self):
        self.exc = []

    def info(self, *a, **k):
        pass

    debug = warning = error = info

    def exception(self, exc, *a, **k):
        self.exc.append(exc)


def _env():
    """One in-memory SQLite database per process (emptied per case), shared with the handlers."""
    if _ENV:
        return _ENV
    warnings.simplefilter("ignore")
    import pydicom
    from sqlalchemy.orm import sessionmaker

    # the application's own start-up configuration (apps/qrscp/qrscp.py: "Use `None` for empty values")
    pydicom.config.use_none_as_empty_text_VR_value = True

    from pynetdicom.apps.qrscp import db, handlers

    engine = db.create("sqlite:///:memory:")
    handlers.create_engine = lambda path, *a, **k: engine
    _ENV.update(db=db, handlers=handlers, engine=engine, Session=sessionmaker(bind=engine))
    return _ENV


def _dataset(d):
    from pydicom.dataset import Dataset

    ds = Dataset()
    for k, v in d.items():
        setattr(ds, k, v)
    return ds


def _load(env, instances):
    db = env["db"]
    s = env["Session"]()
    try:
        db.clear(s)
        from pynetdicom.dsutils import decode, encode

        for inst in instances:
            ds = _dataset({k: v for k, v in inst.items() if v is not None})
            # as received in a C-STORE request: zero-length values arrive as empty elements
            db.add_instance(decode(BytesIO(encode(ds, True, True)), True, True), s)
        n = s.query(db.Instance).count()
    finally:
        s.close()
    if n != len(instances):
        raise HarnessError(f"database holds {n} rows after loading {len(instances)} instances")


def _ident_dataset(ident):
    d = {}
    if ident.get("level") is not None:
        d["QueryRetrieveLevel"] = ident["level"]
    d.update(ident["keys"])
    return _dataset(d)


def _event(model_uid, ident, kind, log):
    """A real events.Event around a real request primitive carrying the wire-encoded identifier."""
    from pydicom.uid import UID, ImplicitVRLittleEndian

    from pynetdicom import evt
    from pynetdicom.dimse_primitives import C_FIND, C_GET
    from pynetdicom.dsutils import encode
    from pynetdicom.presentation import PresentationContextTuple

    req = C_FIND() if kind == "find" else C_GET()
    req.MessageID = 7
    req.AffectedSOPClassUID = UID(model_uid)
    req.Priority = 2
    b = encode(_ident_dataset(ident), True, True)
    if b is None:
        raise HarnessError(f"cannot encode identifier {ident}")
    req.Identifier = BytesIO(b)
    assoc = types.SimpleNamespace(
        requestor=types.SimpleNamespace(address="127.0.0.1", port=11112), ae=types.SimpleNamespace(ae_title="QRSCP")
    )
    cx = PresentationContextTuple(1, UID(model_uid), ImplicitVRLittleEndian)
    return evt.Event(
        assoc, evt.EVT_C_FIND if kind == "find" else evt.EVT_C_GET, {"request": req, "context": cx, "_is_cancelled": lambda mid: False}
    )


def _plain(v):
    """pydicom value -> comparable plain value ('' / None -> None)."""
    if v is None:
        return None
    if hasattr(v, "append") and not isinstance(v, str):
        return [_plain(x) for x in v]
    s = str(v)
    return s if s != "" else None


class _Outcome:
    """rejected: bool; error: exception or None; units: list of hashable result units"""

    def __init__(self, rejected=False, error=None, units=None, extra=None):
        self.rejected, self.error, self.units, self.extra = rejected, error, units or [], extra


def _run(env, case, proj_keys):
    """Execute the identifier against the loaded database through the case's route."""
    from pydicom.uid import UID

    db = env["db"]
    root, op, route, ident = case["root"], case["op"], case["route"], case["ident"]
    model = UID(MODEL_UID[(root, op)])
    level = ident.get("level")
    if route == "search":
        s = env["Session"]()
        try:
            try:
                rows = db.search(model, _ident_dataset(ident), s)
            except (db.InvalidIdentifier, ValueError):
                return _Outcome(rejected=True)
            except Exception as e:
                s.rollback()
                return _Outcome(error=e)
            if op == "find":
                uk = {"PATIENT": "patient_id", "STUDY": "study_instance_uid", "SERIES": "series_instance_uid", "IMAGE": "sop_instance_uid"}
                return _Outcome(units=[("e", getattr(r, uk[level])) for r in rows])
            return _Outcome(units=[("i", r.sop_instance_uid) for r in rows])
        finally:
            s.close()
    log = _Log()
    if route == "handler":
        ev = _event(model, ident, op, log)
        h = env["handlers"]
        gen = (h.handle_find if op == "find" else h.handle_get)(ev, "sqlite:///:memory:", None, log)
        try:
            if op == "get":
                first = next(gen)
                gen.close()
                ys = [first]
            else:
                ys = list(gen)
        except Exception as e:
            return _Outcome(error=e, extra="handler-raised")
        if op == "get":
            if isinstance(ys[0], int):
                return _Outcome(units=[("n", ys[0])])
            ys = [ys[0]]
        if len(ys) == 1 and ys[0][1] is None:
            st = ys[0][0]
            if st == 0xA900:
                return _Outcome(rejected=True)
            if st in (0xC320, 0xC420):
                return _Outcome(error=log.exc[-1] if log.exc else RuntimeError("handler status 0x%04X" % st))
        units = []
        for y in ys:
            if not (isinstance(y, tuple) and len(y) == 2 and y[0] == 0xFF00 and y[1] is not None):
                return _Outcome(error=RuntimeError(f"unexpected yield {y!r}"), extra="bad-yield")
            units.append(_project(y[1], level, proj_keys))
        return _Outcome(units=units)
    if route == "assoc":
        from pynetdicom import evt

        from engines import syncassoc as SA

        a = SA.mk("acceptor", [(model, "1.2.840.10008.1.2", False, True)])
        from pynetdicom.transport import AddressInformation

        a.requestor.address_info = AddressInformation("127.0.0.1", 11112)
        a.bind(evt.EVT_C_FIND, env["handlers"].handle_find, ["sqlite:///:memory:", None, log])
        req = _event(model, ident, "find", log).request
        with SA.no_sleep():
            a._serve_request(req, 1)
        sent = SA.decode_sent(a)
        rsp = [p for k, p in sent if k == "C_FIND"]
        if len(rsp) != len(sent) or not rsp:
            return _Outcome(error=RuntimeError(f"sent {[k for k, p in sent]}"), extra="bad-responses")
        final = rsp[-1].Status
        if final == 0xA900 and len(rsp) == 1:
            return _Outcome(rejected=True)
        if final != 0x0000 or any(p.Status != 0xFF00 for p in rsp[:-1]):
            return _Outcome(error=log.exc[-1] if log.exc else RuntimeError("final status 0x%04X" % final))
        from pynetdicom.dsutils import decode

        units = []
        for p in rsp[:-1]:
            ds = decode(p.Identifier, True, True)
            units.append(_project(ds, level, proj_keys))
        return _Outcome(units=units)
    raise HarnessError(f"unknown route {route}")


def _project(ds, level, proj_keys):
    out = [("QueryRetrieveLevel", _plain(ds.get("QueryRetrieveLevel")))]
    for k in proj_keys:
        out.append((k, _plain(ds[k].value) if k in ds else "<missing>"))
    return ("r", tuple(out))


# ------------------------------------------------------------------------------------------ model side
def _wire(ident):
    """What the identifier looks like after encode/decode: zero length is '' for every VR but IS (None)."""
    keys = {}
    for k, q in ident["keys"].items():
        keys[k] = None if (k in R.KEYS and q == "") else q
    return {"level": ident.get("level"), "keys": keys}


def _model(case, instances, hyps, proj_keys):
    """-> (lower ids, upper ids, units(eid) -> list) for the reference under a set of deviation hypotheses."""
    root, op, route, ident = case["root"], case["op"], case["route"], case["ident"]
    seen = ident if route == "search" else _wire(ident)
    level = seen["level"]

    def wild(vr, pat, v, pn_fold):
        one = "?_" if "like-underscore" in hyps else "?"
        seq = "*%" if "like-percent" in hyps else "*"
        fold = (vr == "PN" and pn_fold) or (vr != "PN" and "like-casefold" in hyps)
        return R.wild_match(pat, v, seq, one, fold)

    def mv(vr, q, v, pn_fold, w):
        if "star-vs-zero-length" in hyps and v == "" and R.match_type(vr, q) == "wildcard":
            return False
        return R.match_value(vr, q, v, pn_fold, w)

    lower, upper = R.select(root, seen, instances, wild=wild, value_match=mv)

    def units(eid):
        insts = R.instances_of(root, level, instances, eid)
        if op != "find":
            return [("i", i["SOPInstanceUID"]) for i in insts]
        if route == "search":
            u = ("e", eid)
        else:
            u = ("r", (("QueryRetrieveLevel", level),) + tuple((k, _plain(insts[0].get(k))) for k in proj_keys))
        return [u] * (len(insts) if "per-instance-duplicates" in hyps else 1)

    return lower, upper, units


def _accepts(lower, upper, units, got, count_only):
    free = [e for e in upper if e not in lower]
    if len(free) > 10:
        raise HarnessError("too many unconstrained entities")
    base = Counter()
    for e in lower:
        base.update(units(e))
    want = Counter(got)
    for r in range(len(free) + 1):
        for sub in itertools.combinations(free, r):
            c = Counter(base)
            for e in sub:
                c.update(units(e))
            if count_only:
                if sum(c.values()) == sum(u[1] for u in got):
                    return True
            elif c == want:
                return True
    return False


def _mtypes(root, ident):
    return sorted({f"{R.match_type(R.vr_of(k), q)}:{R.vr_of(k)}" for k, q in ident["keys"].items() if k in R.KEYS})


def check_query(ctx, case):
    env = _env()
    root, op, route, ident = case["root"], case["op"], case["route"], case["ident"]
    instances = R.flatten(case["db"])
    level = ident.get("level")
    hv = R.hierarchy(root, ident)
    levels = R.LEVELS[root]
    proj_keys = []
    if hv != "invalid":
        idx = levels.index(level)
        proj_keys = sorted(k for k in ident["keys"] if k in R.KEYS and levels.index(R.level_of(root, k)) <= idx)
    mts = _mtypes(root, ident)
    has_uid_list = any(m.startswith("uid-list") for m in mts)

    # ---- evidence
    classes = [f"root:{root}", f"op:{op}", f"route:{route}", f"level:{level}", f"hier:{hv}", f"n-inst:{min(len(instances), 8)}"]
    classes += ["mt:" + m for m in mts]
    pats = [q for k, q in ident["keys"].items() if k in R.KEYS and isinstance(q, str) and R.match_type(R.vr_of(k), q) == "wildcard"]
    if any("_" in p for p in pats):
        classes.append("pattern-has-underscore")
    if any("%" in p for p in pats):
        classes.append("pattern-has-percent")
    if any(k not in R.KEYS for k in ident["keys"]):
        classes.append("unsupported-optional-key")
    nontrivial = False
    if hv == "valid":
        lo0, up0, un0 = _model(case, instances, (), proj_keys)
        all_e = []
        for i in instances:
            e = R.entity_id(root, level, i)
            if e not in all_e:
                all_e.append(e)
        if lo0 != up0:
            classes.append("pn-or-either-gap")
        classes.append("ref:none" if not up0 else ("ref:all" if len(lo0) == len(all_e) else "ref:some"))
        multi = any(len(R.instances_of(root, level, instances, e)) > 1 for e in lo0)
        if multi:
            classes.append("matched-entity-has-several-instances")
        nontrivial = len(all_e) >= 2 and ((0 < len(lo0) < len(all_e)) or multi)
    ctx.note(case, nontrivial=nontrivial, classes=classes)

    _load(env, instances)
    fails, unexplained = _judge(env, case, instances)
    for clause, key, msg in fails:
        ctx.fail(clause, key, msg)
    if unexplained is None:
        return
    # blame: which single query-level key misbehaves on its own (keeps one root cause on one key while shrinking)
    kind, msg = unexplained
    levels_ = R.LEVELS[root]
    idx_ = levels_.index(level)
    upper_keys = {k: q for k, q in ident["keys"].items() if k in R.KEYS and levels_.index(R.level_of(root, k)) < idx_}
    blamed = []
    if upper_keys:
        f2, u2 = _judge(env, dict(case, ident={"level": level, "keys": dict(upper_keys)}), instances)
        if u2 is not None or any(not ctx.is_known(c, kk) for c, kk, _ in f2):
            blamed = sorted({f"higher-level-{R.match_type(R.vr_of(k), q)}:{R.vr_of(k)}" for k, q in upper_keys.items()})
    for k, q in ident["keys"].items() if not blamed else ():
        if k in upper_keys or k not in R.KEYS:
            continue
        sub = dict(case, ident={"level": level, "keys": dict(upper_keys, **{k: q})})
        f2, u2 = _judge(env, sub, instances)
        if u2 is not None or any(not ctx.is_known(c, kk) for c, kk, _ in f2):
            blamed.append(f"{R.match_type(R.vr_of(k), q)}:{R.vr_of(k)}")
    what = "+".join(sorted(set(blamed))) if blamed else "combination"
    ctx.fail("matching", f"unexplained:{what}", f"[{kind}] {msg}")


def _judge(env, case, instances):
    """Run one identifier and compare with the reference.
    -> (failures [(clause, key, message)], unexplained (kind, message) | None)"""
    root, op, route, ident = case["root"], case["op"], case["route"], case["ident"]
    level = ident.get("level")
    hv = R.hierarchy(root, ident)
    levels = R.LEVELS[root]
    proj_keys = []
    if hv != "invalid":
        idx = levels.index(level)
        proj_keys = sorted(k for k in ident["keys"] if k in R.KEYS and levels.index(R.level_of(root, k)) <= idx)
    mts = _mtypes(root, ident)
    has_uid_list = any(m.startswith("uid-list") for m in mts)
    out = _run(env, case, proj_keys)
    where = f"{route}:{op}"

    # ---- rejection iff the hierarchy is invalid
    if hv == "invalid":
        if not out.rejected:
            what = "error" if out.error is not None else "accepted"
            return [
                (
                    "rejection",
                    f"invalid-hierarchy-{what}:{_why_invalid(root, ident)}",
                    f"{where}: identifier with an invalid level hierarchy was not rejected ({what}: {out.error!r} units={out.units})\n case={case}",
                )
            ], None
        return [], None
    if hv == "either":
        return [], None
    if out.rejected:
        return [("rejection", f"valid-hierarchy-rejected:{level}", f"{where}: hierarchy-valid identifier rejected as invalid\n case={case}")], None
    if out.error is not None:
        e = out.error
        if has_uid_list:
            return [("matching", "uid-list-raises", f"{where}: list-of-UID identifier raises {type(e).__name__}: {str(e)[:200]}\n case={case}")], None
        k = sig.exc_key(e) if e.__traceback__ is not None else type(e).__name__
        return [("exception", f"{out.extra or 'search'}:{k}", f"{where}: valid identifier ({'+'.join(mts)}) raised {e!r}\n case={case}")], None

    # ---- result set / one response per entity
    lo0, up0, un0 = _model(case, instances, (), proj_keys)
    count_only = bool(out.units) and out.units[0][0] == "n"
    if _accepts(lo0, up0, un0, out.units, count_only):
        return [], None
    for r in range(1, len(HYPS) + 1):
        for hs in itertools.combinations(HYPS, r):
            lo, up, un = _model(case, instances, hs, proj_keys)
            if _accepts(lo, up, un, out.units, count_only):
                msg = (
                    f"{where}: result differs from the PS3.4 selection and equals it only under {list(hs)}\n"
                    f" expected entities (must)={lo0} (may)={up0}\n got units={out.units}\n case={case}"
                )
                return [(HYP_CLAUSE[h], h, msg) for h in hs], None
    missing = sorted({k for u in out.units if u[0] == "r" for k, v in u[1] if v == "<missing>"})
    if missing:
        lv_kind = ["query-level" if R.level_of(root, k) == level else "higher-level" for k in missing if k in R.KEYS] or ["level"]
        return [
            (
                "response-identifier",
                f"requested-key-missing:{'+'.join(sorted(set(lv_kind)))}",
                f"{where}: C-FIND response lacks requested key(s) {missing}\n got units={out.units}\n case={case}",
            )
        ], None
    got_e = [u[1] for u in out.units if u[0] == "e"]
    if any(e not in up0 for e in got_e):
        kind = "over"
    elif (got_e or not out.units) and any(e not in got_e for e in lo0):
        kind = "under"
    elif len(got_e) != len(set(got_e)):
        kind = "duplicates"
    else:
        kind = "differs"
    return [], (
        kind,
        f"{where}: result differs from the PS3.4 selection\n expected entities (must)={lo0} (may)={up0}\n"
        f" expected units={[un0(e) for e in up0]}\n got units={out.units}\n case={case}",
    )


def _why_invalid(root, ident):
    level, keys = ident.get("level"), ident["keys"]
    levels = R.LEVELS[root]
    if level is None:
        return "no-level"
    if level not in levels:
        return "level-not-in-model"
    idx = levels.index(level)
    if any(R.UNIQUE[lv] not in keys for lv in levels[:idx]):
        return "missing-higher-unique-key"
    return "key-below-level"


CHECKS = {"query": check_query}


# ------------------------------------------------------------------------------------------ generation
def strategies():
    from hypothesis import strategies as st

    def pick_int(draw, lo, hi):
        """uniform small choice (st.integers is boundary-biased)"""
        return draw(st.sampled_from(range(lo, hi + 1)))

    TXT = st.text(alphabet="aA_%b", min_size=1, max_size=3)
    CS = st.text(alphabet="AB_", min_size=1, max_size=3)
    PN = st.one_of(TXT, st.builds(lambda a, b: a + "^" + b, TXT, st.text(alphabet="aAb", min_size=1, max_size=2)))
    DATES = ["20200101", "20200102", "20200103", "20210101"]
    TIMES = ["090000", "100000", "100001", "235959"]
    INTS = [-1, 0, 1, 5, 10]
    opt = lambda s, empty=True: st.one_of(st.none(), s, s, s, s, *( [st.just("")] if empty else []))  # noqa: E731
    VAL = {
        "PatientName": opt(PN),
        "StudyDate": opt(st.sampled_from(DATES), False),
        "StudyTime": opt(st.sampled_from(TIMES), False),
        "AccessionNumber": opt(TXT),
        "StudyID": opt(TXT),
        "Modality": opt(CS),
        "SeriesNumber": opt(st.sampled_from(INTS), False),
        "InstanceNumber": opt(st.sampled_from(INTS), False),
    }
    FRESH = {"PatientName": PN, "AccessionNumber": TXT, "StudyID": TXT, "Modality": CS, "PatientID": TXT}

    @st.composite
    def database(draw):
        n = draw(st.sampled_from([0, 1, 2, 3, 3, 4, 4, 5, 5, 6, 6, 7, 8, 8]))
        # every instance picks a (patient, study, series) slot: the distinct slots form the tree
        slots = [(pick_int(draw, 0, 2), pick_int(draw, 0, 1), pick_int(draw, 0, 1)) for _ in range(n)]
        pslots = sorted({a for a, _, _ in slots})
        pids = draw(st.lists(TXT, min_size=len(pslots), max_size=len(pslots), unique=True))
        db, ctr = [], [0, 0, 0]
        for a, pid in zip(pslots, pids):
            p = {"PatientID": pid, "PatientName": draw(VAL["PatientName"]), "studies": []}
            for b in sorted({y for x, y, _ in slots if x == a}):
                ctr[0] += 1
                stu = {"StudyInstanceUID": f"1.{ctr[0]}", "series": []}
                for k in ("StudyDate", "StudyTime", "AccessionNumber", "StudyID"):
                    stu[k] = draw(VAL[k])
                for c in sorted({z for x, y, z in slots if (x, y) == (a, b)}):
                    ctr[1] += 1
                    ser = {"SeriesInstanceUID": f"2.{ctr[1]}", "Modality": draw(VAL["Modality"]), "SeriesNumber": draw(VAL["SeriesNumber"]), "images": []}
                    for _ in range(slots.count((a, b, c))):
                        ctr[2] += 1
                        ser["images"].append({"SOPInstanceUID": f"3.{ctr[2]}", "InstanceNumber": draw(VAL["InstanceNumber"])})
                    stu["series"].append(ser)
                p["studies"].append(stu)
            db.append(p)
        return db

    def variants(draw, v, alphabet):
        """A query string related to stored value v: itself, a case variant, a '_'/'%' substitution."""
        kind = draw(st.sampled_from([0, 1, 2, 2, 3, 4]))
        if kind == 0 or not v:
            return v or draw(st.text(alphabet=alphabet, min_size=1, max_size=2))
        if kind == 1:
            return v.swapcase()
        i = pick_int(draw, 0, len(v) - 1)
        if kind == 2:
            return v[:i] + draw(st.sampled_from(["_", "%"])) + v[i + 1 :]
        if kind == 3:
            return v[:i] + draw(st.sampled_from(list(alphabet))) + v[i + 1 :]
        return draw(st.text(alphabet=alphabet, min_size=1, max_size=3))

    def wildcardise(draw, s):
        """Insert '*' / '?' into s (at least one)."""
        kind = pick_int(draw, 0, 5)
        if kind == 0:
            return s + "*"
        if kind == 1:
            return "*" + s
        if kind == 2 and s:
            i = pick_int(draw, 0, len(s) - 1)
            return s[:i] + "?" + s[i + 1 :]
        if kind == 3 and s:
            i = pick_int(draw, 0, len(s))
            return s[:i] + "*" + s[i:]
        if kind == 4:
            return draw(st.sampled_from(["*", "?", "??", "?*", "*?*", "_*", "%*", "?_", "_?", "%?", "*_*", "*%*", "a*", "A*", "*b"]))
        return draw(st.text(alphabet="aA_%b*?", min_size=1, max_size=4).filter(lambda t: "*" in t or "?" in t))

    def query_for(draw, kw, stored, allow_range=True):
        vr = R.vr_of(kw)
        have = [v for v in stored if v is not None]
        pick = draw(st.sampled_from(have)) if have and pick_int(draw, 0, 4) != 4 else None
        if vr == "IS":
            t = pick_int(draw, 0, 3)
            if t == 0:
                return None
            return pick if pick is not None else draw(st.sampled_from(INTS))
        if vr == "UI":
            t = pick_int(draw, 0, 5)
            if t == 0:
                return None
            if t == 1:
                pool = sorted(set(have) | {"9.9", "1.1", "2.1", "3.1"})
                return draw(st.lists(st.sampled_from(pool), min_size=2, max_size=3, unique=True))
            return pick if pick is not None and t < 5 else draw(st.sampled_from(["9.9", "1.1", "2.10", "3.1"]))
        if vr in ("DA", "TM"):
            pool = DATES if vr == "DA" else TIMES
            t = pick_int(draw, 0, 5)
            if t == 0:
                return None
            if t in (1, 2, 3) and allow_range:
                a, b = sorted([draw(st.sampled_from(pool)), draw(st.sampled_from(pool))])
                return draw(st.sampled_from([f"{a}-{b}", f"-{b}", f"{a}-"]))
            return pick if pick else draw(st.sampled_from(pool))
        alphabet = "AB_" if vr == "CS" else "aA_%b"
        t = pick_int(draw, 0, 6)
        if t == 0:
            return None
        base = variants(draw, pick, alphabet)
        if t in (1, 2):
            return base
        return wildcardise(draw, base)

    @st.composite
    def case(draw):
        db = draw(database())
        insts = R.flatten(db)
        root = draw(st.sampled_from(["P", "S"]))
        op = draw(st.sampled_from(["find"] * 6 + ["get", "move"]))
        if op == "find":
            route = draw(st.sampled_from(["search", "search", "handler", "handler", "assoc"]))
        else:
            route = "search" if op == "move" else draw(st.sampled_from(["search", "handler"]))
        levels = R.LEVELS[root]
        level = draw(st.sampled_from(levels + ["STUDY"]))
        idx = levels.index(level)
        target = draw(st.sampled_from(insts)) if insts else None
        keys = {}
        for lv in levels[:idx]:
            uk = R.UNIQUE[lv]
            if target is not None and pick_int(draw, 0, 7) != 7:
                keys[uk] = target[uk]
            else:
                keys[uk] = draw(FRESH["PatientID"]) if uk == "PatientID" else draw(st.sampled_from(["9.9", "1.1", "2.1"]))
        # the entities below the selected parents (so that query values relate to what can match)
        scope = [i for i in insts if all(i[k] == v for k, v in keys.items())] or insts
        at_level = [k for k in R.KEYS if R.level_of(root, k) == level]
        if op != "find":
            at_level = [R.UNIQUE[level]]
        nk = draw(st.sampled_from([1, 1, 2, 2, 3, 0] if idx else [1, 1, 2, 2, 3]))
        chosen = list(draw(st.permutations(at_level)))[:nk]
        if op != "find" and not chosen and draw(st.booleans()):
            chosen = [R.UNIQUE[level]]
        ranged = False
        for kw in chosen:
            q = query_for(draw, kw, [i.get(kw) for i in scope], allow_range=not ranged)
            if op != "find" and R.match_type(R.vr_of(kw), q) not in ("single", "uid-list"):
                q = "9.9" if R.vr_of(kw) == "UI" else draw(FRESH["PatientID"])
            if R.match_type(R.vr_of(kw), q) == "range":
                ranged = True
            keys[kw] = q
        if op == "find" and pick_int(draw, 0, 11) == 11 and any(k in R.KEYS for k in keys):
            keys[OPTIONAL_KEY[level]] = draw(st.sampled_from(["", "x"])) if OPTIONAL_KEY[level] != "ContentDate" else ""
        ident = {"level": level, "keys": keys}
        # hierarchy violations
        br = 20 - pick_int(draw, 0, 20)  # mostly (and minimal example:) no violation
        if br == 0:
            ident["level"] = None
        elif br == 1:
            ident["level"] = draw(st.sampled_from(["FOO", "", "PATIENT" if root == "S" else "STUDIES"]))
        elif br == 2 and idx > 0:
            del keys[R.UNIQUE[levels[pick_int(draw, 0, idx - 1)]]]
        elif br == 3 and idx < len(levels) - 1:
            lv = levels[pick_int(draw, idx + 1, len(levels) - 1)]
            kw = draw(st.sampled_from([k for k in R.KEYS if R.level_of(root, k) == lv and (op == "find" or R.KEYS[k][2])]))
            keys[kw] = query_for(draw, kw, [i.get(kw) for i in insts])
            if op != "find" and R.match_type(R.vr_of(kw), keys[kw]) not in ("single", "uid-list"):
                keys[kw] = "9.9"
        return {"db": db, "root": root, "op": op, "route": route, "ident": ident}

    return types.SimpleNamespace(case=case, database=database)


def run(ctx):
    S = strategies()
    n = 900 if ctx.quick else 2200
    ctx.hyp("query", S.case(), n, rounds=4, shrink_budget=8 if ctx.quick else 60)
