"""C06 - both peers agree on how an association ended, and it always ends (E4: two pynetdicom AEs)."""
from engines import lifecycle as L
from engines import scenario as SC

LEVEL = "exploration"
RULE = (
    "Hypothesis draws a requestor user script (associate, echo/store/find/sleep ops, then release/abort/idle), acceptor handler behaviours "
    "(return, delay, raise, abort), an acceptor-side user action from another thread at a generated time (release() or abort() of the active "
    "association - release collision, abort during release), an optional abort from a second requestor-side thread, small virtual timeouts and a "
    "schedule (fifo/random/PCT + preemptions + clock nudges). Both ends are real pynetdicom AEs under the E4 cooperative scheduler. A second family ('pair-at-notification') takes an otherwise undisturbed association and calls abort() from another thread exactly while one chosen notification (released / aborted / established / accepted / first DIMSE or ACSE message) of one side is being delivered. A third family ('pair-idle-release') sets network_timeout_response = 'A-RELEASE' on one side and lets that side's user release/abort within +-0.3 s of the idle timer running out. Oracle at "
    "quiescence: each side has exactly one of released/aborted/rejected; the outcomes are compatible (released<->released; an abort on one side "
    "<-> aborted on the other; rejected<->rejected); each side fired EVT_RELEASED+EVT_ABORTED+EVT_REJECTED exactly once; is_established is false; "
    "every thread has finished and both sockets are closed; total virtual time <= sum of the timeouts used + 12 s of scripted delays. "
    "Non-trivial = both sides issued a terminal action, or a terminal action was issued while the other side's handler was running."
)
ASSUMPTIONS = [
    "E4 substitution table (engines/dsched.py)",
    "runs in which a pynetdicom thread died with an exception are attributed to C05 (same scenario family) and only counted here",
    "acceptor-side release()/abort() are issued from a separate thread on ae.active_associations, as a server's main thread would",
]
SHARDS = {"quick": 1, "thorough": 16}
TERMINAL = ("EVT_RELEASED", "EVT_ABORTED", "EVT_REJECTED")


def check_pair(ctx, sc):
    out = SC.run(sc)
    rep = out["report"]
    labels = L.classify_run(out)
    req = out["requestors"][0]
    acc_action = sc["acceptor"].get("release_at") is not None or sc["acceptor"].get("shutdown_at") is not None or any((v or {}).get("do") == "abort" for v in sc["acceptor"]["handlers"].values())
    req_terminal = sc["requestors"][0]["script"][-1][0] in ("release", "abort") or sc["requestors"][0].get("abort_at") is not None
    nt = acc_action and req_terminal
    classes = [sc["schedule"]["policy"], out["how"]] + sorted(labels) + (["both-sides-act"] if nt else [])
    if sc["acceptor"].get("release_at") is not None:
        classes.append("acc-release")
    ctx.note(sc, nontrivial=nt, classes=classes)
    if out["how"] == "budget":
        ll = L.livelock(out, L.time_bound(sc))
        if ll:
            ctx.fail("never-ends", ll, f"step budget exhausted at virtual t={rep['now']} s, far beyond every timeout ({L.time_bound(sc)} s allowed): threads still alive {[(t['name'], t['state'], t['label'], t.get('where')) for t in rep['threads'] if t['state'] != 'done']}; scenario {_brief(sc)}")
            return
        ctx.inconclusive += 1
        bs = ctx.extra.setdefault("budget_samples", [])
        if len(bs) < 3:
            bs.append({"t": rep["now"], "threads": [(t["name"], t["state"], t["label"]) for t in rep["threads"] if t["state"] != "done"], "scenario": _brief(sc)})
        return
    died = bool(L.died(rep))
    if died:
        # the thread death itself is C05's; what each side *reports* (outcome flags, terminal notifications) is still checked
        ctx.exclude("thread-died(C05): only outcome uniqueness checked")
    stuck = [t for t in L.pynetdicom_threads(rep) if t["state"] != "done"]
    if stuck and not died:
        who = "+".join(sorted({f"{t['kind']}@{t['label']}" for t in stuck}))
        ctx.fail("never-ends", who, f"threads left at quiescence t={rep['now']}: {[(t['name'], t['state'], t['label']) for t in stuck]}; scenario {_brief(sc)}")
        return
    accs = out["acc_assocs"]
    if req.get("assoc") is None or len(accs) == 0:
        ctx.cls("no-association")
        return
    a = accs[0]
    sides = {"requestor": (req, req["_rec"], 0), "acceptor": (a, out["_rec_acc"], 0)}
    for name, (s, rec, key) in sides.items():
        o = s["outcome"]
        n_term = [e[2] for e in rec.events if e[1] == key and e[2] in TERMINAL]
        sites = [str(e[3]) for e in rec.events if e[1] == key and e[2] in TERMINAL]  # which pynetdicom function fired each one
        if len(o) > 1:
            ctx.fail("multiple-outcomes", f"{name}:{'+'.join(o)}" + (":dul-died" if died else ""), f"{name} reports {o} (terminal notifications {list(zip(n_term, sites))}); scenario {_brief(sc)}")
            return
        if len(n_term) > 1:
            acse = [e[3] for e in rec.events if e[1] == key and e[2] == "EVT_ACSE_SENT"]
            when = "during-own-release" if "A_RELEASE" in acse else "no-own-release"
            kinds = sorted(set(n_term))
            label = f"{kinds[0]}-repeated" if len(kinds) == 1 else "+".join(kinds)
            # every call site guards its own notification, so on the listed findings each site appears once; the same site firing twice is a
            # different defect (its guard is broken) and gets its own key
            twice = sorted({st_ for st_ in sites if sites.count(st_) > 1})
            ctx.fail("terminal-event-count", f"{name}:{label}:{when}" + "".join(f":twice-from:{t}" for t in twice) + (":dul-died" if died else ""), f"{name} fired terminal events {n_term} from {sites}; outcome {o}; scenario {_brief(sc)}")
            return
        if died:
            continue
        if len(o) == 1 and len(n_term) == 0:
            ctx.fail("terminal-event-count", f"{name}:none:{o[0]}", f"{name} ended {o} without a terminal event; scenario {_brief(sc)}")
            return
        if s["established"]:
            ctx.fail("still-established", name, f"{name} still is_established at the end (outcome {o})")
            return
        if not s["sock_closed"]:
            first = [e[3] for e in rec.events if e[1] == key and e[2] == "EVT_FSM_TRANSITION"]
            why = "killed-during-first-action" if (s.get("state") in ("Sta2", "Sta4") and len(first) <= 1) else f"state={s.get('state')}"
            ctx.fail("socket-open", f"{name}:{why}", f"{name} socket still open; outcome {o}; scenario {_brief(sc)}")
            return
    if died:
        return
    ro, ao = req["outcome"], a["outcome"]
    if not ro and not ao:
        ctx.cls("no-outcome-both")
        return
    # the requestor may never have got an association (connection closed during negotiation counts as aborted there)
    pair = (ro[0] if ro else "none", ao[0] if ao else "none")
    ok = pair in {("released", "released"), ("aborted", "aborted"), ("rejected", "rejected")}
    # a side that never got an established association (aborted/closed during negotiation) may have no outcome flag at all
    for mine, (s_, rec, key) in (("requestor", sides["requestor"]), ("acceptor", sides["acceptor"])):
        never_est = not any(e[1] == key and e[2] == "EVT_ESTABLISHED" for e in rec.events)
        other = pair[1] if mine == "requestor" else pair[0]
        me = pair[0] if mine == "requestor" else pair[1]
        if me == "none" and never_est and other in ("aborted", "none"):
            ok = True
    if not ok:
        cause = "other"
        for name, (s_, rec, key) in sides.items():
            if s_["outcome"] == ["aborted"]:
                acse = [e[3] for e in rec.events if e[1] == key and e[2] == "EVT_ACSE_SENT"]
                if "A_RELEASE" in acse and acse[-1] == "A_ABORT" and acse.index("A_RELEASE") < len(acse) - 1:
                    cause = f"{name}-release-request-timed-out"
        ctx.fail("outcome-mismatch", f"req={pair[0]}:acc={pair[1]}:{cause}", f"requestor ended {ro}, acceptor ended {ao}; steps={req['steps']}; scenario {_brief(sc)}")
        return
    to = sc["timeouts"]
    bound = L.time_bound(sc)
    last = max([e[0] for rec in (req["_rec"], out["_rec_acc"]) for e in rec.events] or [0.0])
    if last > bound:
        ctx.fail("too-slow", "bound", f"association took {last} virtual seconds (> {bound}); scenario {_brief(sc)}")


def _brief(sc):
    return {"acc": {k: v for k, v in sc["acceptor"].items() if k != "kind"}, "req": sc["requestors"][0], "timeouts": sc["timeouts"], "schedule": sc["schedule"]}


CHECKS = {"pair": check_pair, "pair-at-notification": check_pair, "pair-idle-release": check_pair}  # the alias gives the second family its own Hypothesis seed


def run(ctx):
    from hypothesis import strategies as st

    pair, _, _ = L.strategies()
    t_opt = st.one_of(st.none(), st.sampled_from([0.0, 0.1, 0.25, 0.3, 0.6, 1.0, 2.0]))

    @st.composite
    def with_release(draw):
        sc = draw(pair)
        sc = dict(sc)
        acc = dict(sc["acceptor"])
        if draw(st.booleans()):
            acc["release_at"] = draw(t_opt)
            acc["shutdown_at"] = None if draw(st.booleans()) else acc.get("shutdown_at")
        sc["acceptor"] = acc
        return sc

    ctx.hyp("pair", with_release(), 150 if ctx.quick else 1500)

    # races at a terminal moment, one at a time on an otherwise undisturbed association: abort() from another thread exactly while
    # a given notification of that side is being delivered (established / accepted / released / aborted / first DIMSE), the association
    # ended by either side with release or abort
    @st.composite
    def at_notification(draw):
        sc = dict(draw(pair))
        quiet = {"echo": {"delay": 0, "do": None}, "store": {"delay": 0, "do": None}, "find": {"n": 1, "delay": 0, "do": None, "do_at": 0}}
        side = draw(st.sampled_from(["acceptor", "requestor"]))
        ev = draw(st.sampled_from(["EVT_RELEASED", "EVT_RELEASED", "EVT_ABORTED", "EVT_ESTABLISHED", "EVT_ACCEPTED", "EVT_DIMSE_RECV", "EVT_ACSE_RECV"]))
        ops = draw(st.lists(st.sampled_from([["echo"], ["find"], ["store", 10]]), max_size=2))
        end = draw(st.sampled_from([["release"], ["release"], ["abort"], ["idle"]]))
        acc = {"kind": "pynetdicom", "handlers": quiet, "shutdown_at": None, "abort_on": ev if side == "acceptor" else None}
        if end == ["idle"]:
            acc["release_at"] = draw(st.sampled_from([0.5, 1.0]))
        sc["acceptor"] = acc
        sc["requestors"] = [{"kind": "pynetdicom", "script": [["associate"]] + ops + [end], "abort_at": None, "abort_on": ev if side == "requestor" else None}]
        return sc

    ctx.hyp("pair-at-notification", at_notification(), 60 if ctx.quick else 600)

    # the network timeout answered with A-RELEASE instead of A-ABORT (Association.network_timeout_response) on one side, and that side's user
    # (requestor script / server-side thread) releasing or aborting around the moment the idle timer runs out
    @st.composite
    def idle_release(draw):
        sc = dict(draw(pair))
        quiet = {"echo": {"delay": 0, "do": None}, "store": {"delay": 0, "do": None}, "find": {"n": 1, "delay": 0, "do": None, "do_at": 0}}
        net = draw(st.sampled_from([2, 4]))
        sc["timeouts"] = {"acse": 2, "dimse": 2, "network": net, "connection": 2}
        side = draw(st.sampled_from(["requestor", "requestor", "acceptor"]))
        when = round(net + draw(st.sampled_from([-0.3, -0.2, -0.1, 0.0, 0.1, 0.2, 0.3])), 2)
        end = draw(st.sampled_from([["release"], ["release"], ["abort"], ["idle"]]))
        ops = draw(st.lists(st.sampled_from([["echo"], ["find"]]), max_size=1))
        acc = {"kind": "pynetdicom", "handlers": quiet, "shutdown_at": None, "abort_on": None}
        rq = {"kind": "pynetdicom", "abort_at": None, "abort_on": None}
        if side == "requestor":
            rq["nt_response"] = "A-RELEASE"
            rq["script"] = [["associate"]] + ops + [["sleep", when], end]
        else:
            acc["nt_response"] = "A-RELEASE"
            acc["release_at"] = round(when + 0.6, 2)  # association established around t = 0.4..0.6
            rq["script"] = [["associate"]] + ops + [["idle"]]
        sc["acceptor"], sc["requestors"] = acc, [rq]
        return sc

    ctx.hyp("pair-idle-release", idle_release(), 40 if ctx.quick else 400)
