"""Reference bookkeeping for C-GET / C-MOVE sub-operations (C22) and C-CANCEL visibility (C23).

Written from PS3.4 C.4.2 / C.4.3 (SCP behaviour: "Remaining ... Completed, Failed, Warning sub-operations", final
status Success / Warning / Failure-Refused rule) and the documented status tables in
docs/service_classes/{storage,query_retrieve}_service_class.rst.  Nothing is imported from pynetdicom.
"""
from __future__ import annotations

SUCCESS, WARNING, FAILURE, CANCEL, PENDING = "success", "warning", "failure", "cancel", "pending"


def storage_category(code):
    """Category of a C-STORE response status as documented for the Storage service; None = not documented
    there (the retrieve SCP must still account for the sub-operation, in exactly one counter)."""
    if code == 0x0000:
        return SUCCESS
    if code in (0xB000, 0xB006, 0xB007):
        return WARNING
    if 0xA700 <= code <= 0xA7FF or 0xA900 <= code <= 0xA9FF or 0xC000 <= code <= 0xCFFF:
        return FAILURE
    if code in (0x0117, 0x0122, 0x0124, 0x0210, 0x0211, 0x0212):
        return FAILURE
    return None


def retrieve_category(svc, code):
    """Category of a status a C-GET / C-MOVE handler may yield (documented tables); None = not documented."""
    if not isinstance(code, int) or isinstance(code, bool):
        return None
    if code == 0x0000:
        return SUCCESS
    if code == 0xFF00:
        return PENDING
    if code == 0xFE00:
        return CANCEL
    if code == 0xB000:
        return WARNING
    if code in (0xA701, 0xA702, 0xA900, 0xAA00, 0xAA01, 0xAA02, 0xAA03, 0xAA04) or 0xC000 <= code <= 0xCFFF:
        return FAILURE
    if code in (0x0122, 0x0124, 0x0210, 0x0212) or (svc == "move" and code in (0xA801, 0x0211)):
        return FAILURE
    return None


class SubopModel:
    """remaining/failed/warning/completed for N announced sub-operations, plus the failed instance list."""

    def __init__(self, n):
        self.n = n
        self.r, self.f, self.w, self.c = n, 0, 0, 0
        self.failed_uids = []
        self.invalid = 0  # invalid objects counted as failed (they have no SOP Instance UID)

    @property
    def counters(self):
        return (self.r, self.f, self.w, self.c)

    def account(self, category, uid=None, invalid=False):
        """One announced sub-operation ends in `category`."""
        assert self.r > 0
        self.r -= 1
        if category == FAILURE:
            self.f += 1
            if invalid:
                self.invalid += 1
            elif uid is not None:
                self.failed_uids.append(uid)
        elif category == WARNING:
            self.w += 1
        elif category == SUCCESS:
            self.c += 1
        else:
            raise ValueError(category)

    def final_status(self):
        """The status the SCP itself has to choose (PS3.4 C.4.2.3.1 / C.4.3.3.1)."""
        if self.f == 0 and self.w == 0:
            return 0x0000
        if self.f == self.n:
            return 0xA702
        return 0xB000


class _CancelOp:
    """Bookkeeping for one operation that is in progress (C23)."""

    def __init__(self, key, msg_id):
        self.key, self.msg_id = key, msg_id
        self.served = False  # the service class has started running it
        self.behind = False  # its request was received while ANOTHER operation was being served (pipelined peer)
        self.counts = False  # 'in progress' in the sense of the rule (cancels naming it are for it)
        self.matching_arrived = False  # a cancel naming the operation arrived while it was in progress
        self.reported = False  # is_cancelled has already been True for it
        self.unreported = []  # [window, distinct IDs pending before it arrived, a later request was received since]
        self.others_during = 0
        self.stale_same_id = False
        self.pending = set()  # distinct IDs received while the service class runs it and not reported (label only)
        self.max_pending = 0
        self.polls = 0
        self.polled_before_match = False
        self.ambiguous = False  # a cancel named this and another in-progress operation with the same ID: unconstrained
        self.request_received_while_pending = False  # label: a later request arrived while a matching cancel was unreported


class CancelModel:
    """Which C-CANCELs an operation's handler must / must not see (C23).

    Fed with the recorded history.  Several operations can be in progress at once (a pipelining peer: the request of
    the next operation is received while the current one is still being served):

        receive(key, msg_id)   the DIMSE provider has completely received the operation's request
        serve(key)             the request is dispatched to the service class (at most one operation is served at a time)
        cancel(id)             a C-CANCEL naming `id` has been received   -> "matching" | "other" (label)
        expect_poll(key) / polled(key, result)
        end(key)               _serve_request returned

    rule "receipt" (the stated assumption of props/c23.py): an operation is in progress from receive() to end(), so a
    cancel naming its ID that arrives after its request - also while an earlier operation is still being served - is
    for it; everything that arrived before receive() is stale.
    rule "served": an operation is in progress from serve() to end(); cancels that arrive earlier are stale.

    The sequential interface of the first version (start / cancel(id, window) / expect_poll() / polled(r) / end()) is
    kept: start() = receive(), the current operation is the most recently received one.
    window labels (derived here, not trusted from the caller): "queued" = received, nothing being served;
    "queued-behind" = received while another operation is being served; "during" = being served."""

    def __init__(self, rule="receipt"):
        assert rule in ("receipt", "served")
        self.rule = rule
        self.ops = {}  # key -> _CancelOp for every operation received and not ended (insertion order)
        self.serving = None
        self.seen = set()  # IDs of every cancel received so far
        self._auto = 0
        self._last = None

    # ---- events
    def receive(self, key, msg_id):
        o = _CancelOp(key, msg_id)
        o.behind = self.serving is not None
        self.ops[key] = o
        self._last = key
        if self.rule == "receipt":
            self._begin(o)
        # label: an operation in progress still has an unreported matching cancel when this (later) request comes in
        for cur in self.ops.values():
            if cur is o:
                continue
            for u in cur.unreported:
                u[2] = True
            if cur.unreported:
                cur.request_received_while_pending = True
        return o

    def _begin(self, o):
        o.counts = True
        o.stale_same_id = o.msg_id in self.seen

    def serve(self, key):
        o = self.ops[key]
        o.served = True
        self.serving = key
        if self.rule == "served":
            self._begin(o)

    def end(self, key=None):
        key = self._last if key is None else key
        self.ops.pop(key, None)
        if self.serving == key:
            self.serving = None
        if self._last == key:
            self._last = next(reversed(self.ops), None) if self.ops else None

    def cancel(self, msg_id, window=None):
        named = [o for o in self.ops.values() if o.counts and o.msg_id == msg_id]
        for o in self.ops.values():
            if not o.counts:
                continue
            w = "during" if o.key == self.serving else ("queued-behind" if self.serving is not None else "queued")
            before = len(o.pending)
            if w == "during":
                o.pending.add(msg_id)
                o.max_pending = max(o.max_pending, len(o.pending))
            if o.msg_id == msg_id:
                if len(named) > 1:
                    o.ambiguous = True
                o.matching_arrived = True
                o.unreported.append([w, before, False])
                if o.polls:
                    o.polled_before_match = True
            else:
                o.others_during += 1
        self.seen.add(msg_id)
        return "matching" if named else "other"

    def expect_poll(self, key=None):
        """-> True (must report), False (must not report) or None (unconstrained: already reported once / ambiguous)."""
        o = self.ops[self._last if key is None else key]
        if o.ambiguous:
            return None
        if not o.matching_arrived:
            return False
        if not o.reported:
            return True
        return None

    def polled(self, *args):
        key, result = (self._last, args[0]) if len(args) == 1 else args
        o = self.ops[key]
        o.polls += 1
        if result:
            o.reported = True
            o.unreported = []
            o.pending.discard(o.msg_id)

    def op(self, key=None):
        return self.ops[self._last if key is None else key]

    def miss_cause(self, key=None):
        """Structural label for a matching cancel that was not reported."""
        o = self.op(key)
        during = [u for u in o.unreported if u[0] == "during"]
        if o.unreported and all(u[2] for u in o.unreported):
            return "in-progress:later-request-received-before-poll"
        if not during:
            if any(u[0] == "queued-behind" for u in o.unreported):
                return "received-before-dispatch:behind-running-operation"
            return "received-before-dispatch"
        if all(u[1] >= 10 for u in during):
            return "in-progress:>=10-other-cancels-pending"
        return "in-progress:<10-cancels-pending"

    def describe(self, key=None):
        return ", ".join(f"{w} with {b} distinct cancel IDs pending" + (", a later request received since" if r else "") for w, b, r in self.op(key).unreported)

    # ---- sequential interface (one operation at a time)
    def start(self, msg_id):
        self._auto += 1
        self.receive(("seq", self._auto), msg_id)

    @property
    def in_progress(self):
        return None if self._last is None else self.ops[self._last].msg_id

    def __getattr__(self, name):
        # matching_arrived, others_during, stale_same_id, max_pending, polled_before_match ... of the current operation
        if name.startswith("_") or name in ("ops", "rule", "serving", "seen"):
            raise AttributeError(name)
        last = self.__dict__.get("_last")
        if last is None:
            raise AttributeError(name)
        return getattr(self.ops[last], name)
