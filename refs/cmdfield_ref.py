"""cmdfield_ref - independent reference for DIMSE command sets (PS3.7).

Written from the standard, not from pynetdicom's `_COMMAND_SET_KEYWORDS` / `_MESSAGE_TYPES`:

* `ELEMENTS`   - the command dictionary, PS3.7 Table E.1-1 (tag, VR, VM) for the 24 fields the 23 messages use;
* `MESSAGES`   - per message kind: Command Field value (E.1-1 "Command Field" defined terms), and which parameters
                 the message carries.  The parameter lists are the service parameter tables of PS3.7 9.1.x / 10.1.x
                 (usage M / U / C per direction) restricted to the fields of the message tables 9.3.x / 10.3.x, plus
                 the status-related fields of Annex C that a response of that service can carry;
* `read_elements` - a minimal Implicit VR Little Endian element reader (PS3.5 7.1.3) that does not use pydicom;
* `interpret`  - raw element values -> plain python values per VR with the padding PS3.5 6.2 declares
                 insignificant removed (UI trailing NUL, AE/LO leading+trailing SPACE).

Everything here is plain data / pure functions; no pynetdicom or pydicom import.
"""
from __future__ import annotations

import struct
from collections import namedtuple

# --------------------------------------------------------------------------- PS3.7 Table E.1-1 (command dictionary)
#   keyword: (tag, VR, multi-valued?)
ELEMENTS = {
    "CommandGroupLength": (0x00000000, "UL", False),
    "AffectedSOPClassUID": (0x00000002, "UI", False),
    "RequestedSOPClassUID": (0x00000003, "UI", False),
    "CommandField": (0x00000100, "US", False),
    "MessageID": (0x00000110, "US", False),
    "MessageIDBeingRespondedTo": (0x00000120, "US", False),
    "MoveDestination": (0x00000600, "AE", False),
    "Priority": (0x00000700, "US", False),
    "CommandDataSetType": (0x00000800, "US", False),
    "Status": (0x00000900, "US", False),
    "OffendingElement": (0x00000901, "AT", True),
    "ErrorComment": (0x00000902, "LO", False),
    "ErrorID": (0x00000903, "US", False),
    "AffectedSOPInstanceUID": (0x00001000, "UI", False),
    "RequestedSOPInstanceUID": (0x00001001, "UI", False),
    "EventTypeID": (0x00001002, "US", False),
    "AttributeIdentifierList": (0x00001005, "AT", True),
    "ActionTypeID": (0x00001008, "US", False),
    "NumberOfRemainingSuboperations": (0x00001020, "US", False),
    "NumberOfCompletedSuboperations": (0x00001021, "US", False),
    "NumberOfFailedSuboperations": (0x00001022, "US", False),
    "NumberOfWarningSuboperations": (0x00001023, "US", False),
    "MoveOriginatorApplicationEntityTitle": (0x00001030, "AE", False),
    "MoveOriginatorMessageID": (0x00001031, "US", False),
}
TAG_TO_KEYWORD = {v[0]: k for k, v in ELEMENTS.items()}
assert len(TAG_TO_KEYWORD) == len(ELEMENTS)

# fields every message carries and that are not service parameters
STRUCTURAL = ("CommandGroupLength", "CommandField", "CommandDataSetType")

NO_DATA_SET = 0x0101  # PS3.7 E.1-1 Command Data Set Type: 0101H = no data set; any other value = data set present

# Status-related fields a response may carry (PS3.7 Annex C: each status lists "optional/related fields")
ANNEX_C_FIELDS = (
    "AffectedSOPClassUID",
    "AffectedSOPInstanceUID",
    "OffendingElement",
    "ErrorComment",
    "ErrorID",
    "AttributeIdentifierList",
    "EventTypeID",
    "ActionTypeID",
)

Msg = namedtuple("Msg", "kind service direction field mandatory optional dataset")
#   mandatory : parameters with usage M for that direction (always in the message)
#   optional  : usage U / C parameters and the status-related fields defined for that service's responses
#   dataset   : (parameter name, usage) of the data-set-like parameter conveyed in the Data Set, or None

_SUBOPS = (
    "NumberOfRemainingSuboperations",
    "NumberOfCompletedSuboperations",
    "NumberOfFailedSuboperations",
    "NumberOfWarningSuboperations",
)


def _m(kind, field, mandatory, optional=(), dataset=None):
    service, _, d = kind.rpartition("-")
    return Msg(kind, service, "rq" if d == "RQ" else "rsp", field, tuple(mandatory), tuple(optional), dataset)


_RSP = ("MessageIDBeingRespondedTo", "Status")

MESSAGES = {
    m.kind: m
    for m in [
        # ---- DIMSE-C (PS3.7 9.1.1-9.1.5, 9.3.1-9.3.5; command fields E.1-1)
        _m("C-STORE-RQ", 0x0001, ("AffectedSOPClassUID", "MessageID", "Priority", "AffectedSOPInstanceUID"),
           ("MoveOriginatorApplicationEntityTitle", "MoveOriginatorMessageID"), ("DataSet", "M")),
        _m("C-STORE-RSP", 0x8001, _RSP, ("AffectedSOPClassUID", "AffectedSOPInstanceUID", "OffendingElement", "ErrorComment")),
        _m("C-GET-RQ", 0x0010, ("AffectedSOPClassUID", "MessageID", "Priority"), (), ("Identifier", "M")),
        _m("C-GET-RSP", 0x8010, _RSP, ("AffectedSOPClassUID",) + _SUBOPS + ("OffendingElement", "ErrorComment"), ("Identifier", "U")),
        _m("C-FIND-RQ", 0x0020, ("AffectedSOPClassUID", "MessageID", "Priority"), (), ("Identifier", "M")),
        _m("C-FIND-RSP", 0x8020, _RSP, ("AffectedSOPClassUID", "OffendingElement", "ErrorComment"), ("Identifier", "C")),
        _m("C-MOVE-RQ", 0x0021, ("AffectedSOPClassUID", "MessageID", "Priority", "MoveDestination"), (), ("Identifier", "M")),
        _m("C-MOVE-RSP", 0x8021, _RSP, ("AffectedSOPClassUID",) + _SUBOPS + ("OffendingElement", "ErrorComment"), ("Identifier", "U")),
        _m("C-ECHO-RQ", 0x0030, ("AffectedSOPClassUID", "MessageID")),
        _m("C-ECHO-RSP", 0x8030, _RSP, ("AffectedSOPClassUID", "ErrorComment")),
        _m("C-CANCEL-RQ", 0x0FFF, ("MessageIDBeingRespondedTo",)),
        # ---- DIMSE-N (PS3.7 10.1.1-10.1.6, 10.3.1-10.3.6)
        _m("N-EVENT-REPORT-RQ", 0x0100, ("AffectedSOPClassUID", "MessageID", "AffectedSOPInstanceUID", "EventTypeID"), (),
           ("EventInformation", "U")),
        _m("N-EVENT-REPORT-RSP", 0x8100, _RSP, ("AffectedSOPClassUID", "AffectedSOPInstanceUID", "EventTypeID", "ErrorComment", "ErrorID"),
           ("EventReply", "C")),
        _m("N-GET-RQ", 0x0110, ("RequestedSOPClassUID", "MessageID", "RequestedSOPInstanceUID"), ("AttributeIdentifierList",)),
        _m("N-GET-RSP", 0x8110, _RSP,
           ("AffectedSOPClassUID", "AffectedSOPInstanceUID", "AttributeIdentifierList", "ErrorComment", "ErrorID"), ("AttributeList", "C")),
        _m("N-SET-RQ", 0x0120, ("RequestedSOPClassUID", "MessageID", "RequestedSOPInstanceUID"), (), ("ModificationList", "M")),
        _m("N-SET-RSP", 0x8120, _RSP,
           ("AffectedSOPClassUID", "AffectedSOPInstanceUID", "AttributeIdentifierList", "ErrorComment", "ErrorID"), ("AttributeList", "U")),
        _m("N-ACTION-RQ", 0x0130, ("RequestedSOPClassUID", "MessageID", "RequestedSOPInstanceUID", "ActionTypeID"), (),
           ("ActionInformation", "U")),
        _m("N-ACTION-RSP", 0x8130, _RSP, ("AffectedSOPClassUID", "AffectedSOPInstanceUID", "ActionTypeID", "ErrorComment", "ErrorID"),
           ("ActionReply", "C")),
        _m("N-CREATE-RQ", 0x0140, ("AffectedSOPClassUID", "MessageID"), ("AffectedSOPInstanceUID",), ("AttributeList", "U")),
        _m("N-CREATE-RSP", 0x8140, _RSP, ("AffectedSOPClassUID", "AffectedSOPInstanceUID", "ErrorComment", "ErrorID"), ("AttributeList", "U")),
        _m("N-DELETE-RQ", 0x0150, ("RequestedSOPClassUID", "MessageID", "RequestedSOPInstanceUID")),
        _m("N-DELETE-RSP", 0x8150, _RSP, ("AffectedSOPClassUID", "AffectedSOPInstanceUID", "ErrorComment", "ErrorID")),
    ]
}
KINDS = tuple(MESSAGES)
assert len(KINDS) == 23
assert len({m.field for m in MESSAGES.values()}) == 23
# E.1-1: a response's command field is the request's with bit 15 set (C-CANCEL has no response)
for _k, _v in MESSAGES.items():
    if _v.direction == "rsp":
        assert MESSAGES[_v.service + "-RQ"].field | 0x8000 == _v.field, _k
FIELD_TO_KIND = {m.field: m.kind for m in MESSAGES.values()}


def transmitted(kind):
    """Service parameters (keywords) the message of this kind can carry in its command set."""
    m = MESSAGES[kind]
    return m.mandatory + m.optional


def allowed_keywords(kind):
    """Every command element keyword that may legitimately appear in a message of this kind."""
    m = MESSAGES[kind]
    out = set(STRUCTURAL) | set(m.mandatory) | set(m.optional)
    if m.direction == "rsp":
        out |= set(ANNEX_C_FIELDS)
    return out


# --------------------------------------------------------------------------- Implicit VR Little Endian reader
class Malformed(Exception):
    pass


def read_elements(b):
    """bytes of a data set in Implicit VR Little Endian -> [(tag:int, value:bytes, offset_after_value:int)].

    PS3.5 7.1.3: group (2, LE) element (2, LE) value length (4, LE) value.  Undefined length and anything that does
    not end exactly at the end of `b` is Malformed (command sets contain no sequences)."""
    out = []
    o, n = 0, len(b)
    while o < n:
        if n - o < 8:
            raise Malformed(f"truncated element header at offset {o}")
        g, e, ln = struct.unpack_from("<HHL", b, o)
        o += 8
        if ln == 0xFFFFFFFF:
            raise Malformed(f"undefined length at offset {o - 8}")
        if n - o < ln:
            raise Malformed(f"element ({g:04x},{e:04x}) length {ln} exceeds remaining {n - o}")
        out.append(((g << 16) | e, bytes(b[o : o + ln]), o + ln))
        o += ln
    return out


def interpret(tag, raw):
    """Raw value bytes of a command element -> plain value (None for a zero-length value).

    US/UL -> int, UI -> str without trailing NUL padding, AE/LO -> str without leading/trailing spaces,
    AT -> list of ints (group<<16 | element). Raises Malformed on a length that does not fit the VR."""
    kw = TAG_TO_KEYWORD.get(tag)
    if kw is None:
        raise Malformed(f"tag {tag:08x} is not in PS3.7 E.1-1")
    _, vr, multi = ELEMENTS[kw]
    if len(raw) == 0:
        return [] if multi else None
    if vr == "US":
        if len(raw) != 2:
            raise Malformed(f"{kw}: US with VM 1 must be 2 bytes, got {len(raw)}")
        return struct.unpack("<H", raw)[0]
    if vr == "UL":
        if len(raw) != 4:
            raise Malformed(f"{kw}: UL with VM 1 must be 4 bytes, got {len(raw)}")
        return struct.unpack("<L", raw)[0]
    if vr == "AT":
        if len(raw) % 4:
            raise Malformed(f"{kw}: AT length {len(raw)} not a multiple of 4")
        vals = struct.unpack("<" + "H" * (len(raw) // 2), raw)
        return [(vals[i] << 16) | vals[i + 1] for i in range(0, len(vals), 2)]
    try:
        s = raw.decode("ascii")
    except UnicodeDecodeError:
        raise Malformed(f"{kw}: non-ASCII bytes in {vr}")
    if vr == "UI":
        return s.rstrip("\x00")
    return s.strip(" ")  # AE, LO


def parse_command_set(b):
    """-> dict keyword -> interpreted value, plus structural facts, for an encoded command set.

    Returns (values, facts) with facts = {"tags": [...], "sorted": bool, "even": bool, "group0": bool,
    "group_length_value": int|None, "group_length_measured": int|None}."""
    els = read_elements(b)
    tags = [t for t, _, _ in els]
    values = {}
    for t, raw, _ in els:
        kw = TAG_TO_KEYWORD.get(t)
        if kw is not None:
            values[kw] = interpret(t, raw)
    facts = {
        "tags": tags,
        "sorted": all(a < b_ for a, b_ in zip(tags, tags[1:])),
        "even": all(len(raw) % 2 == 0 for _, raw, _ in els),
        "group0": all(t >> 16 == 0 for t in tags),
        "unknown": [t for t in tags if t not in TAG_TO_KEYWORD],
        "group_length_value": None,
        "group_length_measured": None,
    }
    if els and els[0][0] == 0:
        facts["group_length_value"] = values.get("CommandGroupLength")
        # PS3.7 E.1-1: number of bytes from the end of the value field of (0000,0000) to the beginning of the next group
        end_of_gl = els[0][2]
        end_of_group0 = end_of_gl
        for t, _, end in els:
            if t >> 16 == 0:
                end_of_group0 = end
        facts["group_length_measured"] = end_of_group0 - end_of_gl
    return values, facts


# --------------------------------------------------------------------------- value normalisation shared by checks
def norm_value(keyword, v):
    """Normal form of a parameter value for comparisons: padding PS3.5 calls insignificant removed;
    'no value' (None, '', []) unified; AT values always a list of ints."""
    _, vr, multi = ELEMENTS[keyword]
    if multi:
        if v is None:
            return []
        if not isinstance(v, (str, bytes, int)) and hasattr(v, "__iter__"):  # list, tuple, pydicom MultiValue
            return [int(x) for x in v]
        return [int(v)]
    if v is None:
        return None
    if vr in ("US", "UL"):
        return int(v)
    s = str(v)
    if vr == "UI":
        s = s.rstrip("\x00")
    else:
        s = s.strip(" ")
    return s or None
