"""Plain-data <-> JSON helpers. Cases are dict/list/int/str/bool/None/bytes/registered dataclasses.

bytes -> {"$b": hex}; registered dataclass -> {"$dc": name, ...fields}; tuples become lists (check functions
must accept lists where they generate tuples)."""
import dataclasses
import json

_REG = {}


def register(cls):
    _REG[cls.__name__] = cls
    return cls


def to_plain(o):
    if o is None or isinstance(o, (bool, int, float, str)):
        return o
    if isinstance(o, (bytes, bytearray)):
        return {"$b": bytes(o).hex()}
    if isinstance(o, (list, tuple)):
        return [to_plain(x) for x in o]
    if isinstance(o, (set, frozenset)):
        return sorted((to_plain(x) for x in o), key=lambda x: json.dumps(x, sort_keys=True))
    if isinstance(o, dict):
        return {str(k): to_plain(v) for k, v in o.items()}
    if dataclasses.is_dataclass(o):
        d = {"$dc": type(o).__name__}
        for f in dataclasses.fields(o):
            d[f.name] = to_plain(getattr(o, f.name))
        return d
    return {"$repr": repr(o)[:500]}


def from_plain(o):
    if isinstance(o, list):
        return [from_plain(x) for x in o]
    if isinstance(o, dict):
        if "$b" in o and len(o) == 1:
            return bytes.fromhex(o["$b"])
        if "$dc" in o:
            cls = _REG[o["$dc"]]
            return cls(**{k: from_plain(v) for k, v in o.items() if k != "$dc"})
        return {k: from_plain(v) for k, v in o.items()}
    return o


def dumps(o):
    return json.dumps(to_plain(o), sort_keys=True, separators=(",", ":"))
