"""Reference model of the DICOM Upper Layer state machine, written from PS3.8 Table 9-10 (transitions, in rule
form per event) and Tables 9-6..9-9 (action effects). Independent of pynetdicom.fsm.TRANSITION_TABLE.
"""

STATES = [f"Sta{i}" for i in range(1, 14)]
EVENTS = [f"Evt{i}" for i in range(1, 20)]
ASSOC_STATES = ["Sta3"] + [f"Sta{i}" for i in range(5, 13)]  # states in which an association (or its setup) exists
DATA_STATES = [f"Sta{i}" for i in range(5, 13)]


def _rule(**special):
    """special: state -> action; returns dict state->action."""
    return {f"Sta{k[1:]}": v for k, v in special.items()}


def _with_default(default_states, default, **special):
    d = {s: default for s in default_states}
    d.update(_rule(**special))
    return d


# Table 9-10, one rule per event (row). Key: state, value: action.
TABLE = {
    # local user: A-ASSOCIATE request
    "Evt1": _rule(s1="AE-1"),
    # transport connect confirmation
    "Evt2": _rule(s4="AE-2"),
    # A-ASSOCIATE-AC PDU: expected only in Sta5; Sta2 -> AA-1; Sta13 -> AA-6; any other association state -> AA-8
    "Evt3": _with_default(ASSOC_STATES, "AA-8", s2="AA-1", s5="AE-3", s13="AA-6"),
    "Evt4": _with_default(ASSOC_STATES, "AA-8", s2="AA-1", s5="AE-4", s13="AA-6"),
    # transport connection indication
    "Evt5": _rule(s1="AE-5"),
    # A-ASSOCIATE-RQ PDU
    "Evt6": _with_default(ASSOC_STATES, "AA-8", s2="AE-6", s13="AA-7"),
    # local A-ASSOCIATE response accept / reject
    "Evt7": _rule(s3="AE-7"),
    "Evt8": _rule(s3="AE-8"),
    # local P-DATA request
    "Evt9": _rule(s6="DT-1", s8="AR-7"),
    # P-DATA-TF PDU
    "Evt10": _with_default(ASSOC_STATES, "AA-8", s2="AA-1", s6="DT-2", s7="AR-6", s13="AA-6"),
    # local A-RELEASE request
    "Evt11": _rule(s6="AR-1"),
    # A-RELEASE-RQ PDU
    "Evt12": _with_default(ASSOC_STATES, "AA-8", s2="AA-1", s6="AR-2", s7="AR-8", s13="AA-6"),
    # A-RELEASE-RP PDU
    "Evt13": _with_default(ASSOC_STATES, "AA-8", s2="AA-1", s7="AR-3", s10="AR-10", s11="AR-3", s13="AA-6"),
    # local A-RELEASE response
    "Evt14": _rule(s8="AR-4", s9="AR-9", s12="AR-4"),
    # local A-ABORT request
    "Evt15": _with_default(ASSOC_STATES, "AA-1", s4="AA-2"),
    # A-ABORT PDU
    "Evt16": _with_default(ASSOC_STATES, "AA-3", s2="AA-2", s13="AA-2"),
    # transport connection closed
    "Evt17": _with_default(ASSOC_STATES, "AA-4", s2="AA-5", s4="AA-4", s13="AR-5"),
    # ARTIM expired
    "Evt18": _rule(s2="AA-2", s13="AA-2"),
    # unrecognised / invalid PDU
    "Evt19": _with_default(ASSOC_STATES, "AA-8", s2="AA-1", s13="AA-7"),
}

# Tables 9-6..9-9. next: state (or callable role/acceptable -> state)
#  send: PDU kind put on the wire, ind: indication/confirmation to the user, artim: effect on the ARTIM timer
#  ('start' = running afterwards and (re)started, 'stop' = not running afterwards, None = untouched),
#  close: transport connection closed, connect: transport connect issued, pdata: P-DATA indication to DIMSE
ACTIONS = {
    "AE-1": dict(next="Sta4", connect=True),
    "AE-2": dict(next="Sta5", send="A-ASSOCIATE-RQ"),
    "AE-3": dict(next="Sta6", ind="A-ASSOCIATE-accept"),
    "AE-4": dict(next="Sta1", ind="A-ASSOCIATE-reject", close=True),
    "AE-5": dict(next="Sta2", artim="start"),
    "AE-6": dict(next=None),  # depends on acceptability, see expect()
    "AE-7": dict(next="Sta6", send="A-ASSOCIATE-AC"),
    "AE-8": dict(next="Sta13", send="A-ASSOCIATE-RJ", artim="start"),
    "DT-1": dict(next="Sta6", send="P-DATA-TF"),
    "DT-2": dict(next="Sta6", pdata=True),
    "AR-1": dict(next="Sta7", send="A-RELEASE-RQ"),
    "AR-2": dict(next="Sta8", ind="A-RELEASE-indication"),
    "AR-3": dict(next="Sta1", ind="A-RELEASE-confirmation", close=True),
    "AR-4": dict(next="Sta13", send="A-RELEASE-RP", artim="start"),
    "AR-5": dict(next="Sta1", artim="stop"),
    "AR-6": dict(next="Sta7", pdata=True),
    "AR-7": dict(next="Sta8", send="P-DATA-TF"),
    "AR-8": dict(next=None, ind="A-RELEASE-indication"),  # Sta9 requestor / Sta10 acceptor
    "AR-9": dict(next="Sta11", send="A-RELEASE-RP"),
    "AR-10": dict(next="Sta12", ind="A-RELEASE-confirmation"),
    "AA-1": dict(next="Sta13", send="A-ABORT", artim="start"),
    "AA-2": dict(next="Sta1", artim="stop", close=True),
    "AA-3": dict(next="Sta1", ind="abort-indication", close=True),
    "AA-4": dict(next="Sta1", ind="A-P-ABORT"),
    "AA-5": dict(next="Sta1", artim="stop"),
    "AA-6": dict(next="Sta13"),
    "AA-7": dict(next="Sta13", send="A-ABORT"),
    "AA-8": dict(next="Sta13", send="A-ABORT", ind="A-P-ABORT", artim="start"),
}


def action_for(state, event):
    return TABLE[event].get(state)


def defined_pairs():
    return [(s, e) for e in EVENTS for s in STATES if action_for(s, e)]


def expect(state, event, is_requestor, rq_acceptable=True):
    """-> None (pair not in Table 9-10) or dict(action, next, send, ind, artim, close, connect, pdata)."""
    a = action_for(state, event)
    if a is None:
        return None
    e = dict(action=a, send=None, ind=None, artim=None, close=False, connect=False, pdata=False)
    e.update(ACTIONS[a])
    if a == "AE-6":
        if rq_acceptable:
            e.update(next="Sta3", ind="A-ASSOCIATE-indication", artim="stop")
        else:
            e.update(next="Sta13", send="A-ASSOCIATE-RJ", artim="start")
    if a == "AR-8":
        e["next"] = "Sta9" if is_requestor else "Sta10"
    return e
