#!/bin/bash
# Whole repository suite, one pytest per test file, each in its own network namespace (private loopback, so the fixed
# ports do not collide), N in parallel; the start-up-time sensitive apps tests afterwards one at a time. Files with failures
# are re-run alone up to twice (the apps tests give their subprocess 0.5 s to start and fail under load): a test counts as
# failed only if it fails in every attempt. Deselected because they do not pass in this sandbox even on the pinned commit
# (not in BASELINE stable_pass / order dependent): test_ae.py::TestAEGoodAssociation::test_association_timeouts,
# ::test_connection_timeout, test_utils.py::TestSetUID::test_no_validation (passes only in whole-suite order).
# usage: repo_tests_all.sh <repo_dir> [parallelism] [all|core|apps]   -> exit 1 if any test failed in every attempt
REPO=${1:-/repo}; P=${2:-8}; MODE=${3:-all}   # MODE: all | core (pynetdicom/tests only) | apps
cd "$REPO" || exit 2
OUT=$(mktemp -d /var/tmp/repotests.XXXXXX)
DESEL="--deselect pynetdicom/tests/test_ae.py::TestAEGoodAssociation::test_association_timeouts --deselect pynetdicom/tests/test_ae.py::TestAEGoodAssociation::test_connection_timeout --deselect pynetdicom/tests/test_utils.py::TestSetUID::test_no_validation"

one() { # $1 = test file, $2 = attempt number
  local log="$OUT/$(echo "$1" | tr / ,).$2.log"
  unshare -rn bash -c "ip link set lo up; cd '$REPO'; /venv/bin/python -m pytest -q -p no:cacheprovider --timeout=900 $1 $DESEL" > "$log" 2>&1
  echo "$(tail -1 "$log") :: $1 (attempt $2)"
}
export -f one
export OUT REPO DESEL

[ "$MODE" != apps ] && find pynetdicom/tests -name 'test_*.py' | sort | xargs -P "$P" -I{} bash -c 'one {} 1'
[ "$MODE" != core ] && find pynetdicom/apps -name 'test_*.py' | sort | xargs -P 1 -I{} bash -c 'one {} 1'

for attempt in 2 3; do
  prev=$((attempt - 1))
  for log in "$OUT"/*."$prev".log; do
    if grep -q "^FAILED\|^ERROR" "$log"; then
      f=$(basename "$log" ."$prev".log | tr , /)
      one "$f" "$attempt"
    fi
  done
done

echo "---- tests failing in every attempt:"
n=0
for log1 in "$OUT"/*.1.log; do
  base=${log1%.1.log}
  for t in $(grep -h "^FAILED\|^ERROR" "$log1" | awk '{print $2}' | sort -u); do
    ok=0
    for a in 2 3; do
      if [ -f "$base.$a.log" ] && ! grep -q "^FAILED $t\|^ERROR $t" "$base.$a.log"; then ok=1; fi
    done
    if [ $ok -eq 0 ]; then echo "FAILED $t"; n=$((n + 1)); fi
  done
done
echo "total failed: $n (logs in $OUT)"
[ "$n" -eq 0 ]
