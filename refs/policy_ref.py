"""Reference acceptance policy for C13, written from the documentation of AE.require_calling_aet / require_called_aet and
evt.EVT_USER_ID: leading/trailing spaces of AE titles are not significant, everything else (case, embedded spaces) is; titles are
compared as whole strings (a prefix, suffix, fragment or superstring of an allowed title is a different title)."""


def decide(calling_field: bytes, called_field: bytes, own_title: str, require_calling, require_called, identity, handler):
    """-> (accept: bool, allowed_reject_codes: set of (result, source, reason)).

    calling_field/called_field: the 16 bytes of the A-ASSOCIATE-RQ; identity: None or a dict; handler: None (unbound) or
    {"verdict": <returned verdict; only a truthy one is positive>} or {"raises": <truthy: the handler raises>}; own_title: the acceptor's
    AE title as configured (padding not significant)."""
    calling = calling_field.decode("ascii").strip(" ")
    called = called_field.decode("ascii").strip(" ")
    failed = set()
    if require_calling and calling not in {r.strip(" ") for r in require_calling}:
        failed.add((1, 1, 3))  # rejected-permanent, service-user, calling-AE-title-not-recognized
    if require_called and called != own_title.strip(" "):
        failed.add((1, 1, 7))  # called-AE-title-not-recognized
    if identity is not None and handler is not None:
        if handler.get("raises") or not handler.get("verdict"):
            failed.add((2, 2, 1))  # rejected-transient, ACSE, no-reason-given (documented for a failed identity check)
    return (not failed), failed
