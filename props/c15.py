"""C15 - DIMSE fragmentation respects the peer's maximum length and reassembles exactly (pure PBT on E3 objects)."""
import os
import struct
from pathlib import Path

from engines import syncassoc as E
from refs import cmdfield_ref as C
from refs import dimse_gen as G
from vlib import sig
from vlib.core import HarnessError

LEVEL = "exploration"
RULE = (
    "A case = a DIMSE message description (any of the 23 kinds, refs/dimse_gen), a peer maximum length (0, 7, 8, 9, 16, 128, "
    "16382, 65536, 2^32-1, a random value 7..2^32-1, or chosen relative to the command-set length so that it divides into "
    "k fragments exactly / one byte more / one byte less), a data-set length given as k*f+d with f = max-6 (k 1..50, d -1/0/+1; "
    "or absolute 0..3000) filled with SHAKE-128 bytes, in memory (BytesIO) or file-backed (C-STORE request with "
    "_dataset_path=(file, offset)), the local role (requestor/acceptor; the peer's maximum is then acceptor/requestor "
    "maximum_length and the local one is set to a different value), and a regrouping pattern. The message is sent with the "
    "real DIMSEServiceProvider.send_msg of a thread-free Association whose dul.send_pdu records; every recorded P-DATA is "
    "wrapped in pynetdicom.pdu.P_DATA_TF, encoded, and the 4-byte PDU-length field read from the bytes. The PDVs are then "
    "regrouped into P-DATA primitives by the pattern and fed to a fresh DIMSEMessage.decode_msg and to the peer-role "
    "association's dimse.receive_primitive. Non-trivial = some part (command set or data set) is sent in >=2 fragments or "
    "its length is an exact multiple of the fragment size; distinct = distinct resolved (kind, max, command length, data "
    "length, storage, role, regrouping). A deterministic sweep additionally covers every data length 0..3f+1 for max 7, 8, 9, "
    "16, 38 in memory and file-backed."
)
ASSUMPTIONS = [
    "PS3.8 Annex D.1: the Maximum Length Received value bounds the length of the variable field of a P-DATA-TF PDU (the "
    "PDV items = the value of the PDU-length field); the 6-byte PDU header is not counted. Hence the asserted bound is "
    "PDU-length field <= max (total PDU bytes <= max + 6); 0 means unlimited",
    "maxima 1..6 and a missing maximum-length item (maximum_length None) are outside the property's domain (0 or >= 7)",
    "a zero-byte in-memory data set is C16's subject (CommandDataSetType says 'present' but no data fragment is sent): for "
    "it only the bound/order/marking clauses are asserted and the reassembly clauses are skipped (counted as excluded)",
    "file-backed sending exists only for C-STORE requests (Association.send_c_store sets _dataset_path=(path, offset) and "
    "DataSet=None); the check sets the private attribute the same way since there is no public setter",
    "receive side: decode_msg may be handed any grouping of the PDVs of one message into P-DATA primitives, in order; "
    "N-EVENT-REPORT requests are not pushed through receive_primitive (it starts a service thread)",
    "the command-set content is checked through refs/cmdfield_ref.py (see C17 assumptions)",
    "data-set size is capped (quick 300 kB, thorough 2 MB) and at 400 fragments per part",
]
SHARDS = {"quick": 1, "thorough": 16}
MIN_NONTRIVIAL = 50

U32 = 2**32 - 1
SOP = "1.2.840.10008.1.1"
TS = "1.2.840.10008.1.2"

_ASSOC = {}


def _assoc(role):
    if role not in _ASSOC:
        _ASSOC[role] = E.mk(role, [(SOP, TS, True, True)])
    a = _ASSOC[role]
    a.sent.clear()
    while not a.dimse.msg_queue.empty():
        a.dimse.msg_queue.get_nowait()
    a.dimse.cancel_req.clear()
    a.dimse.message = None
    return a


def expected_command_length(desc, has_ds):
    """Length of the command set per PS3.7 6.3.1 / PS3.5 7.1.3 computed from the description (used only to choose
    maxima that divide the command set exactly; the oracle itself never relies on it)."""
    n = 12 + 10 + 10  # group length, command field, data set type
    for kw, v in G.expected_params(desc).items():
        _, vr, multi = C.ELEMENTS[kw]
        if multi:
            ln = 4 * len(v)
        elif vr == "US":
            ln = 2
        else:
            raw = desc["params"][kw]
            ln = len(raw) + (len(raw) & 1)
        n += 8 + ln
    return n


def resolve(case, cap):
    """Spec -> concrete (max, data-set length or None)."""
    desc = case["desc"]
    m = C.MESSAGES[desc["kind"]]
    ds_spec = case.get("ds")
    has_ds = ds_spec is not None and (m.dataset is not None)
    ms = case["max"]
    if ms[0] == "abs":
        mx = ms[1]
    else:
        _, k, d = ms
        cl = expected_command_length(desc, has_ds)
        mx = max(7, -(-cl // k) + 6 + d)
    if mx != 0 and not (7 <= mx <= U32):
        raise HarnessError(f"generated maximum {mx} outside the domain")
    n = None
    if has_ds:
        f = mx - 6 if mx else 1000
        if ds_spec[0] == "abs":
            n = ds_spec[1]
        else:
            n = max(0, ds_spec[1] * f + ds_spec[2])
        n = min(n, cap) if case.get("nocap") else min(n, cap, 400 * f)
    return mx, n


def _pdu_length_field(pdata):
    """Wrap in the real P_DATA_TF, encode, and read the PDU-length field from the bytes (PS3.8 9.3.5)."""
    from pynetdicom.pdu import P_DATA_TF

    pdu = P_DATA_TF()
    pdu.from_primitive(pdata)
    b = pdu.encode()
    if len(b) < 6 or b[0] != 0x04:
        raise HarnessError(f"P_DATA_TF.encode() produced no P-DATA-TF PDU: {bytes(b[:8]).hex()}")
    (ln,) = struct.unpack(">L", b[2:6])
    return ln, len(b)


def check_fragment(ctx, case):
    from pynetdicom.dimse_messages import DIMSEMessage
    from pynetdicom.pdu_primitives import P_DATA

    cap = 10**8 if case.get("nocap") else (300_000 if ctx.quick else 2_000_000)
    desc, role, cid = case["desc"], case["role"], case["cid"]
    kind = desc["kind"]
    m = C.MESSAGES[kind]
    mx, n = resolve(case, cap)
    other = case["other_max"]
    file_backed = bool(case.get("file")) and kind == "C-STORE-RQ" and n is not None
    offset = case.get("offset", 0) if file_backed else 0
    data = G.pattern_bytes(n, case.get("ds_seed", 0)) if n is not None else None
    f = mx - 6 if mx else None

    # ------------------------------------------------------------------ build + send through the real provider
    try:
        prim = G.build(desc, dataset_bytes=None if file_backed else data)
    except G.Rejected as e:
        ctx.note(case, nontrivial=False, classes=["api-rejected:" + e.keyword])
        return
    path = None
    if file_backed:
        os.makedirs(ctx.work, exist_ok=True)
        path = os.path.join(ctx.work, "ds.bin")
        with open(path, "wb") as fh:
            fh.write(G.pattern_bytes(offset, 77))
            fh.write(data)
        prim._dataset_path = (Path(path), offset)  # what Association.send_c_store does for a chunked send
    a = _assoc(role)
    peer_user, own_user = (a.acceptor, a.requestor) if role == "requestor" else (a.requestor, a.acceptor)
    peer_user.maximum_length = mx
    own_user.maximum_length = other
    exc = None
    try:
        a.dimse.send_msg(prim, cid)
    except Exception as e:
        exc = e
    finally:
        if path is not None:
            os.remove(path)
    sent = list(a.sent)

    # ------------------------------------------------------------------ what was sent
    pdvs = []  # (context, header, payload)
    for p in sent:
        if not isinstance(p, P_DATA):
            raise HarnessError(f"send_msg handed a {type(p).__name__} to the DUL")
        for pc, v in p.presentation_data_value_list:
            pdvs.append((pc, v[0], bytes(v[1:])))
    cmd_frags = [x for x in pdvs if x[1] & 1]
    ds_frags = [x for x in pdvs if not x[1] & 1]
    cmd = b"".join(x[2] for x in cmd_frags)
    got_data = b"".join(x[2] for x in ds_frags)

    def part_class(length, nfr):
        if length == 0:
            return "empty"
        if f is None:
            return "unlimited"
        return ("exact-multiple:" if length % f == 0 else "ragged:") + ("1" if nfr == 1 else "2+")

    cl = [kind, "role:" + role, "max:" + ("0" if mx == 0 else "7-9" if mx <= 9 else "10-255" if mx < 256 else "256-65535" if mx < 65536 else ">=65536")]
    cl.append("cmd:" + part_class(len(cmd), len(cmd_frags)))
    if n is not None:
        cl.append(("file:" if file_backed else "mem:") + part_class(n, len(ds_frags)))
        if file_backed and offset:
            cl.append("file-offset>0")
    else:
        cl.append("no-dataset")
    nt = len(cmd_frags) >= 2 or len(ds_frags) >= 2 or (f is not None and ((cmd and len(cmd) % f == 0) or (n and n % f == 0)))
    ctx.note(
        case,
        nontrivial=bool(nt),
        classes=cl,
        key=[kind, mx, len(cmd), n, file_backed, offset, role, case["groups"]],
    )
    label = f"kind={kind} max={mx} role={role} data={'file' if file_backed else 'mem'}:{n} offset={offset} cmd_len={len(cmd)}"
    where = "file" if file_backed else "mem"

    bad = []

    def fail(clause, key, msg):
        bad.append(clause)
        ctx.fail(clause, key, msg)

    if exc is not None:
        ctx.fail("exception-send", f"{sig.exc_key(exc)}:{where}", f"send_msg raised ({label})\n{sig.exc_text(exc)}")
        return

    # clause 1: bound on every P-DATA-TF
    if mx != 0:
        for i, p in enumerate(sent):
            ln, total = _pdu_length_field(p)
            own = sum(4 + len(v) for _, v in p.presentation_data_value_list)
            if ln > mx or own > mx:
                part = "command" if p.presentation_data_value_list[0][1][0] & 1 else "data:" + where
                fail(
                    "pdu-length-bound",
                    part,
                    f"P-DATA #{i} of {len(sent)}: PDU-length field {ln} (PDV items {own} bytes, PDU {total} bytes) exceeds the peer maximum {mx} ({label}; local maximum {other})",
                )
                break
    # clause 2: order and last-fragment marking, context id
    if any(pc != cid for pc, _, _ in pdvs):
        fail("context-id", "pdv", f"a PDV carries another context ID than {cid} ({label})")
    hdrs = [h & 3 for _, h, _ in pdvs]
    kinds_seq = [h & 1 for h in hdrs]
    if kinds_seq != sorted(kinds_seq, reverse=True):
        fail("order", "command-after-data", f"command fragments do not all precede data fragments: headers {hdrs[:40]} ({label})")
    for name, frs in (("command", cmd_frags), ("data:" + where, ds_frags)):
        lastbits = [(h >> 1) & 1 for _, h, _ in frs]
        if frs and lastbits != [0] * (len(frs) - 1) + [1]:
            fail("last-marking", name, f"{name} fragments carry last-bits {lastbits[:40]} ({label})")
    if not cmd_frags:
        fail("order", "no-command", f"no command fragment was sent ({label})")
        return
    # clause 3: concatenated fragments equal the original bytes
    if n is not None and got_data != data:
        fail(
            "data-bytes-sent",
            where,
            f"data fragments concatenate to {len(got_data)} bytes, the data set has {n} "
            f"(first difference at {next((i for i, (x, y) in enumerate(zip(got_data, data)) if x != y), min(len(got_data), n))}) ({label})",
        )
    if n is None and ds_frags:
        fail("data-bytes-sent", "unexpected-data", f"{len(ds_frags)} data fragments sent for a message without data set ({label})")
    try:
        values, facts = C.parse_command_set(cmd)
    except C.Malformed as e:
        fail("command-bytes-sent", "malformed", f"concatenated command fragments are not a readable command set: {e} ({label})\n{cmd.hex()}")
        return
    want = G.expected_params(desc)
    got = {k: C.norm_value(k, v) for k, v in values.items() if k not in C.STRUCTURAL}
    got = {k: v for k, v in got.items() if v not in (None, [])}
    if values.get("CommandField") != m.field or got != want or facts["group_length_value"] != facts["group_length_measured"]:
        fail(
            "command-bytes-sent",
            "content",
            f"concatenated command fragments decode to field={values.get('CommandField')} {got}, group length "
            f"{facts['group_length_value']}/{facts['group_length_measured']}; expected field={m.field} {want} ({label})",
        )

    # clause 4: reassembly under regrouping (skipped when the sending side is already wrong: one root cause, one report)
    if bad:
        return
    if n == 0 and not file_backed:
        ctx.exclude("empty in-memory data set: reassembly belongs to C16")
        return
    groups = case["groups"] or [1]
    regrouped, i, gi = [], 0, 0
    while i < len(pdvs):
        g = max(1, groups[gi % len(groups)])
        gi += 1
        p = P_DATA()
        p.presentation_data_value_list = [[pc, bytes([h]) + pl] for pc, h, pl in pdvs[i : i + g]]
        regrouped.append(p)
        i += g
    gclass = "regroup:" + ("as-sent" if all(len(p.presentation_data_value_list) == 1 for p in regrouped) else "one" if len(regrouped) == 1 else "mixed")
    ctx.cls(gclass)

    rx = DIMSEMessage()
    done = []
    try:
        for p in regrouped:
            done.append(bool(rx.decode_msg(p)))
    except Exception as e:
        ctx.fail("exception-receive", sig.exc_key(e), f"decode_msg raised ({label}, groups {groups})\n{sig.exc_text(e)}")
        return
    if done != [False] * (len(regrouped) - 1) + [True]:
        when = done.index(True) if True in done else None
        ctx.fail(
            "reassembly-completion",
            "early" if when is not None else "never",
            f"decode_msg signalled completion at P-DATA {when} of {len(regrouped)} ({label}, groups {groups[:10]})",
        )
        return
    rcmd = rx.encoded_command_set.getvalue()
    rdata = rx.data_set.getvalue() if rx.data_set is not None else b""
    if rcmd != cmd:
        fail("reassembly-bytes", "command", f"receiver assembled {len(rcmd)} command bytes, {len(cmd)} were sent ({label}, groups {groups[:10]})")
    if rdata != (data or b""):
        fail("reassembly-bytes", "data", f"receiver assembled {len(rdata)} data bytes, the data set has {n} ({label}, groups {groups[:10]})")
    if rx.context_id != cid:
        fail("context-id", "receiver", f"receiver context {rx.context_id} != {cid}")
    if bad:
        return
    try:
        back = G.extract(rx.message_to_primitive())
    except Exception as e:
        ctx.fail("exception-receive", sig.exc_key(e), f"message_to_primitive raised ({label})\n{sig.exc_text(e)}")
        return
    if back["kind"] != kind or {k: v for k, v in back["params"].items() if k in C.transmitted(kind)} != want or (back["dataset"] or b"") != (data or b""):
        fail("reassembly-primitive", "direct", f"reassembled primitive {back['kind']} {back['params']} ds={len(back['dataset'] or b'')}B; sent {kind} {want} ds={n} ({label})")

    # the same regrouped P-DATA through the provider of the peer-role association
    if bad or kind == "N-EVENT-REPORT-RQ":
        return
    b = _assoc("acceptor" if role == "requestor" else "requestor")
    try:
        for p in regrouped:
            b.dimse.receive_primitive(p)
    except Exception as e:
        ctx.fail("exception-receive", sig.exc_key(e), f"receive_primitive raised ({label}, groups {groups[:10]})\n{sig.exc_text(e)}")
        return
    if b.dimse.message is not None:
        ctx.fail("reassembly-completion", "provider-pending", f"provider still holds a partial message after the last P-DATA ({label})")
        return
    if kind == "C-CANCEL-RQ":
        items = [(cid, v) for v in b.dimse.cancel_req.values()]
    else:
        items = []
        while not b.dimse.msg_queue.empty():
            items.append(b.dimse.msg_queue.get_nowait())
    if len(items) != 1:
        ctx.fail("reassembly-completion", "provider-count", f"provider produced {len(items)} messages from one ({label})")
        return
    rcid, rp = items[0]
    back = G.extract(rp)
    if rcid != cid or back["kind"] != kind or {k: v for k, v in back["params"].items() if k in C.transmitted(kind)} != want or (back["dataset"] or b"") != (data or b""):
        ctx.fail("reassembly-primitive", "provider", f"provider delivered ctx={rcid} {back['kind']} {back['params']} ds={len(back['dataset'] or b'')}B; sent ctx={cid} {kind} {want} ds={n} ({label})")


CHECKS = {"fragment": check_fragment}


def _strategy(quick):
    from hypothesis import strategies as st

    @st.composite
    def big(draw):
        b = draw(st.integers(3, 32))
        return draw(st.integers(max(7, 1 << (b - 1)), (1 << b) - 1))

    max_abs = st.one_of(st.sampled_from([0, 7, 8, 9, 16, 128, 16382, 65536, U32]), big()).map(lambda v: ["abs", v])
    max_cmd = st.tuples(st.just("cmd"), st.integers(1, 4), st.sampled_from([-1, 0, 0, 1])).map(list)
    ds_mul = st.tuples(st.just("mul"), st.one_of(st.sampled_from([1, 2, 3, 4]), st.integers(1, 50)), st.sampled_from([-1, 0, 0, 1])).map(list)
    ds_abs = st.one_of(st.sampled_from([0, 1, 2]), st.integers(3, 3000), st.integers(3, 3000)).map(lambda v: ["abs", v])
    groups = st.one_of(
        st.just([1]),
        st.just([1000000]),
        st.lists(st.sampled_from([1, 2, 3, 4, 5]), min_size=2, max_size=6),
        st.lists(st.sampled_from([1, 2, 3, 4, 5]), min_size=2, max_size=6),
    )

    @st.composite
    def case(draw):
        storage = draw(st.sampled_from(["mem", "mem", "file", "any"]))
        if storage == "file":
            desc = draw(G.descs(kinds=["C-STORE-RQ"], dataset="none"))
        elif storage == "mem":
            with_ds = [k for k in C.KINDS if C.MESSAGES[k].dataset]
            desc = draw(G.descs(kinds=with_ds, dataset="none"))
        else:
            desc = draw(G.descs(dataset="none"))
        m = C.MESSAGES[desc["kind"]]
        c = {
            "desc": desc,
            "max": draw(st.one_of(max_abs, max_abs, max_cmd)),
            "other_max": draw(st.sampled_from([0, 7, 64, 16382, U32])),
            "role": draw(st.sampled_from(["requestor", "acceptor"])),
            "cid": draw(st.integers(0, 127)) * 2 + 1,
            "groups": draw(groups),
            "ds": None,
        }
        if m.dataset is not None and (storage != "any" or draw(st.booleans())):
            c["ds"] = draw(st.one_of(ds_mul, ds_mul, ds_mul, ds_abs))
            c["ds_seed"] = draw(st.integers(0, 3))
            if storage == "file":
                c["file"] = True
                c["offset"] = draw(st.sampled_from([0, 0, 1, 132, 344])) if draw(st.booleans()) else draw(st.integers(0, 600))
        return c

    return case()


def boundary_cases():
    """Deterministic sweep: for small maxima every data length 0..3f+1, in memory and file-backed, both roles."""
    base_rq = {"kind": "C-STORE-RQ", "params": {"AffectedSOPClassUID": "1.2.840.10008.5.1.4.1.1.2", "MessageID": 1, "Priority": 2, "AffectedSOPInstanceUID": "1.2.3.4"}, "dataset": None}
    base_rsp = {"kind": "C-FIND-RSP", "params": {"MessageIDBeingRespondedTo": 1, "Status": 0xFF00, "AffectedSOPClassUID": "1.2.840.10008.5.1.4.1.2.1.1"}, "dataset": None}
    i = 0
    for mx in (7, 8, 9, 16, 38):
        f = mx - 6
        for n in range(0, 3 * f + 2):
            for file in (False, True):
                i += 1
                yield {
                    "desc": base_rq if (file or i % 2) else base_rsp,
                    "max": ["abs", mx],
                    "other_max": 16382 if i % 3 else 0,
                    "role": "requestor" if i % 2 else "acceptor",
                    "cid": 1 + 2 * (i % 5),
                    "groups": [[1], [1000000], [2, 1, 3]][i % 3],
                    "ds": ["abs", n],
                    "ds_seed": 1,
                    "file": file,
                    "offset": (0, 1, 132)[i % 3],
                }


def big_cases():
    """A few large data sets around 1 MiB (and a multiple of it) with the peer's maximum 0 (= unlimited: one fragment) and ordinary maxima,
    in memory and file-backed: sizes no unit test comes near (the repository's chunked-send test uses a 39 kB file)."""
    base_rq = {"kind": "C-STORE-RQ", "params": {"AffectedSOPClassUID": "1.2.840.10008.5.1.4.1.1.2", "MessageID": 1, "Priority": 2, "AffectedSOPInstanceUID": "1.2.3.4"}, "dataset": None}
    i = 0
    for n in (1048576 - 6, 1048576, 1048576 + 2, 2 * 1048576 + 4):
        for mx in (0, 16382, 65542):
            for file in (False, True):
                i += 1
                yield {"desc": base_rq, "max": ["abs", mx], "other_max": 16382, "role": "requestor" if i % 2 else "acceptor", "cid": 1 + 2 * (i % 5),
                       "groups": [[1], [1000000]][i % 2], "ds": ["abs", n], "ds_seed": 3, "file": file, "offset": (0, 132)[i % 2], "nocap": True}


def run(ctx):
    with E.no_sleep():
        cases = [c for i, c in enumerate(boundary_cases()) if i % ctx.nshards == ctx.shard]
        if ctx.shard == 0:
            cases += list(big_cases())
        ctx.each("fragment", cases)
        ctx.extra["boundary_sweep_cases"] = len(cases)
        ctx.hyp("fragment", _strategy(ctx.quick), 2600 if ctx.quick else 6500)
