"""C20 - each service request gets Pending* then exactly one final response with its message ID (engine E3).

Every case = one valid DIMSE request + one scripted handler behaviour (engines/scp_grammar.py), driven thread-free
through Association._serve_request; the P-DATA the association handed to the DUL is re-assembled by an independent
decoder and judged structurally."""
from engines import scp_grammar as G
from refs import handler_status_ref as R
from vlib import sig

LEVEL = "exploration"
RULE = (
    "Hypothesis draws (service class / request type from a 51-entry catalogue covering Verification, Storage, Non-Patient "
    "Object Storage, every C-FIND based class, QR C-GET/C-MOVE and all six DIMSE-N services across their service classes) "
    "x transfer syntax x message ID over 0..65535 (boundary biased) x odd context ID x a handler script from the grammar: "
    "returned/yielded ints (known, unknown, out of range), status Datasets with/without Status and optional elements "
    "(incl. a command element), wrong types, non-tuples/wrong arity, 0..6 yields, exceptions before/between/after yields, "
    "plain functions returning an iterator object/None/scalar instead of generators, C-GET/C-MOVE scripts with announced counts (valid, "
    "wrong, non-int), destinations (valid/unknown/malformed) and scripted C-STORE sub-operation statuses. About a third of "
    "the cases are 'clean' scripts (documented handler contract only) so the search continues behind the known findings. "
    "Non-trivial = multi-response script with >=2 consumed items of different status classes, or an exception/malformed/"
    "invalid value anywhere, or (single-response services) anything but a plain in-range int; distinct = distinct case. "
    "Family 'substore' (requestor-side Storage SCP, Association._c_store_scp): a retrieve REQUESTOR association (C-GET 2/3, "
    "C-MOVE 1/3 of the cases) on which one storage SOP class was accepted with the SCP role on 1..4 contexts with pairwise "
    "different transfer syntaxes (arbitrary distinct odd context IDs, in ID order or not), optionally another storage SOP "
    "class and the same SOP class once more without the SCP role; 1..3 C-STORE sub-operation requests (distinct message "
    "IDs, boundary biased) arrive as P-DATA on any of the fitting contexts (about 1 in 5 non-clean requests instead on a "
    "never-accepted ID, on the other SOP class's context or on the context without the SCP role) and the EVT_C_STORE "
    "handler behaves per request as the status-only grammar says (int/Dataset/bad values/raise). Non-trivial there = a "
    "request on a context other than the first one accepted for its SOP class, or on a non-fitting context."
)
ASSUMPTIONS = [
    "Pending = status 0xFF00/0xFF01 (PS3.7 Annex C); for services with a single response (C-ECHO, C-STORE, DIMSE-N) any "
    "response counts as the final one whatever its status",
    "0xB001 is non-final only for the Repository Query SOP class (1.2.840.10008.5.1.4.1.1.201.6)",
    "the generated handlers never abort/release and the scripted peer always answers C-STORE sub-operations, so the "
    "'final response may be missing' exemption never applies; an A-ABORT that pynetdicom itself issues because it cannot "
    "digest a handler value is reported under its own clause (final-missing-local-abort) because the property quantifies "
    "over 'returning or yielding any values' and status values 'known, unknown, out of range'",
    "C-STORE sub-operation requests of C-GET (command field 0x0001 on another context) are not responses and are ignored",
    "engines/syncassoc.py: replacing dul.send_pdu by a recorder does not change what the service layer sends",
    "substore family: 'received as SCP' includes the Storage SCP the C-GET/C-MOVE requestor runs on its own association; "
    "responses are attributed to requests by order (the requests are served one after the other); a C-STORE request on an "
    "accepted context that does not fit it (other abstract syntax / SCP role not negotiated) must still get exactly one "
    "response on that context or a local A-ABORT; on a never-accepted context ID pynetdicom's documented reaction is an "
    "A-ABORT, after which no further response may be sent; the handler's event.context must be the request's context",
]
SHARDS = {"quick": 1, "thorough": 16}
MIN_NONTRIVIAL = 50

REPOSITORY_QUERY = "1.2.840.10008.5.1.4.1.1.201.6"


def shape(rtype):
    return "multi" if rtype in G.MULTI else ("status-only" if rtype in G.STATUS_ONLY else "pair")


def mgroup(rtype, family):
    """Documented response-multiplicity group (PS3.4): Relevant Patient Information Query returns at most one match."""
    if rtype in G.MULTI:
        return "single-match" if family == "relevant-patient" else "multi-match"
    return "single-response"


def cause_of(case, log):
    """Behaviour class of the last script element the service class consumed (stable under shrinking)."""
    items = case.get("items") or []
    rtype = G.SERVICES[case["svc"]][0]
    if rtype in G.MULTI and case.get("mode", "gen") in ("none", "scalar"):
        return f"non-generator({case['mode']})"
    if not log.consumed:
        return "nothing-consumed"
    last = log.consumed[-1]
    if last == "pre":
        return "exception-before-first-yield"
    if last == "end":
        return "exception-after-last-yield"
    it = items[last]
    c = R.item_class(it, rtype)
    if c in ("int", "ds-status", "ds-status+optional", "ds-status+command-element"):
        st = it["st"]
        code = st["v"] if st["t"] == "int" else st["status"]
        return R.category(code)
    if c == "int-out-of-range":
        return "status-out-of-range"
    if c.startswith("exception("):
        return "exception"
    return c


def overrides_command_element(case, log):
    """a consumed status Dataset carried (0000,0120) Message ID Being Responded To"""
    items = case.get("items") or []
    rtype = G.SERVICES[case["svc"]][0]
    return any(isinstance(i, int) and R.item_class(items[i], rtype) == "ds-status+command-element" for i in log.consumed)


def is_final(rtype, uid, status):
    if rtype not in G.MULTI:
        return True
    if status in R.PENDING:
        return False
    if uid == REPOSITORY_QUERY and status == 0xB001:
        return False
    return True


def classes_of(case):
    rtype, _uid, family = G.SERVICES[case["svc"]]
    items = case.get("items") or []
    out = [rtype, f"family:{family}", f"ts:{case.get('ts', 'implicit')}"]
    kinds = set()
    for it in items:
        c = R.item_class(it, rtype)
        if c.startswith("exception("):
            c = "exception"
        if c in ("int", "ds-status", "ds-status+optional", "ds-status+command-element"):
            st = it["st"]
            c = c + ":" + R.category(st["v"] if st["t"] == "int" else st["status"])
        kinds.add(c)
    out += sorted("item:" + k for k in kinds)
    if case.get("pre"):
        out.append("raise-before")
    if case.get("end", "return") != "return":
        out.append("raise-after")
    if rtype in G.MULTI:
        out.append(f"mode:{case.get('mode', 'gen')}")
        out.append(f"yields:{min(len(items), 6)}")
    if case.get("msg_id") in (0, 65535):
        out.append("msgid-boundary")
    return out, kinds


def nontrivial(case, kinds):
    rtype = G.SERVICES[case["svc"]][0]
    odd = any(not k.startswith(("int:", "ds-status:")) for k in kinds) or case.get("pre") or case.get("end", "return") != "return"
    if rtype in G.MULTI:
        if case.get("mode", "gen") != "gen":
            return True
        return bool(odd) or len(kinds) >= 2
    return bool(odd) or any(k.startswith("ds-status") for k in kinds)


def check_final(ctx, case):
    rtype, uid, family = G.SERVICES[case["svc"]]
    cx, msg_id = case.get("cx", 1), case.get("msg_id", 1)
    obs = G.run_scp_case(case)
    cls, kinds = classes_of(case)
    msgs = obs.responses()
    group = mgroup(rtype, family)
    cause = cause_of(case, obs.log)
    statuses = [m.status for m in msgs]
    cls.append("outcome:" + ("local-abort" if obs.aborted_locally else f"responses:{min(len(msgs), 4)}"))
    ctx.note(case, nontrivial=nontrivial(case, kinds), classes=cls)
    txt = f"svc={case['svc']} statuses={[None if s is None else hex(s) for s in statuses]} local_abort={obs.aborted_locally} consumed={obs.log.consumed}"

    if obs.escaped is not None:
        ctx.fail("exception-escapes", f"{rtype}:{sig.exc_key(obs.escaped)}", f"_serve_request raised: {sig.exc_text(obs.escaped)}\n{txt}")
    if obs.log.calls != 1:
        ctx.fail("handler-calls", f"{rtype}:{obs.log.calls}", f"handler invoked {obs.log.calls} times for one request\n{txt}")

    # every DIMSE message sent for this request is a well-formed response of the request's kind
    for m in msgs:
        if m.error or m.cmd is None or m.field != G.CMD[rtype][1] or m.status is None:
            ctx.fail("unexpected-message", f"{rtype}:{group}:{m.error or hex(m.field or 0)}", f"not a {rtype} response: field={m.field} error={m.error}\n{txt}")
            return
    for m in msgs:
        if m.rsp_to != msg_id:
            why = "ds-status+command-element" if overrides_command_element(case, obs.log) else f"{shape(rtype)}:{cause}"
            ctx.fail("message-id", why, f"MessageIDBeingRespondedTo={m.rsp_to}, request MessageID={msg_id}\n{txt}")
            break
    for m in msgs:
        if set(m.cx_ids) != {cx}:
            ctx.fail("context-id", f"{rtype}:{group}", f"response PDVs on contexts {sorted(set(m.cx_ids))}, request on {cx}\n{txt}")
            break

    finals = [i for i, s in enumerate(statuses) if is_final(rtype, uid, s)]
    if not finals:
        if obs.aborted_locally:
            ctx.fail(
                "final-missing-local-abort",
                cause if cause in ("malformed-result", "status-out-of-range") else f"{shape(rtype)}:{cause}",
                f"pynetdicom aborted the association itself after the handler value and sent no final response\n{txt}",
            )
        else:
            what = "ends-with-Pending" if statuses else "nothing-sent"
            ctx.fail("final-missing", f"{rtype}:{group}:{cause}:{what}", f"no final response and no abort\n{txt}")
        return
    if finals[0] != len(statuses) - 1:
        first = statuses[finals[0]]
        ctx.fail(
            "response-after-final",
            f"{rtype}:{group}:after-{R.category(first)}",
            f"response #{finals[0] + 1} (0x{first:04X}) is non-Pending but {len(statuses) - finals[0] - 1} more response(s) followed\n{txt}",
        )
        return
    # a final response was sent although pynetdicom also aborted: fine for C20 (nothing after the final DIMSE message)


def _item_kind(it):
    c = R.item_class(it, "C-STORE")
    if c.startswith("exception("):
        return "exception"
    if c in ("int", "ds-status", "ds-status+optional", "ds-status+command-element"):
        st = it["st"]
        return c + ":" + R.category(st["v"] if st["t"] == "int" else st["status"])
    return c


def check_substore(ctx, case):
    """C-STORE sub-operation requests answered by the retrieve requestor's own Storage SCP (Association._c_store_scp):
    one response per request, carrying the request's message ID, on the request's context; the handler's event.context
    is the context the request arrived on."""
    obs = G.run_substore_case(case)
    rqs = case["rqs"]
    accepted = {e[0] for e in case["layout"]}
    same = [e for e in case["layout"] if e[1] == "store-ct" and e[3]]
    pseudo = [{"svc": "store-ct", "items": r["items"], "pre": r.get("pre")} for r in rqs]
    cls = ["family:substore", "C-STORE", f"via:{case['via']}", f"same-sop-contexts:{len(same)}", f"requests:{len(rqs)}"]
    if len({e[2] for e in same}) >= 2:
        cls.append("same-sop-different-ts")
    kinds = set()
    for r in rqs:
        cls.append("where:" + r["where"])
        if r["where"] == "ok" and len(same) >= 2:
            cls.append("on-first-context" if r["cid"] == min(e[0] for e in same) else "on-later-context")
        kinds.add(_item_kind(r["items"][0]))
        if r.get("pre"):
            cls.append("raise-before")
        if r["msg_id"] in (0, 65535):
            cls.append("msgid-boundary")
    cls += sorted("item:" + k for k in kinds)
    rsps = obs.store_responses()
    cls.append("outcome:" + ("local-abort" if obs.aborted_locally else f"responses:{min(len(rsps), 4)}"))
    # non-trivial = the SOP class is accepted on >= 2 contexts and a request arrives on one that is not the first, or
    # a request arrives on a context that does not fit it
    nt = any(r["where"] != "ok" for r in rqs) or (len(same) >= 2 and any(r["cid"] != min(e[0] for e in same) for r in rqs))
    ctx.note(case, nontrivial=nt, classes=sorted(set(cls)))
    txt = (
        f"via={case['via']} layout={case['layout']} requests={[(r['cid'], r['msg_id'], r['where']) for r in rqs]} "
        f"responses={[(sorted(set(m.cx_ids)), m.rsp_to, None if m.status is None else hex(m.status)) for m in rsps]} "
        f"handler_saw={obs.seen} local_abort={obs.aborted_locally}"
    )
    if obs.raised is not None:
        ctx.fail("exception-escapes", f"substore:{sig.exc_key(obs.raised)}", f"send_c_{case['via']} raised: {sig.exc_text(obs.raised)}\n{txt}")
    if not obs.request_sent:
        from vlib.core import HarnessError

        raise HarnessError(f"the retrieve request was not sent: {txt}")
    for m in obs.others():
        ctx.fail("unexpected-message", f"substore:{m.error or hex(m.field or 0)}", f"unexpected message sent by the retrieve requestor\n{txt}")
        return
    for m in rsps:
        if m.error or m.cmd is None or m.status is None:
            ctx.fail("unexpected-message", f"substore:{m.error or 'no-status'}", f"malformed C-STORE response\n{txt}")
            return

    # the handler is told the context the request arrived on
    for mid, rq_cx, ev_cx, _ts in obs.seen:
        if ev_cx != rq_cx:
            ctx.fail("handler-context", "substore:C-STORE", f"handler for request {mid} received on context {rq_cx} got event.context {ev_cx}\n{txt}")
            break
    for r in rqs:
        if obs.logs[r["msg_id"]].calls > 1:
            ctx.fail("handler-calls", f"substore:{obs.logs[r['msg_id']].calls}", f"handler invoked more than once for request {r['msg_id']}\n{txt}")

    # requests the SCP must answer: all up to (excluding) the first one on a context ID that was never accepted - pynetdicom
    # aborts the association there (documented in _c_store_scp; the peer sees the A-ABORT), nothing may follow
    expect = []
    for r in rqs:
        if r["cid"] not in accepted:
            break
        expect.append(r)
    cut = len(expect) < len(rqs)
    for i, (r, p) in enumerate(zip(expect, pseudo)):
        if i >= len(rsps):
            break
        m = rsps[i]
        log = obs.logs[r["msg_id"]]
        if m.rsp_to != r["msg_id"]:
            why = "ds-status+command-element" if overrides_command_element(p, log) else f"status-only:{cause_of(p, log)}"
            ctx.fail("message-id", why, f"response #{i + 1}: MessageIDBeingRespondedTo={m.rsp_to}, request MessageID={r['msg_id']}\n{txt}")
            break
        if set(m.cx_ids) != {r["cid"]}:
            ctx.fail("context-id", "substore:C-STORE", f"response #{i + 1} on contexts {sorted(set(m.cx_ids))}, request {r['msg_id']} arrived on {r['cid']}\n{txt}")
            break
    if len(rsps) > len(expect):
        if not cut or obs.aborted_locally:
            ctx.fail("response-after-final", f"substore:C-STORE:{'after-abort' if cut else 'extra'}", f"{len(rsps)} C-STORE responses for {len(expect)} answerable requests\n{txt}")
        # (no abort on the never-accepted context ID: what follows cannot be judged from the property statement)
    elif len(rsps) < len(expect):
        r, p = expect[len(rsps)], pseudo[len(rsps)]
        cause = cause_of(p, obs.logs[r["msg_id"]])
        if obs.aborted_locally:
            ctx.fail("final-missing-local-abort", f"substore:{r['where']}:{cause}", f"pynetdicom aborted instead of answering request {r['msg_id']}\n{txt}")
        else:
            ctx.fail("final-missing", f"substore:C-STORE:{r['where']}:{cause}:nothing-sent", f"request {r['msg_id']} got no response and there was no abort\n{txt}")
    if cut and not obs.aborted_locally and len(rsps) <= len(expect):
        ctx.fail("final-missing", "substore:C-STORE:unaccepted:nothing-sent", f"request on a never-accepted context got neither a response nor an A-ABORT\n{txt}")


CHECKS = {"final": check_final, "substore": check_substore}


def run(ctx):
    S = G.strategies()
    if ctx.quick:
        n_single, n_find, n_ret = 900, 1500, 700
    else:
        n_single, n_find, n_ret = 2500, 4500, 2000
    ctx.hyp("final", S.find, n_find)
    ctx.hyp("final", S.find_one("find-rpi"), n_find // 5)  # the single-match C-FIND service
    ctx.hyp("final", S.find_one("find-repo"), n_find // 5)  # the service with the non-final 0xB001
    ctx.hyp("final", S.single, n_single)
    ctx.hyp("final", S.retrieve, n_ret)
    ctx.hyp("substore", S.substore, 600 if ctx.quick else 2500)
    ctx.extra["services_in_catalogue"] = len(G.SERVICES)
