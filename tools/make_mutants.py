#!/venv/bin/python
"""Writes mutants/<ID>-m<n>.patch (unified diffs against /repo HEAD) for the lead-built checks from (file, old, new) triples."""
import difflib, os, subprocess
REPO = "/repo"
M = [
 # id, n, file, [(old, new)...], description
 ("C01", 1, "pynetdicom/pdu_items.py", [('            (6 + cast(int, self._uid_length), 1),\n            "scu_role",', '            (7 + cast(int, self._uid_length), 1),\n            "scu_role",'),
                                        ('            (7 + cast(int, self._uid_length), 1),\n            "scp_role",', '            (6 + cast(int, self._uid_length), 1),\n            "scp_role",'),
                                        ('            ("scu_role", PACK_UCHAR, []),\n            ("scp_role", PACK_UCHAR, []),', '            ("scp_role", PACK_UCHAR, []),\n            ("scu_role", PACK_UCHAR, []),')],
  "SCU and SCP role bytes swapped symmetrically in encoder and decoder (round trip still holds)"),
 ("C01", 2, "pynetdicom/pdu.py", [('            ((7, 1), "result", self._wrap_unpack, [UNPACK_UCHAR]),\n            ((8, 1), "source", self._wrap_unpack, [UNPACK_UCHAR]),', '            ((8, 1), "result", self._wrap_unpack, [UNPACK_UCHAR]),\n            ((7, 1), "source", self._wrap_unpack, [UNPACK_UCHAR]),'),
                                  ('            ("result", PACK_UCHAR, []),\n            ("source", PACK_UCHAR, []),', '            ("source", PACK_UCHAR, []),\n            ("result", PACK_UCHAR, []),')],
  "A-ASSOCIATE-RJ result and source bytes swapped symmetrically"),
 ("C02", 1, "pynetdicom/_validators.py", [('    if len(value) > 64:', '    if len(value) >= 64:')], "64-character UIDs (conformant) rejected"),
 ("C03", 1, "pynetdicom/transport.py", [('            nr_read += len(bytes_read)\n', '            nr_read += len(bytes_read)\n            break\n')], "AssociationSocket.recv returns after the first raw recv"),
 ("C03", 2, "pynetdicom/dul.py", [('        if len(bytestream) != 6 + pdu_length:', '        if len(bytestream) < 6:')], "short body no longer detected"),
 ("C04", 1, "pynetdicom/fsm.py", [('    ("Evt12", "Sta6"): "AR-2",', '    ("Evt12", "Sta6"): "AR-8",')], "one transition table entry changed"),
 ("C04", 2, "pynetdicom/fsm.py", [('    dul._send(A_RELEASE_RP(primitive))\n    dul.artim_timer.start()\n\n    return "Sta13"', '    dul._send(A_RELEASE_RP(primitive))\n\n    return "Sta13"')], "AR-4 no longer starts ARTIM"),
 ("C04", 3, "pynetdicom/fsm.py", [('    if dul.assoc.is_requestor:\n        return "Sta9"\n\n    return "Sta10"', '    return "Sta9"')], "AR-8 ignores the role"),
 ("C05", 1, "pynetdicom/fsm.py", [('    ("Evt15", "Sta7"): "AA-1",\n', '')], "abort during release no longer defined"),
 ("C07", 1, "pynetdicom/service_class.py", [('is_release_requested(consume=False)', 'is_release_requested()')], "release indication consumed by the handler wrapper again"),
 ("C08", 1, "pynetdicom/transport.py", [('            self.socket.settimeout(self.assoc.network_timeout)\n', '            self.socket.settimeout(None)\n')], "requestor socket timeout cleared after connect again"),
 ("C11", 1, "pynetdicom/acse.py", [('        for role_item in ac_roles:\n            self.acceptor.add_negotiation_item(role_item)\n', '')], "acceptor drops its role replies from the A-ASSOCIATE-AC"),
 ("C12", 1, "pynetdicom/acse.py", [('            self.assoc.accepted_contexts + self.assoc.rejected_contexts\n', '            self.assoc.accepted_contexts\n')], "A-ASSOCIATE-AC lacks the result items of rejected contexts"),
 ("C13", 1, "pynetdicom/acse.py", [('        authorised_aet = [s.strip() for s in self.assoc.ae.require_calling_aet]', '        authorised_aet = [s for s in self.assoc.ae.require_calling_aet]')], "required calling titles compared without stripping"),
 ("C14", 1, "pynetdicom/acse.py", [('        if len(active_acceptors) > self.assoc.ae.maximum_associations:', '        if len(active_acceptors) > self.assoc.ae.maximum_associations + 1:')], "limit off by one"),
 ("C26", 1, "pynetdicom/events.py", [('        # Capture exceptions for notification events\n        LOGGER.error(', '        # Capture exceptions for notification events\n        if isinstance(exc, KeyError):\n            raise\n\n        LOGGER.error(')], "KeyError from a notification handler escapes trigger()"),
 ("C27", 1, "pynetdicom/fsm.py", [('    evt.trigger(dul.assoc, evt.EVT_CONN_CLOSE, {"address": conn_info})\n\n    # Stop ARTIM timer\n    dul.artim_timer.stop()\n    dul.kill_dul()\n\n    return "Sta1"\n\n\ndef AR_6', '    evt.trigger(dul.assoc, evt.EVT_CONN_CLOSE, {"address": conn_info})\n    evt.trigger(dul.assoc, evt.EVT_CONN_CLOSE, {"address": conn_info})\n\n    # Stop ARTIM timer\n    dul.artim_timer.stop()\n    dul.kill_dul()\n\n    return "Sta1"\n\n\ndef AR_6')], "AR-5 fires EVT_CONN_CLOSE twice"),
]
os.makedirs("/verif/mutants", exist_ok=True)
idx = []
for mid, n, path, subs, desc in M:
    src = open(os.path.join(REPO, path)).read()
    new = src
    ok = True
    for old, rep in subs:
        if new.count(old) != 1:
            print("SKIP", mid, n, "snippet count", new.count(old), repr(old[:50])); ok = False; break
        new = new.replace(old, rep)
    if not ok:
        continue
    diff = "".join(difflib.unified_diff(src.splitlines(True), new.splitlines(True), "a/" + path, "b/" + path))
    fn = f"/verif/mutants/{mid}-m{n}.patch"
    open(fn, "w").write(diff)
    idx.append((mid, f"{mid}-m{n}.patch", desc))
open("/verif/mutants/LEAD_MUTANTS.md", "w").write("# Mutants for the lead-built checks (generated by tools/make_mutants.py)\n\n" + "\n".join(f"* `{f}` ({m}): {d}" for m, f, d in idx) + "\n")
print(len(idx), "mutants written")
