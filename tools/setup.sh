#!/bin/bash
# MANIFEST.setup_cmd: offline, idempotent. hypothesis next to the repo's packages, atheris into /verif/.deps.
set -e
cd "$(dirname "$0")/.."
/venv/bin/python -c "import hypothesis" 2>/dev/null || /venv/bin/pip install -q --no-index --find-links /opt/veriftools/wheels hypothesis
if [ ! -d .deps/atheris ]; then
  /venv/bin/pip install -q --no-index --find-links /opt/veriftools/wheels --target .deps atheris || echo "atheris unavailable (C02 fuzz tier skipped)"
fi
/venv/bin/python -c "import hypothesis, pynetdicom, pydicom; print('setup ok', hypothesis.__version__, pynetdicom.__version__)"
