"""C03 - PDU framing is independent of how TCP splits the byte stream (E2).

The real AssociationSocket.recv + DULServiceProvider._read_pdu_data read a generated PDU sequence from a scripted
socket that hands out the bytes in generated chunks (every raw recv returns at most the rest of the current chunk), with
an optional end-of-stream at any byte offset.
"""
import hashlib

from engines import ps38ref as R
from engines import vsock as V
from vlib import sig
from vlib.core import HarnessError

LEVEL = "exploration"
RULE = (
    "Hypothesis draws 1..6 conformant PDUs (E1 strategies, all 7 kinds; in a third of the cases one or more large P-DATA-TF whose body - or "
    "whole PDU - length is at / within 7 bytes of 4096, 8192, 12288, 16384, 20480, 32768, 65536, 69632 or anywhere in 4 KiB..70 KiB, with 1..3 "
    "PDVs, stored as (context ID, length, fill seed)), a cut list over the concatenated stream (uniform, "
    "plus cuts biased to offsets 1..6 of a PDU and +-1 around PDU boundaries, plus cuts at / next to multiples of the 4096-byte read size inside "
    "a large PDU, plus one-byte-at-a-time delivery, plus 'the end of a large PDU and the next PDU travel in one segment'), an optional EOF "
    "offset, the role of the reading side (acceptor with an accepted client socket / requestor after connect()) and the transport: a plain "
    "scripted socket or a TLS-like one (an ssl.SSLSocket subclass: chunks are TLS records of at most 16 KiB, select() sees only unread records, "
    "recv() decrypts one record and keeps the rest where only pending() sees it). "
    "Oracle: the PDUs delivered by _read_pdu_data (called while AssociationSocket.ready) re-encode to exactly the sent PDU byte strings, in order, each with its "
    "own event; with EOF at offset k exactly the PDUs ending at or before k are delivered, followed by Evt17, never Evt19 or a partial PDU; "
    "without EOF nothing beyond the delivered PDUs is consumed and nothing stays unread. A second sub-check runs under E4 (virtual time): a raw requestor sends a valid "
    "conversation (A-ASSOCIATE-RQ, 0..2 C-ECHO-RQ, A-RELEASE-RQ) with at most two cuts per PDU, in the header or the body, and a generated gap at "
    "every cut; the acceptor's three timeouts are all different (acse/dimse/network e.g. 1/2/4..6 or 3/1.5/5) and the gaps are drawn relative to "
    "them (just below / just above the ACSE and DIMSE timeouts, between the ACSE and the network timeout, just below the network timeout), every "
    "PDU as a whole faster than the network timeout and the A-ASSOCIATE-RQ faster than the ARTIM (= ACSE) timeout; the real acceptor must receive "
    "exactly the PDUs sent, answer every request and end released (between two PDUs the peer may also pause for less than the network timeout: the time the previous PDU took to arrive must not count against that pause). A third sub-check ('delays_req') mirrors it: a pynetdicom requestor "
    "(associate, C-ECHO, release) against a raw acceptor whose three answers arrive in segments with gaps below the network timeout (any gap "
    "when it is None) that may exceed the connection timeout; associate, echo and release must all succeed. "
    "Non-trivial = a cut strictly inside a 6-byte header, an EOF strictly inside a PDU, two PDUs (or the tail of one and the head of the next) in one "
    "chunk, or (E4) >=2 segments with a non-zero gap; distinct = (pdus, cuts, eof, role, transport)."
)
ASSUMPTIONS = [
    "socket model of engines/vsock.py (recv returns at most one chunk; EOF readable; b'' at EOF)",
    "TLS-like transport (engines/vsock._tls_classes): isinstance(sock, ssl.SSLSocket) holds; one chunk = one TLS record (<= 16 KiB plaintext); a recv() "
    "never returns bytes of two records; bytes of a record that recv() did not return stay buffered in the SSL object, invisible to select(), "
    "reported by pending(); EOF (also in the middle of a PDU) reads as b''. No handshake, no real cryptography, no TLS alerts; the acceptor "
    "socket is handed over already wrapped with tls_args unset (what AssociationServer does with ssl_context), the requestor socket is wrapped "
    "by AssociationSocket.connect() through tls_args = (stand-in context, hostname)",
    "inter-chunk delays are not modelled in the synchronous sub-check; the E4 sub-check ('delays') covers gaps below the network timeout",
    "E4 substitution table (engines/dsched.py) for the 'delays' sub-check: socket timeouts and timers run on virtual time with a 0.25 s quantum; "
    "0.75 s are allowed for the turn-around before a PDU starts, so a PDU counts as 'faster than the network timeout' when its gaps sum to "
    "<= network_timeout - 0.75 s and the A-ASSOCIATE-RQ as 'faster than ARTIM' when its gaps sum to <= acse_timeout - 0.75 s (slower requests are not judged)",
]
SHARDS = {"quick": 1, "thorough": 16}

EVENT_OF = {"AssocRQ": "Evt6", "AssocAC": "Evt3", "AssocRJ": "Evt4", "PData": "Evt10", "ReleaseRQ": "Evt12", "ReleaseRP": "Evt13", "Abort": "Evt16"}


def _fill(n, seed):
    """n reproducible bytes (payload of a large PDV is stored in the case as (length, seed), not as literal bytes)"""
    return hashlib.shake_256(int(seed).to_bytes(8, "big")).digest(int(n))


def expand_pdu(entry):
    """case entry -> PDU bytes: literal bytes, or ["pdata", [[context_id, data_length, fill_seed], ...]] for a large P-DATA-TF"""
    if isinstance(entry, (bytes, bytearray)):
        return bytes(entry)
    kind, pdvs = entry
    if kind != "pdata":
        raise HarnessError(f"unknown PDU description {kind!r}")
    return R.ref_encode(R.PData([[cid, _fill(n, seed)] for cid, n, seed in pdvs]))


TLS_RECORD_MAX = 16384
READ_SIZE = 4096  # the raw read size AssociationSocket.recv asks for (transport.py); only used to place size classes and cuts


def check_stream(ctx, case):
    pdus = [expand_pdu(p) for p in case["pdus"]]
    kinds = case["kinds"]
    cuts = list(case["cuts"])
    eof = case["eof"]
    tls, role = bool(case.get("tls")), case.get("role", "acceptor")
    stream = b"".join(pdus)
    bounds = []
    o = 0
    for p in pdus:
        bounds.append((o, o + len(p)))
        o += len(p)
    if tls:
        # a TLS record carries at most 16 KiB of plaintext: longer chunks are several records
        prev, extra = 0, []
        for c in sorted(set(c for c in cuts if 0 < c < len(stream))) + [len(stream)]:
            extra += list(range(prev + TLS_RECORD_MAX, c, TLS_RECORD_MAX))
            prev = c
        cuts = sorted(set(cuts) | set(extra))
    live = sorted(set(c for c in cuts if 0 < c < (len(stream) if eof is None else eof)))
    in_header = any(any(b0 < c < b0 + 6 for b0, _ in bounds) for c in live)
    eof_inside = eof is not None and any(b0 < eof < b1 for b0, b1 in bounds)
    end = len(stream) if eof is None else eof
    # two PDUs (or the tail of one and the head of the next) arrive in one chunk: a PDU boundary that is not a cut
    shared = [b1 for _, b1 in bounds[:-1] if b1 < end and b1 not in live]
    big = [i for i, p in enumerate(pdus) if len(p) - 6 >= READ_SIZE]
    big_tail_shared = any(bounds[i][1] in shared and (len(pdus[i]) - 6) % READ_SIZE != 0 for i in big)
    classes = [f"n={len(pdus)}", "eof" if eof is not None else "no-eof", "tls-like" if tls else "plain", role]
    classes += (["cut-in-header"] if in_header else []) + (["eof-inside-pdu"] if eof_inside else [])
    classes += ["bytewise"] if len(cuts) >= len(stream) - 1 and len(stream) > 8 else []
    classes += ["pdus-share-chunk"] if shared else []
    classes += ["pdus-share-chunk:" + ("tls-like" if tls else "plain") + ":" + role] if shared else []
    if big:
        mx = max(len(pdus[i]) - 6 for i in big)
        classes += ["big-pdu", "body>=65536" if mx >= 65536 else ("body>=16384" if mx >= 16384 else ("body>=8192" if mx >= 8192 else "body>=4096"))]
        if any(abs(((len(pdus[i]) - 6 + 8) % READ_SIZE) - 8) <= 8 for i in big):
            classes.append("body-near-multiple-of-read-size")
        if big_tail_shared:
            classes.append("big-pdu-tail-shares-chunk-with-next")
    ctx.note(case, nontrivial=in_header or eof_inside or bool(shared), classes=classes)
    if eof is None:
        n_expect = len(pdus)
    else:
        n_expect = sum(1 for _, b1 in bounds if b1 <= eof)

    with V.installed():
        h = V.SyncDUL(mode=role, state="Sta6", tls=tls)
        if role == "requestor":
            h.connect_now()
        raw, dul = h.raw, h.dul
        while not dul.event_queue.empty():
            dul.event_queue.get(False)
        data = stream if eof is None else stream[:eof]
        raw.feed(data, cuts)
        raw.eof = eof is not None
        events, got = [], []
        stalled = False
        for _ in range(len(pdus) + 3):
            if not h.sock.ready:
                break
            try:
                dul._read_pdu_data()
            except V.Stall:
                stalled = True
                break
            except Exception as e:
                ctx.fail("exception", sig.exc_key(e), f"_read_pdu_data raised {e!r}\n{sig.exc_text(e)}")
                return
            while not dul.event_queue.empty():
                events.append(dul.event_queue.get(False))
            while not dul._recv_pdu.empty():
                got.append(dul._recv_pdu.get(False))
            if events and events[-1] in ("Evt17", "Evt19"):
                break
        if stalled:
            raise HarnessError("blocking read although every PDU is complete or followed by EOF")

        how = f"{'tls-like' if tls else 'plain'} {role}, lens={[len(p) for p in pdus]} cuts={cuts[:20]} eof={eof}"
        want_events = [EVENT_OF[k] for k in kinds[:n_expect]] + (["Evt17"] if eof is not None else [])
        if "Evt19" in events:
            ctx.fail("truncated-as-invalid", "Evt19", f"valid stream produced Evt19: events={events} want={want_events} {how}")
            return
        if events != want_events:
            pdu_events = [e for e in events if e != "Evt17"]
            if "Evt17" in events and len(pdu_events) < n_expect and pdu_events == want_events[: len(pdu_events)]:
                key = "evt17-before-complete-pdu"  # a read came back shorter/longer than the PDU although all of its bytes were sent
            elif eof is None and "Evt17" in events:
                key = "evt17-without-eof"
            elif tls and events == want_events[: len(events)] and raw.pending():
                key = "tls-buffered-pdu-not-read"  # decrypted bytes wait inside the SSL object, the socket is reported not ready
            else:
                key = "missing-or-extra-pdu" if [e for e in events if e != "Evt17"] != want_events[:n_expect] else "evt17"
            ctx.fail("event-sequence", key, f"events={events} want={want_events} {how}; {raw.unread()} bytes not read")
            return
        if len(got) != n_expect:
            ctx.fail("pdu-count", "count", f"{len(got)} PDUs delivered, expected {n_expect}")
            return
        for i, (pdu, want) in enumerate(zip(got, pdus)):
            try:
                enc = pdu.encode()
            except Exception as e:
                ctx.fail("exception", sig.exc_key(e), f"delivered PDU cannot be encoded: {e!r}")
                return
            if enc != want:
                ctx.fail("pdu-bytes", kinds[i], f"PDU #{i} ({kinds[i]}) differs from what was sent\n want={want.hex()[:400]}\n got ={enc.hex()[:400]}\n {how}")
                return
        # nothing beyond the delivered PDUs (+ the partial one at EOF) may have been consumed
        if eof is None and raw.unread() != 0:
            ctx.fail("leftover", "unread", f"{raw.unread()} bytes left unread")


CHECKS = {"stream": check_stream}


def run(ctx):
    import dataclasses

    from hypothesis import strategies as st

    S = R.strategies()

    def canon(v):
        return dataclasses.replace(v, lead_called=0, lead_calling=0) if isinstance(v, R.AssocRQ) else v

    # AC contexts always carry one transfer syntax (C01 domain); values the reference round-trip accepts
    ac = st.builds(R.AssocAC, S.ae_title(), S.ae_title(), S.uid(), st.lists(st.builds(R.PCAC, S.cid, st.integers(0, 4), S.uid()), max_size=3), S.ac_items, st.just(1))
    pdu = st.one_of(S.assoc_rq(3, leads=False), ac, S.rj, S.pdata, S.pdata, st.just(R.ReleaseRQ()), st.just(R.ReleaseRP()), S.abort)

    # size classes: P-DATA-TF whose body (or whole PDU) length is at / just around 4096, 8192, 16384, 65536 and other multiples of
    # the implementation's raw read size, or anywhere in 4 KiB..70 KiB; stored as (context id, data length, fill seed) per PDV
    @st.composite
    def big_pdata(draw):
        if draw(st.integers(0, 5)) == 0:
            body = draw(st.integers(READ_SIZE - 6, 70000))
        else:
            base = draw(st.sampled_from([4096, 4096, 4096, 8192, 8192, 16384, 16384, 65536, 65536, 12288, 20480, 32768, 69632]))
            delta = draw(st.sampled_from([-7, -6, -5, -2, -1, 0, 0, 1, 2, 5, 6, 7, 100, 2000]))
            body = base + delta - (6 if draw(st.integers(0, 2)) == 0 else 0)  # the body, or the PDU with its header, has that length
        npdv = draw(st.sampled_from([1, 1, 1, 2, 3]))
        sizes = []
        rest = body
        for i in range(npdv - 1):
            sz = draw(st.integers(6, max(rest - 6 * (npdv - i - 1), 6)))
            sizes.append(sz)
            rest -= sz
        sizes.append(rest)
        return ["pdata", [[draw(S.cid), sz - 5, draw(st.integers(0, 2**32 - 1))] for sz in sizes if sz >= 6]]

    @st.composite
    def cases(draw):
        n = draw(st.integers(1, 6 if not ctx.quick else 4))
        want_big = draw(st.integers(0, 2)) == 0
        entries, kinds = [], []
        for i in range(n):
            if want_big and draw(st.integers(0, 1 if n > 1 else 0)) == 0:
                entries.append(draw(big_pdata()))
                kinds.append("PData")
            else:
                v = canon(draw(pdu))
                entries.append(R.ref_encode(v))
                kinds.append(type(v).__name__)
        lens = [len(expand_pdu(e)) for e in entries]
        total = sum(lens)
        starts, o = [], 0
        for ln in lens:
            starts.append(o)
            o += ln
        mode = draw(st.integers(0, 5))
        cuts = set()
        if mode == 0 and total <= 600:
            cuts = set(range(1, total))
        elif mode == 1:
            cuts = set(draw(st.lists(st.integers(1, max(total - 1, 1)), max_size=12)))
        else:
            for s0 in starts:
                for d in draw(st.lists(st.integers(-1, 7), max_size=3)):
                    if 0 < s0 + d < total:
                        cuts.add(s0 + d)
            cuts |= set(draw(st.lists(st.integers(1, max(total - 1, 1)), max_size=4)))
        for s0, ln in zip(starts, lens):
            if ln - 6 >= READ_SIZE and draw(st.booleans()):
                # segment boundaries at / next to multiples of the read size inside a large PDU (counted from its start or its body)
                for _ in range(draw(st.integers(1, 3))):
                    c = s0 + draw(st.sampled_from([0, 6])) + READ_SIZE * draw(st.integers(1, max((ln - 6) // READ_SIZE, 1))) + draw(st.sampled_from([-1, 0, 0, 1]))
                    if 0 < c < total:
                        cuts.add(c)
        if want_big and draw(st.booleans()):
            # the end of a large PDU and the PDU that follows travel in one segment
            for s0, ln in zip(starts, lens):
                if ln - 6 >= READ_SIZE:
                    cuts -= set(range(s0 + ln - READ_SIZE + 1, s0 + ln + 7))
        eof = None
        if draw(st.booleans()):
            if draw(st.booleans()):
                s0 = draw(st.sampled_from(starts + [total]))
                eof = min(max(s0 + draw(st.integers(-1, 7)), 0), total)
            else:
                eof = draw(st.integers(0, total))
        tls = draw(st.sampled_from([False, False, True]))
        role = draw(st.sampled_from(["acceptor", "requestor"]))
        return {"pdus": entries, "kinds": kinds, "cuts": sorted(cuts), "eof": eof, "tls": tls, "role": role}

    ctx.hyp("stream", cases(), 1500 if ctx.quick else 5000)


# ------------------------------------------------------------------------------------------------ E4: gaps between segments

def check_delays(ctx, case):
    """A raw requestor sends a valid conversation (A-ASSOCIATE-RQ, C-ECHO requests, A-RELEASE-RQ) cut into generated segments with
    generated virtual delays between segments, every gap shorter than the network timeout; the real acceptor must receive exactly the
    PDUs sent, answer every request and end released.
    case: network [, acse, dimse] timeouts; n_echo; cuts[i] = cut offsets of PDU i; gaps[i][j] = pause after the j-th segment of PDU i
    (or one "gap" for every cut: the format of the first version of this sub-check)."""
    from engines import scenario as SC

    acse, dimse, network = case.get("acse", 60), case.get("dimse", 60), case["network"]
    to = {"acse": acse, "dimse": dimse, "network": network, "connection": 5}
    pdus = [R.ref_encode(SC.RAW_RQ)] + [SC.dimse_bytes("echo", i + 1) for i in range(case["n_echo"])] + [R.ref_encode(R.ReleaseRQ())]
    script = []
    took, all_gaps, where = [], [], set()
    pauses = list(case.get("pauses") or [])
    for i, p in enumerate(pdus):
        if i and i < len(pauses) and pauses[i]:
            # the peer thinks before its next PDU: idle time between two PDUs, itself below the network timeout
            script.append(["sleep", pauses[i]])
        cuts = sorted(set(c for c in case["cuts"][i] if 0 < c < len(p)))
        gaps = list(case["gaps"][i]) if case.get("gaps") is not None else [case["gap"]] * len(cuts)
        gaps = (gaps + [0.0] * len(cuts))[: len(cuts)]
        prev = 0
        for j, c in enumerate(cuts + [len(p)]):
            script.append(["send", p[prev:c]])
            prev = c
            if c != len(p):
                script.append(["sleep", gaps[j]])
                if gaps[j] > 0:
                    where.add(("rq" if i == 0 else ("release" if i == len(pdus) - 1 else "p-data")) + ("-header" if c < 6 else "-body"))
        took.append(sum(gaps))
        all_gaps += [g for g in gaps if g > 0]
        script.append(["recv_pdu", 30])
    script += [["recv_until_close", 5], ["close"]]
    sc = {"timeouts": to, "max_steps": 80000, "quantum": 0.25, "acceptor": {"kind": "pynetdicom", "handlers": {}},
          "requestors": [{"kind": "raw", "script": script}], "schedule": {"policy": case["policy"], "seed": case["seed"], "preemptions": [], "nudges": []}}
    n_seg = sum(len([c for c in cs if c > 0]) for cs in case["cuts"])
    longest = max(took, default=0)
    # the idle timer runs from the previous complete PDU: allow 0.75 s for the peer's own turn-around (virtual quanta) before this PDU starts
    # (an idle pause in front of a PDU counts towards it: the timer keeps running from the previous complete PDU until this one is complete)
    slow = max((took[i] + (pauses[i] if i < len(pauses) else 0.0) for i in range(len(pdus))), default=0) + 0.75 > network
    # the ARTIM timer (= acse_timeout) runs from the transport connection until the A-ASSOCIATE-RQ has been received: a request that takes
    # longer may legitimately be cut off (PS3.8 9.1.5) - outside "within the configured timeouts"
    rq_slow = took[0] + 0.75 > acse
    classes = ["delays", "pdu-slower-than-network-timeout" if slow else "pdu-faster-than-network-timeout"] + sorted("gap-in-" + w for w in where)
    if any(i and i < len(pauses) and pauses[i] and took[i - 1] and took[i - 1] + pauses[i] > network for i in range(len(pdus))):
        classes.append("slow-pdu-then-pause:sum-above-network-timeout")
    if acse != dimse and dimse != network and acse != network:
        classes.append("three-different-timeouts")
    for g in all_gaps:
        for name, t in (("acse", acse), ("dimse", dimse), ("network", network)):
            if 0 < t - g <= 0.75:
                classes.append(f"gap-just-below-{name}-timeout")
        if min(acse, dimse) < g < network:
            classes.append("gap-above-smallest-timeout-below-network-timeout")
        if acse < g < network and not slow:
            classes.append("gap-between-acse-and-network-timeout")
    classes = sorted(set(classes))
    if rq_slow:
        ctx.note(case, nontrivial=False, classes=classes + ["rq-slower-than-artim:not-judged"])
        return
    out = SC.run(sc)
    peer = out["raw"][0]
    if peer.error:
        raise HarnessError(f"raw peer failed: {peer.error}")
    ctx.note(case, nontrivial=n_seg >= 2 and bool(all_gaps), classes=classes + [out["how"]])
    if out["how"] == "budget":
        ctx.inconclusive += 1
        return
    died = [t for t in out["report"]["threads"] if t["exc"] and not t["name"].startswith("raw-")]
    if died:
        ctx.fail("thread-exception", f"{died[0]['kind']}:{died[0]['exc'][2]}", f"{died[0]['name']} died: {died[0]['exc'][:2]}")
        return
    got = [e[3] for e in out["_rec_acc"].events if e[2] == "EVT_PDU_RECV"]
    kinds = [(b[0] if b else b) for b in peer.received]
    key = "slow-pdu" if slow else "fast-pdu"
    desc = f"gaps {[case['gaps'][i] for i in range(len(pdus))] if case.get('gaps') is not None else case['gap']} s at cuts {case['cuts']} (timeouts: acse {acse}, dimse {dimse}, network {network} s)"
    if got != pdus:
        ctx.fail("pdus-received", key, f"acceptor received {len(got)} PDUs {[g[:1].hex() for g in got if isinstance(g, bytes)]}, {len(pdus)} were sent in segments with {desc}; peer saw {kinds}; longest PDU took {longest} s")
        return
    want = [2] + [4] * case["n_echo"] + [6]
    if [k for k in kinds if k not in (b"", None)][: len(want)] != want:
        ctx.fail("answers", key, f"peer received {kinds}, expected AC, {case['n_echo']} C-ECHO responses and A-RELEASE-RP; {desc}")


CHECKS["delays"] = check_delays


def check_delays_req(ctx, case):
    """The mirror image of 'delays': a pynetdicom REQUESTOR (associate, C-ECHO, release) talks to a raw acceptor that sends its three
    answers (A-ASSOCIATE-AC, C-ECHO response, A-RELEASE-RP) cut into generated segments with generated virtual gaps. Every gap is shorter
    than the network timeout - any gap when the network timeout is None (the library's 'no limit') - and every answer arrives well within
    the ACSE / DIMSE timeout (10 s), but gaps may be longer than the connection timeout, which only governs the TCP connect.
    Oracle: associate() succeeds, the C-ECHO returns Success, release() ends released."""
    from engines import lifecycle as L
    from engines import scenario as SC

    network, conn = case["network"], case["conn"]
    to = {"acse": 10, "dimse": 10, "network": network, "connection": conn}
    answers = [R.ref_encode(SC.RAW_AC), L._echo_rsp(1, 1), R.ref_encode(R.ReleaseRP())]
    script, took, all_gaps = [], [], []
    for i, p in enumerate(answers):
        script.append(["recv_pdu", 30])
        cuts = sorted(set(c for c in case["cuts"][i] if 0 < c < len(p)))
        gaps = (list(case["gaps"][i]) + [0.0] * len(cuts))[: len(cuts)]
        prev = 0
        for j, c in enumerate(cuts + [len(p)]):
            script.append(["send", p[prev:c]])
            prev = c
            if c != len(p):
                script.append(["sleep", gaps[j]])
        took.append(sum(gaps))
        all_gaps += [g for g in gaps if g > 0]
    script += [["recv_until_close", 5], ["close"]]
    if max(took, default=0) + 0.75 > (network if network is not None else 9.0):
        raise HarnessError("generator produced an answer slower than the network/ACSE timeout")
    sc = {"timeouts": to, "max_steps": 80000, "quantum": 0.25, "acceptor": {"kind": "raw", "script": script},
          "requestors": [{"kind": "pynetdicom", "script": [["associate"], ["echo"], ["release"]]}],
          "schedule": {"policy": case["policy"], "seed": case["seed"], "preemptions": [], "nudges": []}}
    out = SC.run(sc)
    for p_ in out["raw"]:
        if p_.error:
            raise HarnessError(f"raw peer failed: {p_.error}")
    classes = ["delays-requestor", f"network-timeout={network}", f"connection-timeout={conn}", out["how"]]
    if any(g > conn for g in all_gaps):
        classes.append("gap-above-connection-timeout")
    ctx.note(case, nontrivial=bool(all_gaps), classes=classes)
    if out["how"] == "budget":
        ctx.inconclusive += 1
        return
    died = [t for t in out["report"]["threads"] if t["exc"] and not t["name"].startswith("raw-")]
    if died:
        ctx.fail("thread-exception", f"{died[0]['kind']}:{died[0]['exc'][2]}", f"{died[0]['name']} died: {died[0]['exc'][:2]}")
        return
    steps = [(k, v) for _t, k, v in out["requestors"][0]["steps"]]
    want = [("associate", True), ("echo", 0), ("release", True)]
    if steps != want:
        ctx.fail("requestor-conversation", f"network={'none' if network is None else 'set'}", f"requestor steps {steps}, expected {want}; answers sent in segments at cuts {case['cuts']} with gaps {case['gaps']} s (timeouts {to}); outcome {out['requestors'][0].get('outcome')}")


CHECKS["delays_req"] = check_delays_req
_run_sync = run


def run(ctx):
    from hypothesis import strategies as st

    from engines import scenario as SC

    _run_sync(ctx)
    rq_len, echo_len = len(R.ref_encode(SC.RAW_RQ)), len(SC.dimse_bytes("echo", 1))

    @st.composite
    def case(draw):
        # three different timeouts; the socket timeout of an accepted connection must be the network timeout, not one of the others
        acse, dimse, network = draw(st.sampled_from([(1, 2, 4), (1, 2, 5), (1, 2, 6), (1, 2.5, 5), (3, 1.5, 5), (3, 2, 6), (2, 1, 4), (2, 3, 6)]))
        n_echo = draw(st.integers(0, 2))
        lens = [rq_len] + [echo_len] * n_echo + [10]
        cuts, gaps = [], []
        for i, ln in enumerate(lens):
            # at most two cuts per PDU, so that the whole PDU stays faster than the network timeout (and the request faster than ARTIM)
            budget = (acse if i == 0 else network) - 0.75
            k = draw(st.sampled_from([0, 1, 1, 1, 2]))
            cs = sorted(set(draw(st.one_of(st.integers(1, 5), st.integers(6, ln - 1))) for _ in range(k)))
            gs = []
            for _ in cs:
                # relative to each timeout: just below / just above acse and dimse, between acse and network, just below network
                g = draw(st.sampled_from([network - 0.75, acse + 0.25, (acse + network) / 2, dimse + 0.25, network - 1.0, acse - 0.25, dimse - 0.25, acse + 0.5, 0.25, network - 0.75]))
                g = max(min(g, budget - sum(gs)), 0.0)
                gs.append(round(g * 4) / 4)
            cuts.append(cs)
            gaps.append(gs)
        # idle time before PDU i (i >= 1), itself below the network timeout; together with the time the previous PDU took it may exceed it
        pauses = [0.0] + [draw(st.sampled_from([0.0, 0.0, network - 0.75, network - 1.0, network / 2, 1.0])) for _ in lens[1:]]
        return {"acse": acse, "dimse": dimse, "network": network, "n_echo": n_echo, "cuts": cuts, "gaps": gaps, "pauses": pauses,
                "policy": draw(st.sampled_from(["fifo", "random"])), "seed": draw(st.integers(0, 9999))}

    ctx.hyp("delays", case(), 400 if ctx.quick else 1200)

    @st.composite
    def case_req(draw):
        network = draw(st.sampled_from([None, None, 4, 6]))
        conn = draw(st.sampled_from([0.5, 1, 2]))
        limit = (network if network is not None else 9.0) - 0.75
        cuts, gaps = [], []
        for _ in range(3):
            cs = draw(st.lists(st.one_of(st.integers(1, 7), st.integers(1, 200)), max_size=2))
            gs, left = [], limit
            for _c in cs:
                g = draw(st.sampled_from([0.0, conn * 0.5, conn + 0.3, conn + 1.2, 2.5]))
                g = min(g, max(left - 0.01, 0.0))
                gs.append(round(g, 2))
                left -= g
            cuts.append(cs)
            gaps.append(gs)
        return {"network": network, "conn": conn, "cuts": cuts, "gaps": gaps, "policy": draw(st.sampled_from(["fifo", "random"])), "seed": draw(st.integers(0, 9999))}

    ctx.hyp("delays_req", case_req(), 120 if ctx.quick else 600)
