#!/bin/bash
# Whole repository suite, one pytest per test file, each in its own network namespace (private loopback, so the fixed
# ports do not collide), N in parallel; the start-up-time sensitive apps tests afterwards with low parallelism; the two
# tests that need the host's routing table (connection to an unroutable address) in the host namespace under a lock.
# usage: repo_tests_all.sh <repo_dir> [parallelism]   -> exit 1 if any test failed
REPO=${1:-/repo}; P=${2:-12}
cd "$REPO" || exit 2
OUT=$(mktemp -d /var/tmp/repotests.XXXXXX)
HOSTNS="pynetdicom/tests/test_ae.py::TestAEGoodAssociation::test_association_timeouts pynetdicom/tests/test_ae.py::TestAEGoodAssociation::test_connection_timeout"
run() { # $1 = parallelism, stdin = files
  xargs -P "$1" -I{} bash -c '
  f="{}"; log="'"$OUT"'/$(echo $f | tr / _).log"
  unshare -rn bash -c "ip link set lo up; cd '"$REPO"'; /venv/bin/python -m pytest -q -p no:cacheprovider --timeout=900 $f --deselect pynetdicom/tests/test_ae.py::TestAEGoodAssociation::test_association_timeouts --deselect pynetdicom/tests/test_ae.py::TestAEGoodAssociation::test_connection_timeout" > "$log" 2>&1
  echo "$(tail -1 "$log") :: $f"'
}
find pynetdicom/tests -name 'test_*.py' | sort | run "$P"
find pynetdicom/apps -name "test_*.py" | sort | run 1
flock /var/tmp/pynetdicom-pytest.lock /venv/bin/python -m pytest -q -p no:cacheprovider --timeout=900 $HOSTNS > "$OUT/hostns.log" 2>&1; echo "$(tail -1 $OUT/hostns.log) :: host-namespace tests"
echo "---- failures:"
grep -h "^FAILED\|^ERROR" "$OUT"/*.log | sort | uniq
n=$(grep -h "^FAILED\|^ERROR" "$OUT"/*.log | wc -l)
echo "total failed/error lines: $n (logs in $OUT)"
[ "$n" -eq 0 ]
