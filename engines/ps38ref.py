"""E1 - independent PS3.8 (Tables 9-11..9-26) / PS3.7 Annex D (D.3-1..D.3-14) wire model.

Abstract values are plain dataclasses; `ref_encode` writes the byte layout the tables prescribe,
`ref_parse` is a recursive-descent reader that checks every length field against what follows.
Nothing here imports pynetdicom's codec tables; `to_primitive_*` / `pdu_to_value` (bottom of the file)
are the only bridge and use public attributes only.
"""
from __future__ import annotations

import struct
from dataclasses import dataclass, field
from typing import Any

from vlib.jsonable import register

# --------------------------------------------------------------------------- value types


@register
@dataclass
class MaxLength:  # 0x51
    value: int


@register
@dataclass
class ImplClassUID:  # 0x52
    uid: str


@register
@dataclass
class AsyncOps:  # 0x53
    invoked: int
    performed: int


@register
@dataclass
class RoleSelection:  # 0x54
    uid: str
    scu: int
    scp: int


@register
@dataclass
class ImplVersion:  # 0x55
    name: str


@register
@dataclass
class SOPExt:  # 0x56
    uid: str
    info: bytes


@register
@dataclass
class SOPCommonExt:  # 0x57
    uid: str
    service_uid: str
    related: list


@register
@dataclass
class UserIdRQ:  # 0x58
    id_type: int
    response_requested: int
    primary: bytes
    secondary: bytes


@register
@dataclass
class UserIdAC:  # 0x59
    response: bytes


@register
@dataclass
class PCRQ:  # 0x20
    cid: int
    abstract: str
    transfer: list


@register
@dataclass
class PCAC:  # 0x21
    cid: int
    result: int
    transfer: Any  # str | None (None = no transfer syntax sub-item)


@register
@dataclass
class AssocRQ:
    called: str
    calling: str
    app_context: str
    contexts: list
    user_info: list
    protocol_version: int = 1
    lead_called: int = 0  # leading spaces in the 16 byte field (non-significant, Table 9-11)
    lead_calling: int = 0


@register
@dataclass
class AssocAC:
    called: str  # "reserved" fields 11-26 / 27-42: sent as received, not tested by a receiver
    calling: str
    app_context: str
    contexts: list
    user_info: list
    protocol_version: int = 1


@register
@dataclass
class AssocRJ:
    result: int
    source: int
    reason: int


@register
@dataclass
class PData:
    pdvs: list  # list of [context_id, bytes]  (bytes = message control header + fragment)


@register
@dataclass
class ReleaseRQ:
    pass


@register
@dataclass
class ReleaseRP:
    pass


@register
@dataclass
class Abort:
    source: int
    reason: int


class Reject(Exception):
    """ref_parse: the byte string is not a conformant PDU (reason in args[0])."""


# --------------------------------------------------------------------------- reference encoder

def _u16(v):
    return struct.pack(">H", v)


def _u32(v):
    return struct.pack(">I", v)


def _item(t, body, second=0):
    return bytes([t, second]) + _u16(len(body)) + body


def _ae(s, lead=0):
    b = b" " * lead + s.encode("ascii")
    assert len(b) <= 16
    return b + b" " * (16 - len(b))


def enc_user_item(it):
    if isinstance(it, MaxLength):
        return _item(0x51, _u32(it.value))
    if isinstance(it, ImplClassUID):
        return _item(0x52, it.uid.encode("ascii"))
    if isinstance(it, AsyncOps):
        return _item(0x53, _u16(it.invoked) + _u16(it.performed))
    if isinstance(it, RoleSelection):
        u = it.uid.encode("ascii")
        return _item(0x54, _u16(len(u)) + u + bytes([it.scu, it.scp]))
    if isinstance(it, ImplVersion):
        return _item(0x55, it.name.encode("ascii"))
    if isinstance(it, SOPExt):
        u = it.uid.encode("ascii")
        return _item(0x56, _u16(len(u)) + u + bytes(it.info))
    if isinstance(it, SOPCommonExt):
        u = it.uid.encode("ascii")
        s = it.service_uid.encode("ascii")
        rel = b"".join(_u16(len(r.encode("ascii"))) + r.encode("ascii") for r in it.related)
        return _item(0x57, _u16(len(u)) + u + _u16(len(s)) + s + _u16(len(rel)) + rel)
    if isinstance(it, UserIdRQ):
        return _item(
            0x58,
            bytes([it.id_type, it.response_requested])
            + _u16(len(it.primary))
            + bytes(it.primary)
            + _u16(len(it.secondary))
            + bytes(it.secondary),
        )
    if isinstance(it, UserIdAC):
        return _item(0x59, _u16(len(it.response)) + bytes(it.response))
    raise TypeError(it)


def enc_pc_rq(c):
    body = bytes([c.cid, 0, 0, 0]) + _item(0x30, c.abstract.encode("ascii"))
    for t in c.transfer:
        body += _item(0x40, t.encode("ascii"))
    return _item(0x20, body)


def enc_pc_ac(c):
    body = bytes([c.cid, 0, c.result, 0])
    if c.transfer is not None:
        body += _item(0x40, c.transfer.encode("latin-1"))
    return _item(0x21, body)


def _pdu(t, body):
    return bytes([t, 0]) + _u32(len(body)) + body


def ref_encode(v):
    if isinstance(v, AssocRQ):
        body = _u16(v.protocol_version) + b"\x00\x00" + _ae(v.called, v.lead_called) + _ae(v.calling, v.lead_calling) + bytes(32)
        body += _item(0x10, v.app_context.encode("ascii"))
        for c in v.contexts:
            body += enc_pc_rq(c)
        body += _item(0x50, b"".join(enc_user_item(i) for i in v.user_info))
        return _pdu(1, body)
    if isinstance(v, AssocAC):
        body = _u16(v.protocol_version) + b"\x00\x00" + _ae(v.called) + _ae(v.calling) + bytes(32)
        body += _item(0x10, v.app_context.encode("ascii"))
        for c in v.contexts:
            body += enc_pc_ac(c)
        body += _item(0x50, b"".join(enc_user_item(i) for i in v.user_info))
        return _pdu(2, body)
    if isinstance(v, AssocRJ):
        return _pdu(3, bytes([0, v.result, v.source, v.reason]))
    if isinstance(v, PData):
        body = b""
        for cid, data in v.pdvs:
            body += _u32(len(data) + 1) + bytes([cid]) + bytes(data)
        return _pdu(4, body)
    if isinstance(v, ReleaseRQ):
        return _pdu(5, bytes(4))
    if isinstance(v, ReleaseRP):
        return _pdu(6, bytes(4))
    if isinstance(v, Abort):
        return _pdu(7, bytes([0, 0, v.source, v.reason]))
    raise TypeError(v)


# --------------------------------------------------------------------------- reference parser

AE_CHARS = set(range(0x20, 0x7F)) - {0x5C}


def _chk_ae(b, what, strict):
    if len(b) != 16:
        raise Reject(f"{what}: not 16 bytes")
    if any(c not in AE_CHARS for c in b):
        raise Reject(f"{what}: illegal character")
    s = b.decode("ascii")
    lead = len(s) - len(s.lstrip(" "))
    s2 = s.strip(" ")
    if not s2:
        raise Reject(f"{what}: all spaces")
    return s2, lead


def uid_ok(s):
    if not (1 <= len(s) <= 64):
        return False
    for comp in s.split("."):
        if not comp or not comp.isdigit() or not comp.isascii():
            return False
        if len(comp) > 1 and comp[0] == "0":
            return False
    return True


def _uid(b, what, strict):
    try:
        s = b.decode("ascii")
    except UnicodeDecodeError:
        raise Reject(f"{what}: non-ascii UID")
    if strict and not uid_ok(s):
        raise Reject(f"{what}: non-conformant UID {s!r}")
    return s


class _R:
    def __init__(self, b, what):
        self.b, self.o, self.what = b, 0, what

    def take(self, n):
        if self.o + n > len(self.b):
            raise Reject(f"{self.what}: truncated (need {n} at {self.o}, have {len(self.b) - self.o})")
        out = self.b[self.o : self.o + n]
        self.o += n
        return out

    def u8(self):
        return self.take(1)[0]

    def u16(self):
        return struct.unpack(">H", self.take(2))[0]

    def u32(self):
        return struct.unpack(">I", self.take(4))[0]

    def rest(self):
        return len(self.b) - self.o

    def item(self):
        t = self.u8()
        second = self.u8()
        ln = self.u16()
        return t, second, self.take(ln)


def parse_user_item(t, second, body, strict):
    r = _R(body, f"item {t:#x}")
    if t == 0x51:
        if len(body) != 4:
            raise Reject("max length: length != 4")
        return MaxLength(r.u32())
    if t == 0x52:
        return ImplClassUID(_uid(body, "impl class uid", strict))
    if t == 0x53:
        if len(body) != 4:
            raise Reject("async ops: length != 4")
        return AsyncOps(r.u16(), r.u16())
    if t == 0x54:
        n = r.u16()
        u = _uid(r.take(n), "role uid", strict)
        scu, scp = r.u8(), r.u8()
        if r.rest():
            raise Reject("role selection: trailing bytes")
        if strict and (scu > 1 or scp > 1):
            raise Reject("role selection: role byte not 0/1")
        return RoleSelection(u, scu, scp)
    if t == 0x55:
        try:
            s = body.decode("ascii")
        except UnicodeDecodeError:
            raise Reject("impl version: non-ascii")
        if strict and (not (1 <= len(s) <= 16) or any(ord(c) not in AE_CHARS for c in s) or not s.strip(" ")):
            raise Reject("impl version: length/characters")
        return ImplVersion(s)
    if t == 0x56:
        n = r.u16()
        u = _uid(r.take(n), "sop ext uid", strict)
        return SOPExt(u, r.take(r.rest()))
    if t == 0x57:
        n = r.u16()
        u = _uid(r.take(n), "common ext sop uid", strict)
        n = r.u16()
        s = _uid(r.take(n), "common ext service uid", strict)
        n = r.u16()
        rr = _R(r.take(n), "common ext related")
        rel = []
        while rr.rest():
            m = rr.u16()
            rel.append(_uid(rr.take(m), "related uid", strict))
        # remaining bytes: "reserved for additional fields of the sub-item; shall be zero-length for version 0 of the sub-item
        # definition" (PS3.7 Table D.3-13). The lenient parser ignores them; a sender that puts bytes there does not conform to
        # version 0 (byte 2 of this sub-item is its version, not a reserved byte), so the strict parser does not vouch for it.
        if strict and (r.rest() or second != 0):
            raise Reject("common ext: bytes after the related general SOP class list / sub-item version != 0")
        return SOPCommonExt(u, s, rel)
    if t == 0x58:
        ty, rq = r.u8(), r.u8()
        n = r.u16()
        p = r.take(n)
        n = r.u16()
        s = r.take(n)
        if r.rest():
            raise Reject("user id rq: trailing bytes")
        if strict and not (1 <= ty <= 5):
            raise Reject("user id rq: type")
        if strict and rq > 1:
            raise Reject("user id rq: response requested")
        return UserIdRQ(ty, rq, p, s)
    if t == 0x59:
        n = r.u16()
        resp = r.take(n)
        if r.rest():
            raise Reject("user id ac: trailing bytes")
        return UserIdAC(resp)
    raise Reject(f"unknown user information sub-item {t:#x}")


def _parse_assoc(body, kind, strict):
    r = _R(body, "associate")
    pv = r.u16()
    r.take(2)
    called_b, calling_b = r.take(16), r.take(16)
    r.take(32)
    lead_called = lead_calling = 0
    if kind == 1:
        called, lead_called = _chk_ae(called_b, "called", strict)
        calling, lead_calling = _chk_ae(calling_b, "calling", strict)
        if not (pv & 1):
            raise Reject("protocol version bit 0 not set")
    else:
        # Table 9-17: reserved, shall not be tested
        called = called_b.decode("latin-1").strip(" ")
        calling = calling_b.decode("latin-1").strip(" ")
    app, ctxs, ui = [], [], []
    order = []
    while r.rest():
        t, second, ib = r.item()
        order.append(t)
        if t == 0x10:
            app.append(_uid(ib, "application context", strict))
        elif t == 0x20 and kind == 1:
            rr = _R(ib, "pc rq")
            cid = rr.u8()
            rr.take(3)
            ab, ts = [], []
            while rr.rest():
                st, _, sb = rr.item()
                if st == 0x30:
                    ab.append(_uid(sb, "abstract syntax", strict))
                elif st == 0x40:
                    ts.append(_uid(sb, "transfer syntax", strict))
                else:
                    raise Reject(f"pc rq: unknown sub-item {st:#x}")
            if len(ab) != 1:
                raise Reject("pc rq: abstract syntax count != 1")
            if strict and not ts:
                raise Reject("pc rq: no transfer syntax")
            if strict and (cid % 2 == 0):
                raise Reject("pc rq: even context id")
            ctxs.append(PCRQ(cid, ab[0], ts))
        elif t == 0x21 and kind == 2:
            rr = _R(ib, "pc ac")
            cid = rr.u8()
            rr.take(1)
            res = rr.u8()
            rr.take(1)
            ts = []
            while rr.rest():
                st, _, sb = rr.item()
                if st != 0x40:
                    raise Reject(f"pc ac: unknown sub-item {st:#x}")
                # Table 9-18: not significant / not tested unless accepted
                ts.append(_uid(sb, "transfer syntax", strict and res == 0) if res == 0 else sb.decode("latin-1"))
            if len(ts) > 1:
                raise Reject("pc ac: more than one transfer syntax")
            if strict and res == 0 and len(ts) != 1:
                raise Reject("pc ac: accepted without transfer syntax")
            if strict and res > 4:
                raise Reject("pc ac: result out of range")
            if strict and (cid % 2 == 0):
                raise Reject("pc ac: even context id")
            ctxs.append(PCAC(cid, res, ts[0] if ts else None))
        elif t == 0x50:
            rr = _R(ib, "user info")
            items = []
            while rr.rest():
                st, sec, sb = rr.item()
                items.append(parse_user_item(st, sec, sb, strict))
            ui.append(items)
        else:
            raise Reject(f"associate: unknown/unexpected item {t:#x}")
    if len(app) != 1:
        raise Reject("application context count != 1")
    if len(ui) != 1:
        raise Reject("user information count != 1")
    if strict:
        # conservative: only the order of the tables (application context, presentation contexts, user information)
        if order != sorted(order):
            raise Reject("variable items not in table order")
        if kind == 1 and not (1 <= len(ctxs) <= 128):
            raise Reject("rq: context count")
        ids = [c.cid for c in ctxs]
        if len(set(ids)) != len(ids):
            raise Reject("duplicate context ids")
        if sum(isinstance(i, MaxLength) for i in ui[0]) != 1:
            raise Reject("max length count != 1")
        if sum(isinstance(i, ImplClassUID) for i in ui[0]) != 1:
            raise Reject("implementation class uid count != 1")
    if kind == 1:
        return AssocRQ(called, calling, app[0], ctxs, ui[0], pv, lead_called, lead_calling)
    return AssocAC(called, calling, app[0], ctxs, ui[0], pv)


RJ_LEGAL = {
    (1, 1), (1, 2), (1, 3), (1, 7),  # source 1: reasons 1,2,3,7
    (2, 1), (2, 2),  # source 2 (ACSE)
    (3, 1), (3, 2),  # source 3 (presentation): 1 temporary congestion, 2 local limit exceeded (0, 3-7 reserved)
}
ABORT_LEGAL_PROVIDER_REASONS = {0, 1, 2, 4, 5, 6}


def ref_parse(b, strict=True):
    """-> (value, consumed). Raises Reject. Reads exactly one PDU from the start of `b`."""
    r = _R(b, "pdu")
    t = r.u8()
    r.u8()
    ln = r.u32()
    body = r.take(ln)
    if t in (1, 2):
        return _parse_assoc(body, t, strict), r.o
    if t == 3:
        if ln != 4:
            raise Reject("rj: length != 4")
        res, src, rsn = body[1], body[2], body[3]
        if strict and (res not in (1, 2) or (src, rsn) not in RJ_LEGAL):
            raise Reject("rj: reserved result/source/reason")
        return AssocRJ(res, src, rsn), r.o
    if t == 4:
        rr = _R(body, "p-data")
        pdvs = []
        while rr.rest():
            n = rr.u32()
            if n < 1:
                raise Reject("pdv: length 0")
            item = rr.take(n)
            if strict and n < 2:
                raise Reject("pdv: no message control header")
            pdvs.append([item[0], item[1:]])
        if strict and not pdvs:
            raise Reject("p-data: no PDV item")
        return PData(pdvs), r.o
    if t in (5, 6):
        if ln != 4:
            raise Reject("release: length != 4")
        return (ReleaseRQ() if t == 5 else ReleaseRP()), r.o
    if t == 7:
        if ln != 4:
            raise Reject("abort: length != 4")
        src, rsn = body[2], body[3]
        if strict and src not in (0, 2):
            raise Reject("abort: reserved source")
        if strict and src == 2 and rsn not in ABORT_LEGAL_PROVIDER_REASONS:
            raise Reject("abort: reserved reason")
        return Abort(src, rsn), r.o
    raise Reject(f"unknown pdu type {t:#x}")


# --------------------------------------------------------------------------- strategies

def strategies():
    """Returns a namespace of Hypothesis strategies (imported lazily so the module loads without hypothesis)."""
    from types import SimpleNamespace

    from hypothesis import strategies as st

    ae_alphabet = "".join(chr(c) for c in sorted(AE_CHARS))
    inner = st.text(alphabet=ae_alphabet, min_size=0, max_size=14)
    edge = st.sampled_from([c for c in ae_alphabet if c != " "])

    @st.composite
    def ae_title(draw):
        kind = draw(st.integers(0, 9))
        if kind == 0:
            return draw(edge)
        if kind == 1:
            mid = draw(st.text(alphabet=ae_alphabet, min_size=14, max_size=14))
            return draw(edge) + mid + draw(edge)
        if kind <= 5:
            return draw(st.text(alphabet="ABCDEFGHIJKLMNOPQRSTUVWXYZ0123456789_", min_size=1, max_size=16))
        mid = draw(inner)
        return (draw(edge) + mid + draw(edge))[:16].rstrip(" ") or "A"

    comp = st.one_of(st.just("0"), st.integers(1, 10**6).map(str), st.integers(1, 9).map(str))

    @st.composite
    def uid(draw, max_len=64):
        kind = draw(st.integers(0, 9))
        if kind == 0:
            return draw(st.sampled_from(["1", "0", "2"]))
        if kind == 1:  # exactly max_len chars
            s = "1.2.840.10008"
            while len(s) < max_len - 2:
                s += "." + draw(comp)
            s = s[:max_len]
            if s.endswith("."):
                s = s[:-1] + "1"
            # fix up components with leading zeros produced by the cut
            s = s.ljust(max_len, "1")
            parts = s.split(".")
            parts = [p if (len(p) == 1 or p[0] != "0") else "1" + p[1:] for p in parts]
            return ".".join(parts)
        if kind <= 4:
            return draw(
                st.sampled_from(
                    [
                        "1.2.840.10008.1.1",
                        "1.2.840.10008.1.2",
                        "1.2.840.10008.1.2.1",
                        "1.2.840.10008.1.2.2",
                        "1.2.840.10008.5.1.4.1.1.2",
                        "1.2.840.10008.5.1.4.1.2.1.1",
                        "1.2.840.10008.3.1.1.1",
                        "1.2.3.4",
                    ]
                )
            )
        n = draw(st.integers(1, 8))
        s = ".".join(draw(comp) for _ in range(n))
        return s[:max_len].rstrip(".") or "1"

    field_bytes = st.one_of(
        st.just(b""),
        st.binary(min_size=1, max_size=8),
        st.binary(min_size=1, max_size=300),
    )
    nonempty_field = st.one_of(st.binary(min_size=1, max_size=8), st.binary(min_size=1, max_size=300))

    max_length = st.builds(MaxLength, st.one_of(st.sampled_from([0, 1, 16382, 65536, 2**32 - 1]), st.integers(0, 2**32 - 1)))
    impl_uid = st.builds(ImplClassUID, uid())
    impl_ver = st.builds(ImplVersion, st.text(alphabet=ae_alphabet.replace(" ", ""), min_size=1, max_size=16))
    async_ops = st.builds(AsyncOps, st.integers(0, 65535), st.integers(0, 65535))
    role = st.builds(RoleSelection, uid(), st.integers(0, 1), st.integers(0, 1))
    sop_ext = st.builds(SOPExt, uid(), st.binary(min_size=0, max_size=64))
    common_ext = st.builds(SOPCommonExt, uid(), uid(), st.lists(uid(), min_size=0, max_size=3))
    user_id_rq = st.builds(UserIdRQ, st.integers(1, 5), st.integers(0, 1), field_bytes, field_bytes)
    user_id_ac = st.builds(UserIdAC, field_bytes)

    rq_items = st.lists(
        st.one_of(max_length, impl_uid, impl_ver, async_ops, role, role, sop_ext, common_ext, user_id_rq), min_size=0, max_size=7
    )
    ac_items = st.lists(st.one_of(max_length, impl_uid, impl_ver, async_ops, role, role, sop_ext, user_id_ac), min_size=0, max_size=7)

    cid = st.integers(0, 127).map(lambda i: 2 * i + 1)

    def contexts_rq(maxn):
        return st.lists(st.builds(PCRQ, cid, uid(), st.lists(uid(), min_size=0, max_size=5, unique=True)), min_size=0, max_size=maxn)

    def contexts_ac(maxn):
        acc = st.builds(PCAC, cid, st.just(0), uid())
        rej = st.builds(PCAC, cid, st.integers(1, 4), st.one_of(uid(), st.none()))
        return st.lists(st.one_of(acc, rej), min_size=0, max_size=maxn)

    def assoc_rq(maxn=8, leads=True):
        @st.composite
        def s(draw):
            called, calling = draw(ae_title()), draw(ae_title())
            lc = draw(st.integers(0, 16 - len(called))) if leads and draw(st.booleans()) else 0
            lg = draw(st.integers(0, 16 - len(calling))) if leads and draw(st.booleans()) else 0
            return AssocRQ(called, calling, draw(uid()), draw(contexts_rq(maxn)), draw(rq_items), 1, lc, lg)

        return s()

    def assoc_ac(maxn=8):
        return st.builds(AssocAC, ae_title(), ae_title(), uid(), contexts_ac(maxn), ac_items, st.just(1))

    rj = st.sampled_from(sorted(RJ_LEGAL)).flatmap(lambda sr: st.builds(AssocRJ, st.integers(1, 2), st.just(sr[0]), st.just(sr[1])))
    abort = st.one_of(
        st.builds(Abort, st.just(0), st.just(0)),
        st.builds(Abort, st.just(2), st.sampled_from(sorted(ABORT_LEGAL_PROVIDER_REASONS))),
    )
    pdv = st.tuples(cid, st.one_of(st.binary(min_size=1, max_size=12), st.binary(min_size=1, max_size=2000))).map(list)
    pdata = st.builds(PData, st.lists(pdv, min_size=0, max_size=6))

    def any_pdu(maxn=8):
        return st.one_of(
            assoc_rq(maxn), assoc_ac(maxn), rj, pdata, st.just(ReleaseRQ()), st.just(ReleaseRP()), abort
        )

    # ---- conformant by construction (every value is accepted by ref_parse(strict=True)): exactly one Maximum Length and
    # one Implementation Class UID sub-item, the optional sub-items in their legal multiplicity (PS3.7 Annex D.3.3: at most
    # one 0x53/0x55/0x58/0x59, one 0x54/0x56/0x57 per SOP class), 1..n presentation contexts with unique odd IDs.
    user_text = st.text(alphabet="abcdefghijklmnopqrstuvwxyzABCDEFGHIJKLMNOPQRSTUVWXYZ0123456789 _-.@", min_size=1, max_size=24).map(lambda s: s.encode("ascii"))
    legal_max_length = st.builds(MaxLength, st.one_of(st.sampled_from([0, 1, 6, 7, 16382, 16384, 65536, 2**31 - 1, 2**31, 2**32 - 1]), st.integers(0, 2**32 - 1)))

    @st.composite
    def legal_user_id_rq(draw):
        ty = draw(st.integers(1, 5))
        primary = draw(user_text) if ty <= 2 else draw(nonempty_field)
        secondary = draw(user_text) if ty == 2 else b""
        return UserIdRQ(ty, draw(st.integers(0, 1)), primary, secondary)

    def conformant_user_items(kind):
        @st.composite
        def s(draw):
            items = [draw(legal_max_length), draw(impl_uid)]
            if draw(st.booleans()):
                items.append(draw(async_ops))
            items += draw(st.lists(role, max_size=3, unique_by=lambda r: r.uid))
            if draw(st.booleans()):
                items.append(draw(impl_ver))
            items += draw(st.lists(sop_ext, max_size=2, unique_by=lambda r: r.uid))
            if kind == "rq":
                items += draw(st.lists(common_ext, max_size=2, unique_by=lambda r: r.uid))
                if draw(st.integers(0, 2)) == 0:
                    items.append(draw(legal_user_id_rq()))
            elif draw(st.integers(0, 2)) == 0:
                items.append(draw(user_id_ac))
            if draw(st.integers(0, 3)) == 0:
                items = list(draw(st.permutations(items)))
            return items

        return s()

    def unique_cids(minn, maxn):
        return st.lists(cid, min_size=minn, max_size=maxn, unique=True)

    def conformant_rq(maxn=4, leads=True, versions=True):
        @st.composite
        def s(draw):
            called, calling = draw(ae_title()), draw(ae_title())
            lc = draw(st.integers(0, 16 - len(called))) if leads and draw(st.booleans()) else 0
            lg = draw(st.integers(0, 16 - len(calling))) if leads and draw(st.booleans()) else 0
            if maxn > 16:
                # many contexts (up to the 128 the ID space allows): one drawn abstract syntax root and transfer syntax list for all
                # of them, so that the example stays cheap to generate
                n = draw(st.sampled_from([128, 128, 127, 64, 17]))
                ids = list(range(1, 256, 2))[: min(n, maxn)]
                root, ts = draw(uid(56)), draw(st.lists(uid(), min_size=1, max_size=2, unique=True))
                ctxs = [PCRQ(i, f"{root}.{i}", ts) for i in ids]
            else:
                ids = sorted(draw(unique_cids(1, maxn)))
                if draw(st.integers(0, 4)) == 0:
                    ids = list(draw(st.permutations(ids)))
                ctxs = [PCRQ(i, draw(uid()), draw(st.lists(uid(), min_size=1, max_size=4, unique=True))) for i in ids]
            pv = 1 if not versions or draw(st.integers(0, 2)) else draw(st.integers(0, 0x7FFF)) * 2 + 1
            return AssocRQ(called, calling, draw(uid()), ctxs, draw(conformant_user_items("rq")), pv, lc, lg)

        return s()

    def conformant_ac(maxn=4, versions=True):
        @st.composite
        def s(draw):
            ctxs = []
            if maxn > 16:
                n = draw(st.sampled_from([128, 128, 127, 64, 17]))
                ts = draw(uid())
                results = draw(st.lists(st.sampled_from([0, 0, 0, 1, 2, 3, 4]), min_size=8, max_size=8))
                for k, i in enumerate(list(range(1, 256, 2))[: min(n, maxn)]):
                    res = results[k % 8]
                    ctxs.append(PCAC(i, res, ts if res == 0 or k % 3 else None))
            else:
                for i in sorted(draw(unique_cids(1, maxn))):
                    res = draw(st.sampled_from([0, 0, 0, 1, 2, 3, 4]))
                    if res != 0 and draw(st.integers(0, 2)) == 0:
                        # not accepted: the transfer-syntax field "shall not be significant ... shall not be tested" (Table 9-18): any bytes
                        junk = draw(st.text(alphabet=st.characters(min_codepoint=1, max_codepoint=255), min_size=1, max_size=12))
                        ctxs.append(PCAC(i, res, junk))
                        continue
                    ctxs.append(PCAC(i, res, draw(uid()) if res == 0 or draw(st.booleans()) else None))
            pv = 1 if not versions or draw(st.integers(0, 2)) else draw(st.integers(0, 0x7FFF)) * 2 + 1
            return AssocAC(draw(ae_title()), draw(ae_title()), draw(uid()), ctxs, draw(conformant_user_items("ac")), pv)

        return s()

    @st.composite
    def fill_reserved(draw, b, ac_titles=True):
        """Encoded conformant PDU -> the same PDU with bytes drawn for every field PS3.8 marks 'reserved ... shall not be
        tested' (see reserved_offsets); ac_titles=False leaves the two reserved AE-title fields of an A-ASSOCIATE-AC alone."""
        b = bytearray(b)
        offs = [o for o in reserved_offsets(bytes(b)) if ac_titles or not (b[0] == 2 and 10 <= o < 42)]
        mode = draw(st.integers(0, 3))
        if mode == 0:
            fill = bytes([draw(st.sampled_from([0xFF, 0x80, 0x01, 0x20, 0x5C, 0xC3]))]) * len(offs)
        elif mode == 1:  # a few of them
            fill = bytearray(b[o] for o in offs)
            for _ in range(draw(st.integers(1, 4))):
                if offs:
                    fill[draw(st.integers(0, len(offs) - 1))] = draw(st.integers(1, 255))
        else:
            fill = draw(st.binary(min_size=len(offs), max_size=len(offs)))
        for o, v in zip(offs, fill):
            b[o] = v
        return bytes(b)

    return SimpleNamespace(**locals())


def reserved_offsets(b):
    """Offsets of every byte of the well-formed PDU `b` that PS3.8 Tables 9-11..9-26 / PS3.7 Annex D mark as reserved
    ('sent with value 00H but not tested'): byte 2 of the PDU header and of every item / sub-item header, bytes 9-10 and 43-74
    of A-ASSOCIATE-RQ/AC, the called/calling AE title fields of an A-ASSOCIATE-AC (Table 9-17), the three bytes after the context
    ID of a presentation context item (RQ) resp. the bytes before and after Result/Reason (AC), byte 7 of A-ASSOCIATE-RJ,
    bytes 7-10 of A-RELEASE-RQ/RP and bytes 7-8 of A-ABORT; not byte 2 of sub-item 57H (Table D.3-13: sub-item version). Unknown
    layouts contribute only the PDU-level fields."""
    out = [1]
    if len(b) < 6:
        return out
    t = b[0]
    if t in (1, 2) and len(b) >= 74:
        out += [8, 9] + list(range(42, 74))
        if t == 2:
            out += list(range(10, 42))

        def walk(o, stop, depth):
            while o + 4 <= stop:
                ln = struct.unpack(">H", b[o + 2 : o + 4])[0]
                end = o + 4 + ln
                if end > stop:
                    return
                if not (depth == 1 and b[o] == 0x57):  # byte 2 of the SOP Class Common Extended Negotiation sub-item is its version
                    out.append(o + 1)
                if depth == 0 and b[o] == 0x20 and ln >= 4:
                    out.extend([o + 5, o + 6, o + 7])
                    walk(o + 8, end, 1)
                elif depth == 0 and b[o] == 0x21 and ln >= 4:
                    out.extend([o + 5, o + 7])
                    walk(o + 8, end, 1)
                elif depth == 0 and b[o] == 0x50:
                    walk(o + 4, end, 1)
                o = end

        walk(74, len(b), 0)
    elif t == 3 and len(b) == 10:
        out.append(6)
    elif t in (5, 6) and len(b) == 10:
        out += [6, 7, 8, 9]
    elif t == 7 and len(b) == 10:
        out += [6, 7]
    return sorted(set(out))


# --------------------------------------------------------------------------- bridge to pynetdicom (public API only)

def user_item_to_primitive(it):
    from pynetdicom import pdu_primitives as P

    if isinstance(it, MaxLength):
        p = P.MaximumLengthNotification()
        p.maximum_length_received = it.value
    elif isinstance(it, ImplClassUID):
        p = P.ImplementationClassUIDNotification()
        p.implementation_class_uid = it.uid
    elif isinstance(it, ImplVersion):
        p = P.ImplementationVersionNameNotification()
        p.implementation_version_name = it.name
    elif isinstance(it, AsyncOps):
        p = P.AsynchronousOperationsWindowNegotiation()
        p.maximum_number_operations_invoked = it.invoked
        p.maximum_number_operations_performed = it.performed
    elif isinstance(it, RoleSelection):
        p = P.SCP_SCU_RoleSelectionNegotiation()
        p.sop_class_uid = it.uid
        p.scu_role = bool(it.scu)
        p.scp_role = bool(it.scp)
    elif isinstance(it, SOPExt):
        p = P.SOPClassExtendedNegotiation()
        p.sop_class_uid = it.uid
        p.service_class_application_information = bytes(it.info)
    elif isinstance(it, SOPCommonExt):
        p = P.SOPClassCommonExtendedNegotiation()
        p.sop_class_uid = it.uid
        p.service_class_uid = it.service_uid
        p.related_general_sop_class_identification = list(it.related)
    elif isinstance(it, UserIdRQ):
        p = P.UserIdentityNegotiation()
        p.user_identity_type = it.id_type
        p.positive_response_requested = bool(it.response_requested)
        p.primary_field = bytes(it.primary)
        p.secondary_field = bytes(it.secondary)
    elif isinstance(it, UserIdAC):
        p = P.UserIdentityNegotiation()
        p.server_response = bytes(it.response)
    else:
        raise TypeError(it)
    return p


def primitive_to_user_item(p):
    n = type(p).__name__
    if n == "MaximumLengthNotification":
        return MaxLength(p.maximum_length_received)
    if n == "ImplementationClassUIDNotification":
        return ImplClassUID(str(p.implementation_class_uid))
    if n == "ImplementationVersionNameNotification":
        return ImplVersion(p.implementation_version_name)
    if n == "AsynchronousOperationsWindowNegotiation":
        return AsyncOps(p.maximum_number_operations_invoked, p.maximum_number_operations_performed)
    if n == "SCP_SCU_RoleSelectionNegotiation":
        return RoleSelection(str(p.sop_class_uid), int(bool(p.scu_role)), int(bool(p.scp_role)))
    if n == "SOPClassExtendedNegotiation":
        return SOPExt(str(p.sop_class_uid), bytes(p.service_class_application_information or b""))
    if n == "SOPClassCommonExtendedNegotiation":
        return SOPCommonExt(str(p.sop_class_uid), str(p.service_class_uid), [str(u) for u in p.related_general_sop_class_identification])
    if n == "UserIdentityNegotiation":
        if p.server_response is not None:
            return UserIdAC(bytes(p.server_response))
        return UserIdRQ(p.user_identity_type, int(bool(p.positive_response_requested)), bytes(p.primary_field or b""), bytes(p.secondary_field or b""))
    raise TypeError(p)


def to_primitive(v):
    """Abstract value -> pynetdicom service primitive, through public setters only."""
    from pynetdicom import pdu_primitives as P
    from pynetdicom.presentation import PresentationContext

    if isinstance(v, (AssocRQ, AssocAC)):
        p = P.A_ASSOCIATE()
        p.called_ae_title = v.called
        p.calling_ae_title = v.calling
        p.application_context_name = v.app_context
        cxs = []
        for c in v.contexts:
            cx = PresentationContext()
            cx.context_id = c.cid
            if isinstance(c, PCRQ):
                cx.abstract_syntax = c.abstract
                cx.transfer_syntax = list(c.transfer)
            else:
                cx.result = c.result
                cx.transfer_syntax = [c.transfer] if c.transfer is not None else []
            cxs.append(cx)
        if isinstance(v, AssocRQ):
            p.presentation_context_definition_list = cxs
        else:
            p.presentation_context_definition_results_list = cxs
            p.result = 0
        p.user_information = [user_item_to_primitive(i) for i in v.user_info]
        return p
    if isinstance(v, AssocRJ):
        p = P.A_ASSOCIATE()
        p.result = v.result
        p.result_source = v.source
        p.diagnostic = v.reason
        return p
    if isinstance(v, PData):
        p = P.P_DATA()
        p.presentation_data_value_list = [[c, bytes(d)] for c, d in v.pdvs]
        return p
    if isinstance(v, (ReleaseRQ, ReleaseRP)):
        p = P.A_RELEASE()
        if isinstance(v, ReleaseRP):
            p.result = "affirmative"
        return p
    if isinstance(v, Abort):
        if v.source == 0:
            p = P.A_ABORT()
            p.abort_source = 0
        else:
            p = P.A_P_ABORT()
            p.provider_reason = v.reason
        return p
    raise TypeError(v)


def pdu_class(v):
    from pynetdicom import pdu as M

    return {
        AssocRQ: M.A_ASSOCIATE_RQ,
        AssocAC: M.A_ASSOCIATE_AC,
        AssocRJ: M.A_ASSOCIATE_RJ,
        PData: M.P_DATA_TF,
        ReleaseRQ: M.A_RELEASE_RQ,
        ReleaseRP: M.A_RELEASE_RP,
        Abort: M.A_ABORT_RQ,
    }[type(v)]


def item_to_value(it):
    """pynetdicom PDU item object -> abstract value, public attributes only."""
    n = type(it).__name__
    if n == "MaximumLengthSubItem":
        return MaxLength(it.maximum_length_received)
    if n == "ImplementationClassUIDSubItem":
        return ImplClassUID(str(it.implementation_class_uid))
    if n == "ImplementationVersionNameSubItem":
        return ImplVersion(it.implementation_version_name)
    if n == "AsynchronousOperationsWindowSubItem":
        return AsyncOps(it.maximum_number_operations_invoked, it.maximum_number_operations_performed)
    if n == "SCP_SCU_RoleSelectionSubItem":
        return RoleSelection(str(it.sop_class_uid), it.scu_role, it.scp_role)
    if n == "SOPClassExtendedNegotiationSubItem":
        return SOPExt(str(it.sop_class_uid), bytes(it.service_class_application_information or b""))
    if n == "SOPClassCommonExtendedNegotiationSubItem":
        return SOPCommonExt(str(it.sop_class_uid), str(it.service_class_uid), [str(u) for u in it.related_general_sop_class_identification])
    if n == "UserIdentitySubItemRQ":
        return UserIdRQ(it.user_identity_type, it.positive_response_requested, bytes(it.primary_field or b""), bytes(it.secondary_field or b""))
    if n == "UserIdentitySubItemAC":
        return UserIdAC(bytes(it.server_response or b""))
    raise TypeError(it)


def pdu_to_value(pdu):
    """pynetdicom PDU object -> abstract value (lead_* = 0: leading spaces are not significant)."""
    n = type(pdu).__name__
    if n in ("A_ASSOCIATE_RQ", "A_ASSOCIATE_AC"):
        ctxs = []
        for c in pdu.presentation_context:
            if n == "A_ASSOCIATE_RQ":
                ab = [str(s.abstract_syntax_name) for s in c.abstract_transfer_syntax_sub_items if type(s).__name__ == "AbstractSyntaxSubItem"]
                ts = [str(s.transfer_syntax_name) for s in c.abstract_transfer_syntax_sub_items if type(s).__name__ == "TransferSyntaxSubItem"]
                ctxs.append(PCRQ(c.presentation_context_id, ab[0] if len(ab) == 1 else ab, ts))
            else:
                ts = [s.transfer_syntax_name for s in c.transfer_syntax_sub_item]
                ctxs.append(PCAC(c.presentation_context_id, c.result_reason, (str(ts[0]) if len(ts) == 1 else [str(t) for t in ts]) if ts else None))
        ui = [item_to_value(i) for i in pdu.user_information.user_data] if pdu.user_information is not None else None
        app = pdu.application_context_name
        if n == "A_ASSOCIATE_RQ":
            return AssocRQ(pdu.called_ae_title, pdu.calling_ae_title, str(app), ctxs, ui, pdu.protocol_version)
        return AssocAC(pdu.called_ae_title, pdu.calling_ae_title, str(app), ctxs, ui, pdu.protocol_version)
    if n == "A_ASSOCIATE_RJ":
        return AssocRJ(pdu.result, pdu.source, pdu.reason_diagnostic)
    if n == "P_DATA_TF":
        return PData([[i.presentation_context_id, bytes(i.presentation_data_value)] for i in pdu.presentation_data_value_items])
    if n == "A_RELEASE_RQ":
        return ReleaseRQ()
    if n == "A_RELEASE_RP":
        return ReleaseRP()
    if n == "A_ABORT_RQ":
        return Abort(pdu.source, pdu.reason_diagnostic)
    raise TypeError(pdu)


def primitive_to_value(p, like):
    """Service primitive (result of PDU.to_primitive()) -> abstract value of the same kind as `like`."""
    if isinstance(like, (AssocRQ, AssocAC)):
        ui = [primitive_to_user_item(i) for i in p.user_information]
        if isinstance(like, AssocRQ):
            ctxs = [PCRQ(c.context_id, str(c.abstract_syntax), [str(t) for t in c.transfer_syntax]) for c in p.presentation_context_definition_list]
            return AssocRQ(p.called_ae_title, p.calling_ae_title, str(p.application_context_name), ctxs, ui, like.protocol_version)
        ctxs = [
            PCAC(c.context_id, c.result, str(c.transfer_syntax[0]) if c.transfer_syntax else None)
            for c in p.presentation_context_definition_results_list
        ]
        return AssocAC(p.called_ae_title, p.calling_ae_title, str(p.application_context_name), ctxs, ui, like.protocol_version)
    if isinstance(like, AssocRJ):
        return AssocRJ(p.result, p.result_source, p.diagnostic)
    if isinstance(like, PData):
        return PData([[c, bytes(d)] for c, d in p.presentation_data_value_list])
    if isinstance(like, ReleaseRQ):
        return ReleaseRQ() if p.result is None else ReleaseRP()
    if isinstance(like, ReleaseRP):
        return ReleaseRP() if p.result is not None else ReleaseRQ()
    if isinstance(like, Abort):
        if type(p).__name__ == "A_ABORT":
            return Abort(p.abort_source, 0 if p.abort_source == 0 else None)
        return Abort(2, p.provider_reason)
    raise TypeError(like)
