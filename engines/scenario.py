"""Scenario layer on top of E4 (dsched): plain-data scenario -> one controlled execution -> Result.

scenario = {
  "timeouts": {"acse": 5, "dimse": 5, "network": 10, "connection": 5},
  "acceptor":  {"kind": "pynetdicom", "handlers": {...}, "shutdown_at": t|None, "max_assoc": n, ...} | {"kind": "raw", "script": [...]},
               optional for the pynetdicom acceptor: "title": AE title of the acceptor AE (default "ANY-SCP");
               "servers": k (default 1) = the ONE acceptor AE runs k association servers on the virtual ports PORT .. PORT+k-1, all bound to
               the same handlers/recorder (out["_rec_acc"] then holds the events of all servers of the AE, out["_acc_servers"] the servers)
  "requestors": [ {"kind": "pynetdicom", "script": [...], "abort_at": t|None, "start": t} | {"kind": "raw", "script": [...], "start": t}, ... ],
               optional per requestor: "port": the virtual port it connects to (default PORT)
  "schedule": {"policy": "fifo|random|pct", "seed": n, "preemptions": [[step, pick]...], "nudges": [[step, kind]...]},
}
pynetdicom requestor script ops: ["associate"], ["echo"], ["store", nbytes], ["find", max_iter|None], ["release"], ["abort"],
                                 ["sleep", d], ["idle"] (wait for the association to end by itself)
acceptor handler behaviours: {"echo": {"status": 0, "delay": d, "do": None|"abort"|"raise"},
                              "store": {...same...}, "find": {"n": k, "delay": d, "do_at": j, "do": None|"abort"|"raise"}}
"""
from __future__ import annotations

import warnings

import sys

from engines import dsched as S
from engines import ps38ref as R

warnings.filterwarnings("ignore")

VERIFICATION = "1.2.840.10008.1.1"
CT = "1.2.840.10008.5.1.4.1.1.2"
PR_FIND = "1.2.840.10008.5.1.4.1.2.1.1"
IMPLICIT = "1.2.840.10008.1.2"
APP_CTX = "1.2.840.10008.3.1.1.1"
PORT = 11112

RAW_RQ = R.AssocRQ("ANY-SCP", "RAWPEER", APP_CTX, [R.PCRQ(1, VERIFICATION, [IMPLICIT]), R.PCRQ(3, CT, [IMPLICIT]), R.PCRQ(5, PR_FIND, [IMPLICIT])],
                   [R.MaxLength(16382), R.ImplClassUID("1.2.826.0.1.3680043.9.3811.9.9")])
RAW_AC = R.AssocAC("ANY-SCP", "PYNETDICOM", APP_CTX, [R.PCAC(1, 0, IMPLICIT), R.PCAC(3, 0, IMPLICIT), R.PCAC(5, 0, IMPLICIT)],
                   [R.MaxLength(16382), R.ImplClassUID("1.2.826.0.1.3680043.9.3811.9.9")])

PR_GET = "1.2.840.10008.5.1.4.1.2.1.3"
# a raw C-GET requestor: additionally proposes Patient Root GET and the SCP role for CT Image Storage (sub-operations come back to it)
RAW_RQ_GET = R.AssocRQ("ANY-SCP", "RAWPEER", APP_CTX, [R.PCRQ(1, VERIFICATION, [IMPLICIT]), R.PCRQ(3, CT, [IMPLICIT]), R.PCRQ(5, PR_FIND, [IMPLICIT]), R.PCRQ(7, PR_GET, [IMPLICIT])],
                       [R.MaxLength(16382), R.ImplClassUID("1.2.826.0.1.3680043.9.3811.9.9"), R.RoleSelection(CT, 1, 1)])

NOTIFICATION_EVENTS = ["EVT_ABORTED", "EVT_ACCEPTED", "EVT_ACSE_RECV", "EVT_ACSE_SENT", "EVT_CONN_CLOSE", "EVT_CONN_OPEN", "EVT_DATA_RECV",
                       "EVT_DATA_SENT", "EVT_DIMSE_RECV", "EVT_DIMSE_SENT", "EVT_ESTABLISHED", "EVT_FSM_TRANSITION", "EVT_PDU_RECV",
                       "EVT_PDU_SENT", "EVT_REJECTED", "EVT_RELEASED", "EVT_REQUESTED"]


def dimse_bytes(kind, msg_id=1, nbytes=64, max_pdu=16382, context_id=None):
    """P-DATA-TF bytes of a DIMSE request a raw peer sends (built with pynetdicom's encoder: transcript, not oracle)."""
    from io import BytesIO

    from pydicom.dataset import Dataset
    from pynetdicom import dimse_messages as DM
    from pynetdicom import dimse_primitives as DP
    from pynetdicom.dsutils import encode
    from pynetdicom.pdu import P_DATA_TF

    if kind == "echo":
        p = DP.C_ECHO()
        p.MessageID = msg_id
        p.AffectedSOPClassUID = VERIFICATION
        m, cid = DM.C_ECHO_RQ(), 1
    elif kind == "store":
        ds = Dataset()
        ds.SOPClassUID = CT
        ds.SOPInstanceUID = f"1.2.3.{msg_id}"
        ds.PatientName = "X" * max(nbytes, 1)
        p = DP.C_STORE()
        p.MessageID = msg_id
        p.AffectedSOPClassUID = CT
        p.AffectedSOPInstanceUID = ds.SOPInstanceUID
        p.Priority = 2
        p.DataSet = BytesIO(encode(ds, True, True))
        m, cid = DM.C_STORE_RQ(), 3
    elif kind == "find":
        ds = Dataset()
        ds.QueryRetrieveLevel = "PATIENT"
        ds.PatientID = "*"
        p = DP.C_FIND()
        p.MessageID = msg_id
        p.AffectedSOPClassUID = PR_FIND
        p.Priority = 2
        p.Identifier = BytesIO(encode(ds, True, True))
        m, cid = DM.C_FIND_RQ(), 5
    elif kind == "get":
        ds = Dataset()
        ds.QueryRetrieveLevel = "PATIENT"
        ds.PatientID = "1"
        p = DP.C_GET()
        p.MessageID = msg_id
        p.AffectedSOPClassUID = PR_GET
        p.Priority = 2
        p.Identifier = BytesIO(encode(ds, True, True))
        m, cid = DM.C_GET_RQ(), 7
    else:
        raise ValueError(kind)
    cid = context_id or cid
    m.primitive_to_message(p)
    return b"".join(P_DATA_TF(pd).encode() for pd in m.encode_msg(cid, max_pdu))


class Recorder:
    """Records every notification event of every association of one side, in order, with the virtual time."""

    def __init__(self, world, side, raise_at=None, on_event=None):
        self.w, self.side = world, side
        self.on_event = on_event or {}  # event name -> callable(event), called (once) from inside the notification handler
        self.events = []  # (t, assoc_key, name, detail)
        self.assocs = {}  # id(assoc) -> (index, assoc)
        self.raise_shapes = dict(raise_at) if isinstance(raise_at, dict) else {}
        self.raise_at = set(int(k) for k in (raise_at or ()))
        self.count = 0

    def handlers(self):
        from pynetdicom import evt

        out = []
        for name in NOTIFICATION_EVENTS:
            out.append((getattr(evt, name), self._make(name)))
        return out

    def _make(self, name):
        def h(event):
            a = event.assoc
            if not getattr(a, "_vrec_first", False):
                # pynetdicom's trigger() stops at the first notification handler that raises, and its own logging handlers (bound first)
                # can raise on unusual but well-formed traffic (e.g. an A-ASSOCIATE-AC arriving at an acceptor): put the recorder first
                a._vrec_first = True
                try:
                    for ev_, lst in a._handlers.items():
                        if isinstance(lst, list):
                            lst.sort(key=lambda t: 0 if getattr(t[0], "__name__", "").startswith("rec_") else 1)
                except Exception:
                    pass
            key = self.assocs.setdefault(id(a), (len(self.assocs), a))[0]
            detail = None
            if name == "EVT_FSM_TRANSITION":
                detail = (event.current_state, event.fsm_event, event.action, event.next_state)
            elif name in ("EVT_PDU_SENT", "EVT_PDU_RECV"):
                try:
                    detail = event.pdu.encode()
                except Exception as e:
                    detail = ("unencodable", repr(e))
            elif name in ("EVT_DATA_SENT", "EVT_DATA_RECV"):
                detail = bytes(event.data)
            elif name in ("EVT_ACSE_SENT", "EVT_ACSE_RECV"):
                detail = type(event.primitive).__name__
            elif name in ("EVT_ABORTED", "EVT_RELEASED", "EVT_REJECTED", "EVT_ESTABLISHED"):
                # call site: the pynetdicom function that triggered the notification (tells two ways of reaching the same outcome apart)
                f = sys._getframe(1)
                while f is not None:
                    fn = f.f_code.co_filename.replace("\\", "/")
                    if "/pynetdicom/" in fn and not fn.endswith("/events.py"):
                        detail = f"{fn.rsplit('/', 1)[-1][:-3]}.{f.f_code.co_name}"
                        break
                    f = f.f_back
            self.events.append((round(self.w.now - 1000.0, 6), key, name, detail))
            cb = self.on_event.pop(name, None)
            if cb is None and detail is not None and isinstance(detail, str):
                cb = self.on_event.pop(f"{name}:{detail}", None)  # e.g. "EVT_ACSE_SENT:A_RELEASE"
            if cb is not None:
                cb(event)
            idx = self.count
            self.count += 1
            if idx in self.raise_at:
                raise _exception_shape(self.raise_shapes.get(idx, 0), idx, name)

        h.__name__ = "rec_" + name
        return h

    def assoc_list(self):
        return [a for _, a in sorted(self.assocs.values(), key=lambda x: x[0])]


class _QuietError(Exception):
    def __str__(self):
        return ""


def _exception_shape(shape, idx, name):
    """the kinds of exception a user's notification handler may raise"""
    return [
        RuntimeError(f"notification handler failure #{idx} ({name})"),
        RuntimeError(),
        ValueError(""),
        AssertionError(),
        KeyError("missing"),
        Exception("first line\nsecond line"),
        _QuietError(),
        UnicodeDecodeError("utf-8", b"\xff", 0, 1, "invalid start byte"),
    ][shape % 8]


def outcome_of(a):
    out = [k for k, f in (("released", a.is_released), ("aborted", a.is_aborted), ("rejected", a.is_rejected)) if f]
    return out, a.is_established


def _mk_ae(title, to):
    from pynetdicom import AE

    ae = AE(title)
    ae.acse_timeout = to.get("acse", 5)
    ae.dimse_timeout = to.get("dimse", 5)
    ae.network_timeout = to.get("network", 10)
    ae.connection_timeout = to.get("connection", 5)
    return ae


def _acceptor_handlers(world, beh, log):
    """Intervention handlers for the pynetdicom acceptor from plain-data behaviours."""
    from pydicom.dataset import Dataset, FileMetaDataset
    from pynetdicom import evt

    def act(event, what):
        if what == "abort":
            event.assoc.abort()
        elif what == "raise":
            raise ValueError("handler failure")

    def h_echo(event):
        b = beh.get("echo", {})
        log.append(("handler", "echo", round(world.now - 1000.0, 4)))
        if b.get("delay"):
            S.VTime.sleep(b["delay"])
        act(event, b.get("do"))
        return b.get("status", 0)

    def h_store(event):
        b = beh.get("store", {})
        log.append(("handler", "store", round(world.now - 1000.0, 4)))
        if b.get("delay"):
            S.VTime.sleep(b["delay"])
        act(event, b.get("do"))
        return b.get("status", 0)

    def h_find(event):
        b = beh.get("find", {})
        log.append(("handler", "find", round(world.now - 1000.0, 4)))
        for i in range(b.get("n", 2)):
            if b.get("delay"):
                S.VTime.sleep(b["delay"])
            if b.get("do_at") == i:
                act(event, b.get("do"))
            if event.is_cancelled:
                yield 0xFE00, None
                return
            ds = Dataset()
            ds.QueryRetrieveLevel = "PATIENT"
            ds.PatientID = str(i)
            log.append(("yield", "find", i, round(world.now - 1000.0, 4)))
            yield 0xFF00, ds

    def h_get(event):
        b = beh.get("get", {})
        log.append(("handler", "get", round(world.now - 1000.0, 4)))
        n = b.get("n", 2)
        yield n
        for i in range(n):
            if b.get("delay"):
                S.VTime.sleep(b["delay"])
            if b.get("do_at") == i:
                act(event, b.get("do"))
            if event.is_cancelled:
                yield 0xFE00, None
                return
            ds = Dataset()
            ds.SOPClassUID = CT
            ds.SOPInstanceUID = f"1.2.3.9.{i + 1}"
            ds.PatientID = "1"
            ds.PatientName = "X" * b.get("nbytes", 16)
            ds.file_meta = FileMetaDataset()
            ds.file_meta.TransferSyntaxUID = IMPLICIT
            if b.get("bad_last") and i == n - 1:
                # an instance that cannot be encoded (a str where US is expected): the sub-operation fails locally, nothing is sent for it
                from pydicom.dataelem import DataElement

                ds[0x00280010] = DataElement(0x00280010, "US", "not-a-number", validation_mode=0)
            log.append(("yield", "get", i, round(world.now - 1000.0, 4)))
            yield 0xFF00, ds

    hs = [(evt.EVT_C_ECHO, h_echo), (evt.EVT_C_STORE, h_store), (evt.EVT_C_FIND, h_find)]
    if "get" in beh:
        hs.append((evt.EVT_C_GET, h_get))
    return hs


def _substore_op(peer, op):
    """RawPeer op ["substore", k, timeout, tail]: act as the Storage SCP of a C-GET requestor. Reads PDUs (appended to peer.received like
    recv_pdu), answers every complete C-STORE request with a Success C-STORE response and, together with the k-th response (k = 0: at once),
    sends `tail` (e.g. an A-RELEASE-RQ) in the same segment, then returns. Also returns after `tail` has been sent when a final (non-Pending)
    C-GET response arrives first (fewer than k sub-operations), on EOF, timeout or an A-ABORT. Message (de)coding uses pynetdicom's DIMSE
    codec as a transcript helper (harness input path, not judged here)."""
    from pynetdicom import dimse_messages as DM
    from pynetdicom import dimse_primitives as DP
    from pynetdicom.pdu import P_DATA_TF

    k, timeout, tail = op[1], op[2], bytes(op[3])
    done = 0
    if k == 0:
        peer.sock.send(tail)
        peer.log.append((round(peer.w.now - 1000.0, 4), "tail"))
        return
    msg = DM.DIMSEMessage()
    while True:
        if peer.recv_pdu(timeout) != "ok":
            return
        pdu = peer.received[-1]
        if pdu[0] != 4:
            if pdu[0] == 7:
                return
            continue
        tf = P_DATA_TF()
        tf.decode(pdu)
        prim = tf.to_primitive()
        if not msg.decode_msg(prim):
            continue
        p = msg.message_to_primitive()
        cid = msg.context_id
        msg = DM.DIMSEMessage()
        if isinstance(p, DP.C_STORE) and p.MessageIDBeingRespondedTo is None:
            r = DP.C_STORE()
            r.MessageIDBeingRespondedTo = p.MessageID
            r.AffectedSOPClassUID = p.AffectedSOPClassUID
            r.AffectedSOPInstanceUID = p.AffectedSOPInstanceUID
            r.Status = 0x0000
            m = DM.C_STORE_RSP()
            m.primitive_to_message(r)
            data = b"".join(P_DATA_TF(pd).encode() for pd in m.encode_msg(cid, 16382))
            done += 1
            if done >= k:
                peer.sock.send(data + tail)
                peer.log.append((round(peer.w.now - 1000.0, 4), "tail"))
                return
            peer.sock.send(data)
        elif isinstance(p, DP.C_GET) and p.Status is not None and p.Status not in (0xFF00, 0xFF01):
            peer.sock.send(tail)
            peer.log.append((round(peer.w.now - 1000.0, 4), "tail"))
            return


S.RawPeer.EXT["substore"] = _substore_op


def _run_requestor_script(world, spec, to, rec, res, idx):
    from pydicom.dataset import Dataset
    from pynetdicom import build_context

    if spec.get("start"):
        S.VTime.sleep(spec["start"])
    ae = _mk_ae(f"SCU{idx}", to)
    for ab in (VERIFICATION, CT, PR_FIND):
        ae.add_requested_context(ab, IMPLICIT)
    res["ae"] = ae
    assoc = None
    steps = res["steps"]
    for op in spec["script"]:
        k = op[0]
        t = round(world.now - 1000.0, 4)
        try:
            if k == "associate":
                assoc = ae.associate("127.0.0.1", spec.get("port", PORT), evt_handlers=rec.handlers())
                res["assoc"] = assoc
                if spec.get("nt_response"):  # documented per-association setting: what the reactor does when the network timeout expires
                    assoc.network_timeout_response = spec["nt_response"]
                steps.append((t, k, assoc.is_established))
            elif k == "sleep":
                S.VTime.sleep(op[1])
                steps.append((t, k, op[1]))
            elif assoc is None:
                steps.append((t, k, "no-assoc"))
            elif k == "echo":
                st = assoc.send_c_echo()
                steps.append((t, k, st.Status if (st is not None and "Status" in st) else None))
            elif k == "store":
                ds = Dataset()
                ds.SOPClassUID = CT
                ds.SOPInstanceUID = "1.2.3.4"
                ds.PatientName = "X" * op[1]
                from pydicom.dataset import FileMetaDataset

                ds.file_meta = FileMetaDataset()
                ds.file_meta.TransferSyntaxUID = IMPLICIT
                st = assoc.send_c_store(ds)
                steps.append((t, k, st.Status if (st is not None and "Status" in st) else None))
            elif k == "find":
                ds = Dataset()
                ds.QueryRetrieveLevel = "PATIENT"
                ds.PatientID = "*"
                got = []
                for i, (st, ident) in enumerate(assoc.send_c_find(ds, PR_FIND)):
                    got.append(st.Status if (st is not None and "Status" in st) else None)
                    if op[1] is not None and i + 1 >= op[1]:
                        break
                steps.append((t, k, got))
            elif k == "release":
                assoc.release()
                steps.append((t, k, assoc.is_released))
            elif k == "abort":
                assoc.abort()
                steps.append((t, k, assoc.is_aborted))
            elif k == "idle":
                while assoc.is_established:
                    S.VTime.sleep(0.5)
                steps.append((t, k, None))
            else:
                raise ValueError(k)
        except RuntimeError as e:
            # documented API behaviour: send_* raise RuntimeError when the association is not established
            steps.append((t, k, f"RuntimeError:{str(e)[:60]}"))
        except ValueError as e:
            if "No presentation context" in str(e) or "no suitable" in str(e).lower():
                steps.append((t, k, f"ValueError:{str(e)[:60]}"))
            else:
                raise
    res["finished"] = True


def run(sc, chooser=None, raise_plan=None, keep_trace=False):
    """Execute one scenario. -> dict result (plain data + live objects under '_' keys)."""
    to = sc.get("timeouts", {})
    sched = sc.get("schedule", {})
    if chooser is None:
        if sched.get("resolved") is not None:
            chooser = S.ReplayChooser(sched["resolved"], sched.get("nudges", ()))
        else:
            chooser = S.Chooser(sched.get("policy", "fifo"), sched.get("seed", 0), sched.get("preemptions", ()), sched.get("nudges", ()),
                                max_steps=sc.get("max_steps", 6000), drift=sched.get("drift", 0.0))
    raise_plan = raise_plan or {}
    out = {"handler_log": [], "requestors": [], "raw": []}
    with S.World(chooser, max_steps=sc.get("max_steps", 6000), quantum=sc.get("quantum", S.QUANTUM)) as w:
        w.keep_trace = keep_trace
        acc = sc["acceptor"]
        rec_acc = Recorder(w, "acceptor", raise_plan.get("acceptor"))
        out["_rec_acc"] = rec_acc
        acc_ae = None
        if acc["kind"] == "pynetdicom":
            acc_ae = _mk_ae(acc.get("title", "ANY-SCP"), to)
            for ab in acc.get("contexts", (VERIFICATION, CT, PR_FIND)):
                acc_ae.add_supported_context(ab, IMPLICIT)
            if "get" in acc.get("handlers", {}):  # C-GET SCP: sub-operations go back over the association, so CT with both roles
                acc_ae.add_supported_context(PR_GET, IMPLICIT)
                acc_ae.add_supported_context(CT, IMPLICIT, scu_role=True, scp_role=True)
            if "max_assoc" in acc:
                acc_ae.maximum_associations = acc["max_assoc"]
            if acc.get("require_called"):
                acc_ae.require_called_aet = True
            if acc.get("require_calling"):
                acc_ae.require_calling_aet = list(acc["require_calling"])
            handlers = _acceptor_handlers(w, acc.get("handlers", {}), out["handler_log"]) + rec_acc.handlers()
            if acc.get("nt_response"):
                from pynetdicom import evt as _evt

                handlers = handlers + [(_evt.EVT_REQUESTED, lambda event, v=acc["nt_response"]: setattr(event.assoc, "network_timeout_response", v))]
            if acc.get("extra_handlers"):
                over = {e for e, _ in acc["extra_handlers"]}
                handlers = [h for h in handlers if h[0] not in over] + list(acc["extra_handlers"])
            out["_acc_servers"] = [w.serve(acc_ae, PORT + k, handlers=handlers) for k in range(acc.get("servers", 1))]
            out["_acc_ae"] = acc_ae
            if acc.get("shutdown_at") is not None:
                def shutdown():
                    S.VTime.sleep(acc["shutdown_at"])
                    # what AE.shutdown() does to the active associations (the servers here are not serve_forever'd)
                    for a in acc_ae.active_associations:
                        a.abort()
                    out["shutdown_done"] = round(w.now - 1000.0, 4)

                w.spawn(shutdown, "acc-shutdown")
            if acc.get("abort_on"):
                gate = S.VEvent()

                def on_evt(event, gate=gate):
                    gate.set()
                    S.VTime.sleep(0)  # the handler takes a moment: the other thread gets a chance to run

                rec_acc.on_event[acc["abort_on"]] = on_evt

                def abort_when():
                    gate.wait(timeout=8)
                    if gate.is_set():
                        for a in acc_ae.active_associations:
                            a.abort()
                    out["abort_on_done"] = round(w.now - 1000.0, 4)

                w.spawn(abort_when, "acc-abort-on")
            if acc.get("release_at") is not None:
                def releaser():
                    S.VTime.sleep(acc["release_at"])
                    for a in acc_ae.active_associations:
                        a.release()
                    out["release_done"] = round(w.now - 1000.0, 4)

                w.spawn(releaser, "acc-release")
        else:
            def on_conn(sock, addr, script=acc["script"]):
                peer = S.RawPeer(w, script, sock=sock)
                out["raw"].append(peer)
                w.spawn(peer.run, "raw-acceptor")

            w.listen(PORT, on_conn)

        for i, rq in enumerate(sc["requestors"]):
            if rq["kind"] == "pynetdicom":
                rec = Recorder(w, f"requestor{i}", raise_plan.get(f"requestor{i}"))
                res = {"steps": [], "finished": False, "_rec": rec, "assoc": None}
                out["requestors"].append(res)
                w.spawn(lambda rq=rq, rec=rec, res=res, i=i: _run_requestor_script(w, rq, to, rec, res, i), f"user{i}")
                if rq.get("abort_on"):
                    gate = S.VEvent()

                    def on_evt_r(event, gate=gate):
                        gate.set()
                        S.VTime.sleep(0)

                    rec.on_event[rq["abort_on"]] = on_evt_r

                    def abort_when_r(res=res, gate=gate):
                        gate.wait(timeout=8)
                        a = res.get("assoc")
                        if gate.is_set() and a is not None:
                            a.abort()

                    w.spawn(abort_when_r, f"user{i}-abort-on")
                if rq.get("abort_at") is not None:
                    def aborter(rq=rq, res=res):
                        S.VTime.sleep(rq["abort_at"])
                        a = res.get("assoc")
                        if a is not None:
                            a.abort()
                        res["abort_at_done"] = round(w.now - 1000.0, 4)

                    w.spawn(aborter, f"user{i}-abort")
            else:
                peer = S.RawPeer(w, list(rq["script"]), port=rq.get("port", PORT), start=rq.get("start") or 0)
                out["raw"].append(peer)
                out["requestors"].append({"raw": peer})
                w.spawn(peer.run, f"raw-requestor{i}")

        bound = sc.get("time_limit")
        how = w.run(time_limit=(1000.0 + bound) if bound else None)
        out["how"] = how
        out["report"] = w.report()
        out["tap"] = list(w.tap)
        out["resolved"] = list(chooser.resolved)
        out["sockets"] = [(s.conn_id, s.side, s.closed) for s in w.sockets]
        out["trace"] = list(w.trace)
        # snapshot outcomes while the world is still installed
        out["acc_assocs"] = []
        for a in rec_acc.assoc_list():
            o, est = outcome_of(a)
            out["acc_assocs"].append({"outcome": o, "established": est, "state": a.dul.state_machine.current_state,
                                      "dul_alive": a.dul.is_alive(), "alive": a.is_alive(), "sock_closed": _sock_closed(a)})
        for res in out["requestors"]:
            a = res.get("assoc")
            if a is not None:
                o, est = outcome_of(a)
                res["outcome"], res["established"] = o, est
                res["state"] = a.dul.state_machine.current_state
                res["dul_alive"], res["alive"] = a.dul.is_alive(), a.is_alive()
                res["sock_closed"] = _sock_closed(a)
    return out


def _sock_closed(a):
    s = a.dul.socket
    if s is None or s.socket is None:
        return True
    return bool(getattr(s.socket, "closed", False))


def wire(out, conn_id=1, side="server"):
    """PDUs sent by `side` ('client' = connecting end, 'server' = accepting end) on connection conn_id, parsed with the
    lenient reference parser -> list of (t_first_byte, value | ('garbage', bytes)); ('closed', t) when that side closed."""
    buf = bytearray()
    t_mark = []
    res = []
    for t, cid, s, b in out["tap"]:
        if cid != conn_id or s != side:
            continue
        if b is None:
            res.append((t, "closed"))
            continue
        t_mark.append((len(buf), t))
        buf += b
    pdus = []
    o = 0
    while o < len(buf):
        try:
            v, used = R.ref_parse(bytes(buf[o:]), strict=False)
        except R.Reject:
            pdus.append((None, ("garbage", bytes(buf[o:]))))
            break
        t0 = max((t for off, t in t_mark if off <= o), default=None)
        pdus.append((t0, v))
        o += used
    return pdus, res


def kinds(pdus):
    return [type(v).__name__ if not isinstance(v, tuple) else v[0] for _, v in pdus]
