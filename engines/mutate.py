"""Structure-aware byte mutators for C02 (strategies over conformant PDU bytes produced by E1).

`field_offsets(b)` walks an encoded PDU and returns the offsets of type bytes and length fields, so that
mutations can be biased towards them.
"""
from __future__ import annotations

import struct


def field_offsets(b):
    """-> list of (offset, size, kind) for kind in {'type','len'}; tolerant of garbage."""
    out = []
    if len(b) < 6:
        return out
    out.append((0, 1, "type"))
    out.append((2, 4, "len"))
    t = b[0]
    end = len(b)

    def walk_items(o, stop, depth):
        while o + 4 <= stop:
            out.append((o, 1, "type"))
            out.append((o + 2, 2, "len"))
            it = b[o]
            ln = struct.unpack(">H", b[o + 2 : o + 4])[0]
            body, bend = o + 4, min(o + 4 + ln, stop)
            if depth < 3:
                if it in (0x20, 0x21):
                    walk_items(body + 4, bend, depth + 1)
                elif it == 0x50:
                    walk_items(body, bend, depth + 1)
                elif it in (0x54, 0x56, 0x57, 0x58, 0x59) and body + 2 <= bend:
                    out.append((body if it != 0x58 else body + 2, 2, "len"))
            o += 4 + ln

    if t in (1, 2):
        walk_items(74, end, 0)
    elif t == 4:
        o = 6
        while o + 4 <= end:
            out.append((o, 4, "len"))
            ln = struct.unpack(">I", b[o : o + 4])[0]
            o += 4 + ln
    return out


def items(b):
    """-> list of (start, end, [(len_field_offset, size), ...enclosing length fields incl. the PDU's]) for every
    item / sub-item of an A-ASSOCIATE-RQ/AC (well-formed input assumed; stops quietly on garbage)."""
    out = []
    if len(b) < 74 or b[0] not in (1, 2):
        return out

    def walk(o, stop, parents, depth):
        while o + 4 <= stop:
            ln = struct.unpack(">H", b[o + 2 : o + 4])[0]
            end = o + 4 + ln
            if end > stop:
                return
            out.append((o, end, list(parents)))
            if depth < 2 and b[o] in (0x20, 0x21):
                walk(o + 8, end, parents + [(o + 2, 2)], depth + 1)
            elif depth < 2 and b[o] == 0x50:
                walk(o + 4, end, parents + [(o + 2, 2)], depth + 1)
            o = end

    walk(74, len(b), [(2, 4)], 0)
    return out


def restructure():
    """Strategy factory: duplicate / delete / move an item inside an A-ASSOCIATE PDU keeping every enclosing length
    field consistent (the result is well-framed but has unusual cardinalities or order)."""
    from hypothesis import strategies as st

    @st.composite
    def go(draw, base):
        b = bytearray(base)
        its = items(bytes(b))
        if not its:
            return bytes(b), ["restructure-none"]
        deep = [i for i in its if len(i[2]) > 1]
        pool = deep if deep and draw(st.integers(0, 3)) else its
        start, end, parents = draw(st.sampled_from(pool))
        op = draw(st.sampled_from(["dup", "dup", "del", "move", "transplant", "transplant", "into-pc", "into-pc"]))
        seg = bytes(b[start:end])
        delta = 0
        if op == "into-pc":
            # a well-formed item that is neither an abstract nor a transfer syntax sub-item (application context, user information and
            # its sub-items, a whole presentation context) placed among the sub-items of a presentation context item
            foreign = [i for i in its if b[i[0]] not in (0x30, 0x40)]
            inside = [i for i in its if len(i[2]) > 1 and b[i[2][-1][0] - 2] in (0x20, 0x21)]
            if not foreign or not inside:
                return bytes(b), ["restructure-none"]
            start, end, parents = draw(st.sampled_from(foreign))
            seg = bytes(b[start:end])
            tgt = draw(st.sampled_from(inside))
            at = tgt[1] if draw(st.booleans()) else tgt[0]
            b[at:at] = seg
            for off, size in tgt[2]:
                cur = int.from_bytes(b[off : off + size], "big") + len(seg)
                if 0 <= cur < (1 << (8 * size)):
                    b[off : off + size] = cur.to_bytes(size, "big")
            return bytes(b), [f"restructure-transplant-{seg[0]:02x}-into-pc"]
        if op == "transplant":
            # a well-formed item of a valid type inside the wrong container (e.g. a transfer syntax sub-item in the
            # user information item, an application context item inside a presentation context)
            others = [i for i in its if i[2] != parents and not (i[0] <= start and end <= i[1]) and not (start <= i[0] and i[1] <= end)]
            if not others:
                return bytes(b), ["restructure-none"]
            tgt = draw(st.sampled_from(others))
            at = tgt[1] if draw(st.booleans()) else tgt[0]
            b[at:at] = seg
            for off, size in tgt[2]:
                cur = int.from_bytes(b[off : off + size], "big") + len(seg)
                if 0 <= cur < (1 << (8 * size)):
                    b[off : off + size] = cur.to_bytes(size, "big")
            return bytes(b), [f"restructure-transplant-{seg[0]:02x}-into-{'top' if len(tgt[2]) == 1 else 'sub'}"]
        if op == "dup":
            b[end:end] = seg
            delta = len(seg)
        elif op == "del":
            del b[start:end]
            delta = -len(seg)
        else:
            sib = [i for i in its if i[2] == parents and i[0] != start]
            if not sib:
                return bytes(b), ["restructure-none"]
            tgt = draw(st.sampled_from(sib))
            del b[start:end]
            at = tgt[0] if tgt[0] < start else tgt[1] - len(seg)
            b[at:at] = seg
        for off, size in parents:
            cur = int.from_bytes(b[off : off + size], "big") + delta
            if 0 <= cur < (1 << (8 * size)):
                b[off : off + size] = cur.to_bytes(size, "big")
        return bytes(b), ["restructure-" + op + f"-{seg[0]:02x}"]

    return go


def mutations():
    """Hypothesis strategy: (bytes, draw) -> bytes mutators packaged as a composite over a base byte string."""
    from hypothesis import strategies as st

    @st.composite
    def mutate(draw, base):
        b = bytearray(base)
        n_ops = draw(st.integers(1, 3))
        labels = []
        for _ in range(n_ops):
            if not b:
                break
            op = draw(st.sampled_from(["truncate", "extend", "bitflip", "lenfield", "typebyte", "overwrite", "splice", "insert"]))
            labels.append(op)
            offs = field_offsets(bytes(b))
            if op == "truncate":
                k = draw(st.integers(0, len(b) - 1))
                del b[k:]
            elif op == "extend":
                b += draw(st.binary(min_size=1, max_size=12))
            elif op == "bitflip":
                k = draw(st.integers(0, len(b) - 1))
                b[k] ^= 1 << draw(st.integers(0, 7))
            elif op == "lenfield":
                lens = [o for o in offs if o[2] == "len"]
                if not lens:
                    continue
                o, size, _ = draw(st.sampled_from(lens))
                cur = int.from_bytes(b[o : o + size], "big")
                mx = (1 << (8 * size)) - 1
                new = draw(st.sampled_from([0, 1, max(cur - 1, 0), min(cur + 1, mx), mx, max(len(b) - o, 0) & mx, (cur * 2) & mx]))
                b[o : o + size] = new.to_bytes(size, "big")
            elif op == "typebyte":
                types = [o for o in offs if o[2] == "type"]
                if not types:
                    continue
                o, _, _ = draw(st.sampled_from(types))
                b[o] = draw(st.sampled_from([0x00, 0x01, 0x02, 0x03, 0x04, 0x05, 0x06, 0x07, 0x08, 0x10, 0x20, 0x21, 0x30, 0x40, 0x50, 0x51, 0x52, 0x53, 0x54, 0x55, 0x56, 0x57, 0x58, 0x59, 0x5A, 0xFF]))
            elif op == "overwrite":
                k = draw(st.integers(0, len(b) - 1))
                data = draw(st.one_of(st.binary(min_size=1, max_size=4), st.sampled_from([b"\x00", b"\xff", b" ", b"\x80\x81", b"\x00\x00", b"\\"])))
                b[k : k + len(data)] = data
            elif op == "splice":
                k = draw(st.integers(0, len(b)))
                j = draw(st.integers(0, len(b)))
                seg = bytes(b[min(k, j) : max(k, j)][:64])
                at = draw(st.integers(0, len(b)))
                b[at:at] = seg
            elif op == "insert":
                k = draw(st.integers(0, len(b)))
                b[k:k] = draw(st.binary(min_size=1, max_size=8))
        return bytes(b), labels

    return mutate
