"""C22 - C-GET and C-MOVE sub-operation counters stay consistent (engine E3 + engines/qrsub.py)."""
from engines import qrsub as Q
from refs import subop_ref as R
from vlib import sig

LEVEL = "exploration"
RULE = (
    "Hypothesis draws one C-GET or C-MOVE served by QueryRetrieveServiceClass on a thread-free acceptor association: "
    "announced N in 0..6 (plus a labelled out-of-domain class: non-int / negative / >65535), message ID over the US range, "
    "and 0..9 handler yields from a grammar: Pending+dataset (CT instance with a matching accepted storage context, or no "
    "matching context / no file meta / no SOP Class UID / no SOP Instance UID) whose C-STORE sub-operation ends in a scripted "
    "outcome (Success; Warning B000/B006/B007; Failure A7xx/A9xx/Cxxx/01xx; undocumented status; Cancel-class status FE00; "
    "no response; invalid response; exception), Pending+invalid object (str/int/list/bytes/tuple), Pending+None/empty "
    "dataset, statuses of every category (Success/Warning/Failure/Cancel/unknown/out of range, as int or as Status "
    "dataset, with/without FailedSOPInstanceUIDList), wrong-typed status, exception mid-stream, non-pair yields; more or "
    "fewer results than announced. C-GET sub-operations go out on the same association and are answered by a scripted peer; "
    "C-MOVE uses a scripted store association returned by a stubbed ae.associate. Every response is attributed to the "
    "handler step that produced it and compared with an independent bookkeeping model. Non-trivial = at least one Pending "
    "response carrying counters AND (>=2 different step/outcome classes, or a count mismatch, or a non-success outcome). "
    "Distinct = distinct case."
)
ASSUMPTIONS = [
    "a sub-operation whose C-STORE response is Success/Warning/Failure (documented Storage statuses) counts as "
    "completed/warning/failed; no response, an invalid response, an exception or a dataset that cannot be sent counts as failed",
    "a C-STORE response status that the Storage tables do not document may be counted in any ONE of failed/warning/completed "
    "(the oracle adopts the counter that moved), but it must be counted: remaining-1 and exactly one other counter +1",
    "an invalid (non-Dataset, truthy) object yielded with Pending consumes one announced sub-operation as failed "
    "(service_class.py: 'Count as a sub-operation failure'); None / empty dataset with Pending may be ignored or counted as failed",
    "Pending responses are optional (PS3.4): a step without one is not an error; results yielded after all N announced "
    "sub-operations are accounted for must not change any counter",
    "FailedSOPInstanceUIDList is compared only when pynetdicom builds it (handler supplied no list); empty-string entries "
    "(written for invalid objects) are ignored; only attempted-and-failed instances are expected in it",
    "the final status rule (Success / 0xA702 / 0xB000) is asserted only where pynetdicom chooses the status: generator "
    "exhausted, all N accounted for, N = 0, or the handler yielded Success",
    "after pynetdicom aborts the association (C-GET sub-operation without a valid response) nothing further is judged",
    "responses after the first final response, and a missing final response, belong to C20 and are only counted here",
]
SHARDS = {"quick": 1, "thorough": 16}
MIN_NONTRIVIAL = 50

CNT = ("NumberOfRemainingSuboperations", "NumberOfFailedSuboperations", "NumberOfWarningSuboperations", "NumberOfCompletedSuboperations")
NAMES = ("remaining", "failed", "warning", "completed")


class _Stop(Exception):
    pass


def counters(p):
    return tuple(getattr(p, k) for k in CNT)


def delta_sig(obs, want):
    """'remaining+1,failed-1' style difference (None -> 'missing')."""
    out = []
    for nm, o, w in zip(NAMES, obs, want):
        if o is None:
            out.append(f"{nm}:missing")
        elif o != w:
            out.append(f"{nm}{o - w:+d}")
    return ",".join(out) or "same"


def failed_list(p):
    """FailedSOPInstanceUIDList of a response as a list of str (independent pydicom decode); None if no identifier."""
    from pydicom.filereader import read_dataset

    ident = getattr(p, "Identifier", None)
    if ident is None:
        return None
    raw = ident.getvalue()
    if not raw:
        return None
    from io import BytesIO

    ds = read_dataset(BytesIO(raw), True, True)
    if "FailedSOPInstanceUIDList" not in ds:
        return None
    v = ds.FailedSOPInstanceUIDList
    if v is None or (isinstance(v, str) and v == ""):
        return []  # zero-length element
    if isinstance(v, str):
        return [str(v)]
    return [str(x) for x in v]


def step_class(svc, st, store_dead=False):
    k = st["k"]
    if k == "ds":
        if st["shape"] != "match":
            return "subop-" + st["shape"]
        if store_dead:
            return "subop-after-store-assoc-lost"
        kind, code = st["out"]
        if kind != "status":
            return "subop-" + kind
        if code == 0xFE00:
            return "subop-status-cancel"
        return "subop-status-" + (R.storage_category(code) or "undocumented")
    if k == "bad":
        return "invalid-object"
    if k == "empty":
        return "empty-pending"
    if k == "status":
        code = st["code"]
        if not 0 <= code <= 0xFFFF:
            return "status-out-of-range"
        return "status-" + (R.retrieve_category(svc, code) or "unknown")
    return k  # badstatus / raise / malformed


def check_counters(ctx, case):
    try:
        _check(ctx, case)
    except _Stop:
        pass


def _check(ctx, case):
    svc = case["svc"]
    steps = case["steps"]
    n = case["n"]
    a = Q.make_assoc()
    res = Q.run_op(a, case)
    pre, per, post, aborted = Q.responses_by_step(a, res, "C_GET" if svc == "get" else "C_MOVE")
    indomain = type(n) is int and 0 <= n <= 6
    dest = case.get("dest", "ok") if svc == "move" else "ok"

    def bad(clause, key, msg):
        ctx.fail(clause, f"{svc}:{key}", msg + f"\n case={case}\n responses={dump()}")
        raise _Stop()

    def dump():
        f = lambda p: (f"{p.Status:04X}",) + counters(p) + (failed_list(p),)
        return {"pre": [f(p) for p in pre], "steps": [[f(p) for p in ps] for ps in per], "post": [f(p) for p in post]}

    classes = [svc]
    all_rsp = pre + [p for ps in per for p in ps] + post
    n_pending = sum(1 for p in all_rsp if p.Status == 0xFF00 and None not in counters(p))
    sclasses = []
    dead = False
    for i in range(res.reached):
        sclasses.append(step_class(svc, steps[i], dead))
        st = steps[i]
        if svc == "move" and st["k"] == "ds" and st["shape"] == "match" and st["out"][0] in ("noresp", "badrsp"):
            dead = True
    classes += sorted(set(sclasses))
    if aborted:
        classes.append("aborted-by-pynetdicom")

    if res.escaped is not None:
        ctx.note(case, nontrivial=False, classes=classes + ["exception-escaped"])
        bad("exception-escapes", sig.exc_key(res.escaped), "exception escaped Association._serve_request\n" + sig.exc_text(res.escaped))

    if not indomain or dest != "ok":
        # labelled out-of-domain announcement / no sub-operations possible: only "handled cleanly" (above)
        ctx.note(case, nontrivial=False, classes=[svc, "n-out-of-domain:" + type(n).__name__ if not indomain else "dest-" + dest])
        return

    consuming = sum(1 for st in steps if st["k"] in ("ds", "bad"))
    classes.append(f"N={n}")
    classes.append("results-fewer-than-announced" if n > consuming else ("results-more-than-announced" if n < consuming else "results-as-announced"))
    nontrivial = n_pending >= 1 and (len(set(sclasses)) >= 2 or n != consuming or any(c not in ("subop-status-success",) for c in sclasses))
    ctx.note(case, nontrivial=nontrivial, classes=classes)

    M = R.SubopModel(n)
    state = {"prev": None, "final": False}

    def is_pending(p):
        return p.Status == 0xFF00

    def pend_check(p, where):
        obs = counters(p)
        if None in obs:
            bad("pending-counters-missing", f"{where}:{delta_sig(obs, obs)}", f"Pending response without all four counters: {obs}")
        s = sum(obs)
        if s != n:
            bad("pending-sum", f"{where}:sum=N{s - n:+d}", f"Pending response has remaining+failed+warning+completed = {s}, announced N = {n}: {dict(zip(NAMES, obs))}")
        pv = state["prev"]
        if pv is not None:
            if obs[0] > pv[0]:
                bad("pending-monotone", f"{where}:remaining-increased", f"remaining went {pv[0]} -> {obs[0]}")
            for j in (1, 2, 3):
                if obs[j] < pv[j]:
                    bad("pending-monotone", f"{where}:{NAMES[j]}-decreased", f"{NAMES[j]} went {pv[j]} -> {obs[j]}")
        state["prev"] = obs

    def final_sum(p, where):
        f, w, c = (x or 0 for x in counters(p)[1:])
        if f + w + c > n:
            bad("final-sum", f"{where}:sum=N+{f + w + c - n}", f"final response {p.Status:04X} reports completed+failed+warning = {f + w + c} > N = {n}")

    def final_list(p, where, user_supplied):
        if user_supplied:
            return
        got = failed_list(p) or []
        empties = sum(1 for u in got if u == "")
        got = [u for u in got if u != ""]
        want = list(M.failed_uids)
        if got != want:
            if [u for u in want if u not in got]:
                what = "missing"
            elif [u for u in got if u not in want]:
                what = "extra"
            else:
                what = "order-or-duplicate"
            bad("final-failed-list", f"{where}:{what}", f"FailedSOPInstanceUIDList of the final response {p.Status:04X} is {got}, instances whose sub-operation failed: {want}")
        if empties > M.invalid:
            bad("final-failed-list", f"{where}:empty-entries", f"{empties} empty entries in FailedSOPInstanceUIDList, {M.invalid} invalid objects")

    def chosen_final(p, where, also_ok=()):
        """pynetdicom itself decides the final status."""
        final_sum(p, where)
        want = M.final_status()
        if p.Status != want and p.Status not in also_ok:
            bad(
                "final-status",
                f"{where}:want={want:04X}:got={p.Status:04X}",
                f"final status chosen by pynetdicom is {p.Status:04X}; outcomes failed={M.f} warning={M.w} completed={M.c} of N={n} require {want:04X}",
            )
        if p.Status == want:
            obs = counters(p)[1:]
            exp = (M.f, M.w, M.c)
            if tuple(x or 0 for x in obs) != exp:
                bad("final-counters", f"{where}:{delta_sig((0,) + tuple(x or 0 for x in obs), (0,) + exp)}", f"final response reports failed/warning/completed = {obs}, sub-operation outcomes were {exp}")
            if want != 0x0000:
                final_list(p, where, False)
            elif failed_list(p):
                bad("final-failed-list", f"{where}:extra", f"Success response lists failed instances {failed_list(p)}")

    def split(rs, where):
        pend = [p for p in rs if is_pending(p)]
        fin = [p for p in rs if not is_pending(p)]
        for p in pend:
            pend_check(p, where)
        return pend, fin

    # ---- before the first (status, dataset) yield
    pend, fin = split(pre, "before-first-result")
    if n == 0:
        if fin:
            chosen_final(fin[0], "announced-zero")
        return
    if fin:
        final_sum(fin[0], "before-first-result")
        return

    store_dead = False
    for i in range(res.reached):
        st = steps[i]
        k = st["k"]
        sc = step_class(svc, st, store_dead)
        if M.r == 0:
            # every announced sub-operation is accounted for: nothing may change any more
            where = "after-complete"
            pend, fin = split(per[i], where)
            if fin:
                alt = ()
                if k == "status" and R.retrieve_category(svc, st["code"]) in (R.FAILURE, R.WARNING, R.CANCEL):
                    alt = (st["code"],)
                chosen_final(fin[0], where, alt)
            else:
                ctx.cls("no-final")
            return
        pend, fin = split(per[i], sc)
        if k == "ds" or k == "bad":
            if k == "bad":
                cat, uid, invalid = R.FAILURE, None, True
            else:
                invalid = False
                uid = Q.instance_uid(st["i"]) if st["shape"] != "nouid" else None
                okind, code = st["out"]
                if st["shape"] != "match" or store_dead:
                    cat = R.FAILURE
                elif okind == "status":
                    cat = R.storage_category(code)
                else:
                    cat = R.FAILURE
                    if svc == "get" and okind in ("noresp", "badrsp"):
                        # documented send_c_store behaviour: the association is aborted; nothing more reaches the peer
                        ctx.cls("stopped-at-abort")
                        return
                    if svc == "move" and okind in ("noresp", "badrsp"):
                        store_dead = True
                if cat is None:
                    if not pend:
                        ctx.cls("undocumented-status-unobserved")
                        return
                    obs = counters(pend[-1])
                    before = M.counters
                    moved = [j for j in (1, 2, 3) if obs[j] == before[j] + 1]
                    same = [j for j in (1, 2, 3) if obs[j] == before[j]]
                    if obs[0] != before[0] - 1 or len(moved) != 1 or len(same) != 2:
                        want = (before[0] - 1, before[1] + 1, before[2], before[3])
                        bad("pending-attribution", f"{sc}:{delta_sig(obs, want)}", f"sub-operation not accounted for in exactly one counter: before {before}, after {obs}")
                    cat = (None, R.FAILURE, R.WARNING, R.SUCCESS)[moved[0]]
            M.account(cat, uid, invalid)
            if pend and counters(pend[-1]) != M.counters:
                bad("pending-attribution", f"{sc}:{delta_sig(counters(pend[-1]), M.counters)}", f"Pending response after this step reports {dict(zip(NAMES, counters(pend[-1])))}, outcomes so far give {dict(zip(NAMES, M.counters))}")
            if fin:
                final_sum(fin[0], sc)
                ctx.cls("final-at-pending-step")
                return
            continue
        if k == "empty":
            if pend:
                obs = counters(pend[-1])
                if obs != M.counters:
                    M.account(R.FAILURE, None, True)
                    if obs != M.counters:
                        bad("pending-attribution", f"{sc}:{delta_sig(obs, M.counters)}", f"Pending response for an empty result reports {obs}")
            if fin:
                final_sum(fin[0], sc)
                return
            continue
        # ---- steps that end the operation
        if not fin:
            ctx.cls("no-final")
            return
        p = fin[0]
        if k == "status":
            cat = R.retrieve_category(svc, st["code"]) if 0 <= st["code"] <= 0xFFFF else None
            if cat == R.SUCCESS:
                chosen_final(p, "handler-yields-success")
            elif cat in (R.FAILURE, R.WARNING, R.CANCEL):
                final_sum(p, sc)
                if p.Status == st["code"]:
                    final_list(p, sc, st.get("ds") == "list")
            else:
                final_sum(p, sc)
        elif k in ("badstatus", "raise"):
            final_sum(p, sc)
            if 0xC000 <= p.Status <= 0xCFFF:
                final_list(p, sc, False)
        else:
            final_sum(p, sc)
        return

    if res.finished:
        pend, fin = split(post, "generator-exhausted")
        if fin:
            chosen_final(fin[0], "generator-exhausted")
        else:
            ctx.cls("no-final")


CHECKS = {"counters": check_counters}


# --------------------------------------------------------------------------------------------- generators
def weighted(*pairs):
    """(weight, strategy) alternatives with real weights: one_of() de-duplicates a repeated strategy object, so every
    copy is wrapped in its own map(); unlike a selector + tuple of all alternatives nothing unused is drawn (the
    shrinker's budget is not spent on branches that were not taken)."""
    from hypothesis import strategies as st

    return st.one_of(*[s.map(lambda x: x) for w, s in pairs for _ in range(w)])


def strategy(quick):
    from hypothesis import strategies as st

    status_out = lambda codes: st.sampled_from(codes).map(lambda c: ["status", c])
    outcome = weighted(
        (8, st.just(["status", 0])),
        (3, status_out([0xB000, 0xB006, 0xB007])),
        (4, status_out([0xA700, 0xA7FF, 0xA900, 0xC000, 0xCFFF, 0x0122, 0x0124, 0x0117, 0x0210])),
        (2, status_out([0xA123, 0x1234, 0xFF00, 0x0001, 0xB123, 0xFFFF, 0xAA00])),
        (1, st.just(["status", 0xFE00])),
        (2, st.sampled_from([["noresp", 0], ["badrsp", 0], ["raise", 0], ["raise", 0]])),
    )
    shape = st.sampled_from(["match"] * 8 + ["nomatch", "nometa", "nosopclass", "nouid"])
    ds = st.fixed_dictionaries({"k": st.just("ds"), "i": st.just(0), "shape": shape, "out": outcome, "sds": st.sampled_from([False] * 5 + [True])})
    bad = st.fixed_dictionaries({"k": st.just("bad"), "obj": st.sampled_from(["str", "int", "list", "bytes", "tuple"])})
    empty = st.fixed_dictionaries({"k": st.just("empty"), "obj": st.sampled_from(["none", "emptyds", "zero", "emptystr"])})
    codes = [0x0000, 0x0000, 0x0000, 0xB000, 0xB000, 0xB000, 0xFE00, 0xA701, 0xA702, 0xA900, 0xAA04, 0xC000, 0xC123, 0x0122, 0xFE00, 0xFE00, 0xA801, 0x1234, 0xB001, 0x0001, 0x0107, 0x0110, -1, 0x10000]
    status = st.fixed_dictionaries(
        {"k": st.just("status"), "code": st.sampled_from(codes), "ds": st.sampled_from(["none", "none", "list", "nolist", "bad"]), "sds": st.sampled_from([False, False, True])}
    )
    badstatus = st.fixed_dictionaries({"k": st.just("badstatus"), "v": st.sampled_from(["none", "str", "dsnostatus"])})
    rais = st.just({"k": "raise"})
    malformed = st.fixed_dictionaries({"k": st.just("malformed"), "v": st.sampled_from(["int", "triple", "none"])})
    middle = weighted((16, ds), (1, bad), (1, empty))
    ending = weighted((6, status), (1, badstatus), (2, rais), (1, malformed))

    def assemble(t):
        mid, end, svc, n, msg_id, dest = t
        steps = [dict(s) for s in mid] + [dict(s) for s in end]
        for i, s in enumerate(steps):
            if s["k"] == "ds":
                s["i"] = i
                if svc == "get" and s["out"][0] == "raise":
                    s["out"] = ["noresp", 0]
        consuming = sum(1 for s in steps if s["k"] in ("ds", "bad"))
        if n[0] == "rel":
            n = min(6, max(0, consuming + n[1]))
        else:
            n = n[1]
        op = {"svc": svc, "msg_id": msg_id, "n": n, "steps": steps}
        if svc == "move":
            op["dest"] = dest
        return op

    ood = st.sampled_from(["3", 2.5, None, "abc", -1, 70000, True])
    n = weighted(
        (14, st.tuples(st.just("rel"), st.sampled_from([0, 0, 0, 1, 1, 2, 3, -1, -1, -2]))),  # relative to the results yielded
        (6, st.tuples(st.just("abs"), st.sampled_from([0, 1, 2, 3, 4, 5, 6]))),
        (1, st.tuples(st.just("ood"), ood)),
    )
    msg_id = st.one_of(st.sampled_from([1, 5, 0, 65535, 65530]), st.integers(0, 65535))
    dest = st.sampled_from(["ok"] * 27 + ["none", "unest", "raise"])
    return st.tuples(
        st.lists(middle, min_size=0, max_size=8),
        st.lists(ending, min_size=0, max_size=1),
        st.sampled_from(["get", "move"]),
        n,
        msg_id,
        dest,
    ).map(assemble)


def run(ctx):
    n = 1500 if ctx.quick else 7000
    ctx.hyp("counters", strategy(ctx.quick), n)
