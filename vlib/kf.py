"""python -m vlib.kf add --property C01 --clause X --key Y --what "..." [--patch "..."] [--status known]"""
import argparse, fcntl, json, os, sys
from .core import KNOWN_FILE

def main():
    ap = argparse.ArgumentParser()
    ap.add_argument("cmd", choices=["add", "list"])
    ap.add_argument("--property"); ap.add_argument("--clause"); ap.add_argument("--key")
    ap.add_argument("--what"); ap.add_argument("--patch", default=""); ap.add_argument("--status", default="known")
    ap.add_argument("--commit", default="")
    ap.add_argument("--replay", default="", help="replay file written by a failing run; copied to findings/<ID>/")
    a = ap.parse_args()
    with open(KNOWN_FILE + ".lock", "w") as lk:
        fcntl.flock(lk, fcntl.LOCK_EX)
        data = json.load(open(KNOWN_FILE))
        if a.cmd == "list":
            for e in data["findings"]:
                print(e["status"], e["property"], e["clause"], e["key"], "-", e["what"])
            return
        e = {"property": a.property, "clause": a.clause, "key": a.key, "status": a.status, "what": a.what}
        if a.patch: e["proposed_fix"] = a.patch
        if a.commit: e["commit"] = a.commit
        if a.replay:
            import shutil
            d = os.path.join(os.path.dirname(KNOWN_FILE), "findings", a.property)
            os.makedirs(d, exist_ok=True)
            dst = os.path.join(d, os.path.basename(a.replay))
            if os.path.abspath(a.replay) != os.path.abspath(dst):
                shutil.copy(a.replay, dst)
            e["replay"] = os.path.relpath(dst, os.path.dirname(KNOWN_FILE))
        data["findings"] = [x for x in data["findings"] if (x["property"], x["clause"], x["key"]) != (a.property, a.clause, a.key)]
        data["findings"].append(e)
        tmp = KNOWN_FILE + ".tmp"
        json.dump(data, open(tmp, "w"), indent=1); os.replace(tmp, KNOWN_FILE)
        print("recorded", e["property"], e["clause"], e["key"])
main()
