"""dimse_gen - shared generator of DIMSE primitives / messages (used by C15, C17 and later service checks).

A DIMSE primitive is described by PLAIN DATA (a "desc"), so that a failing case can go to a replay file:

    {"kind":    "C-STORE-RQ",                         # one of the 23 message kinds of refs.cmdfield_ref.KINDS
     "params":  {"MessageID": 7, "AffectedSOPClassUID": "1.2.840...", "OffendingElement": [0x00100010], ...},
                                                     # parameters set through the primitive's public setters; keys
                                                     # are DICOM keywords; UIDs/AE titles/comments are str, US values
                                                     # int, attribute-tag lists are lists of int
     "dataset": b"..." | None,                       # value of the message's data-set-like parameter (DataSet,
                                                     # Identifier, AttributeList, ...) or None = parameter not set
     "extras":  {"Status": 0, ...}}                  # (optional key) parameters the primitive accepts but which
                                                     # PS3.7 does not transmit in a message of this kind

* `descs(...)`            Hypothesis strategy for descs: every subset of the optional parameters, in-range values
* `build(desc)`           desc -> pynetdicom primitive, through public setters only (raises Rejected when a setter
                          refuses a value with ValueError/TypeError)
* `message_class(kind)`   the pynetdicom DIMSEMessage subclass for a kind (by its documented class name)
* `to_message(desc)`      desc -> (primitive, DIMSEMessage) with primitive_to_message() applied
* `extract(primitive)`    pynetdicom primitive -> desc-like plain data (kind inferred from class + direction)
* `pattern_bytes(n, seed)` deterministic filler for large data sets (any lost/duplicated/reordered fragment
                          changes the bytes)

Which parameters belong to which kind comes from refs.cmdfield_ref (PS3.7), never from pynetdicom's tables. The only
thing asked of pynetdicom is whether a fresh primitive object exposes the attribute at all (`exposed(kind)`).
"""
from __future__ import annotations

from io import BytesIO

from refs import cmdfield_ref as C


class Rejected(Exception):
    """A public setter refused a generated value (counted as api-rejected by checks, never a failure)."""

    def __init__(self, keyword, exc):
        super().__init__(f"{keyword}: {type(exc).__name__}: {exc}")
        self.keyword, self.exc = keyword, exc


_SERVICE_TO_CLASSNAME = {
    "C-STORE": "C_STORE",
    "C-FIND": "C_FIND",
    "C-GET": "C_GET",
    "C-MOVE": "C_MOVE",
    "C-ECHO": "C_ECHO",
    "C-CANCEL": "C_CANCEL",
    "N-EVENT-REPORT": "N_EVENT_REPORT",
    "N-GET": "N_GET",
    "N-SET": "N_SET",
    "N-ACTION": "N_ACTION",
    "N-CREATE": "N_CREATE",
    "N-DELETE": "N_DELETE",
}
_CLASSNAME_TO_SERVICE = {v: k for k, v in _SERVICE_TO_CLASSNAME.items()}

# every data-set-like parameter name of PS3.7 9.1/10.1 (used by extract())
DATASET_PARAMS = tuple(sorted({m.dataset[0] for m in C.MESSAGES.values() if m.dataset}))


def primitive_class(kind):
    from pynetdicom import dimse_primitives as P

    return getattr(P, _SERVICE_TO_CLASSNAME[C.MESSAGES[kind].service])


def message_class(kind):
    from pynetdicom import dimse_messages as M

    return getattr(M, kind.replace("-", "_"))


_EXPOSED = {}


def exposed(kind):
    """Keywords of cmdfield_ref.transmitted(kind) that a fresh primitive of the kind's class has as attributes."""
    if kind not in _EXPOSED:
        p = primitive_class(kind)()
        _EXPOSED[kind] = tuple(k for k in C.transmitted(kind) if hasattr(p, k))
    return _EXPOSED[kind]


def not_exposed():
    """{kind: [keywords]} PS3.7 lets the message carry but the pynetdicom primitive has no attribute for."""
    out = {}
    for k in C.KINDS:
        miss = [x for x in C.transmitted(k) if x not in exposed(k)]
        if miss:
            out[k] = miss
    return out


def extra_keywords(kind):
    """Parameters the primitive object accepts that a message of this kind does not transmit (PS3.7)."""
    p = primitive_class(kind)()
    tx = set(C.transmitted(kind))
    out = []
    for k in C.ELEMENTS:
        if k in C.STRUCTURAL or k in tx:
            continue
        if hasattr(p, k):
            out.append(k)
    return tuple(out)


# --------------------------------------------------------------------------- desc -> primitive
def build(desc, dataset_bytes=None):
    """desc -> primitive. `dataset_bytes` overrides desc['dataset'] (used by C15 for generated-by-length data)."""
    kind = desc["kind"]
    m = C.MESSAGES[kind]
    p = primitive_class(kind)()
    items = list((desc.get("extras") or {}).items()) + list(desc["params"].items())
    for kw, v in items:
        if not hasattr(p, kw):
            raise KeyError(f"{kind}: primitive has no attribute {kw}")  # generator bug, not a rejection
        try:
            setattr(p, kw, v)
        except (ValueError, TypeError) as e:
            raise Rejected(kw, e)
    ds = dataset_bytes if dataset_bytes is not None else desc.get("dataset")
    if ds is not None:
        if m.dataset is None:
            raise KeyError(f"{kind} carries no data set")
        try:
            stream = BytesIO(bytes(ds))
            # desc["ds_pos"]: where the stream's position is when the primitive gets it (a caller may have written the bytes
            # into it or read it before): "start" (default), "middle", "end". The content of the stream is what counts.
            pos = desc.get("ds_pos", "start")
            stream.seek({"start": 0, "middle": len(ds) // 2, "end": len(ds)}[pos])
            setattr(p, m.dataset[0], stream)
        except (ValueError, TypeError) as e:
            raise Rejected(m.dataset[0], e)
    return p


def to_message(desc, dataset_bytes=None):
    p = build(desc, dataset_bytes)
    msg = message_class(desc["kind"])()
    msg.primitive_to_message(p)
    return p, msg


# --------------------------------------------------------------------------- primitive -> plain data
def extract(p):
    """primitive -> {"kind", "params" (only non-None, normalised by cmdfield_ref.norm_value), "dataset", "context_id"}."""
    service = _CLASSNAME_TO_SERVICE.get(type(p).__name__)
    if service is None:
        return {"kind": "?" + type(p).__name__, "params": {}, "dataset": None, "context_id": None}
    if service == "C-CANCEL":
        kind = "C-CANCEL-RQ"
    else:
        kind = service + ("-RQ" if p.MessageIDBeingRespondedTo is None else "-RSP")
    params = {}
    for kw in C.ELEMENTS:
        if kw in C.STRUCTURAL or not hasattr(p, kw):
            continue
        v = C.norm_value(kw, getattr(p, kw))
        if v is None or v == []:
            continue
        params[kw] = v
    ds = None
    for name in DATASET_PARAMS:
        if hasattr(p, name):
            v = getattr(p, name)
            if v is not None:
                ds = v.getvalue() if hasattr(v, "getvalue") else bytes(v)
            break  # all data-set-like parameters of one primitive share one slot
    return {"kind": kind, "params": params, "dataset": ds, "context_id": getattr(p, "_context_id", None)}


def expected_params(desc):
    """Normalised {keyword: value} of the parameters PS3.7 transmits for desc['kind'] (unset / empty ones omitted)."""
    out = {}
    for kw in C.transmitted(desc["kind"]):
        v = C.norm_value(kw, desc["params"].get(kw))
        if v is None or v == []:
            continue
        out[kw] = v
    return out


def pattern_bytes(n, seed=0):
    """n deterministic pseudo-random bytes (SHAKE-128 of the seed): any lost, duplicated or reordered fragment
    changes the reassembled bytes."""
    import hashlib

    if n <= 0:
        return b""
    return hashlib.shake_128(b"dimse_gen:%d" % seed).digest(n)


# --------------------------------------------------------------------------- strategies
_WELL_KNOWN_TAGS = [0x00080018, 0x00100010, 0x00100020, 0x0020000D, 0x7FE00010, 0x00000000, 0xFFFFFFFF, 0x00091001]
_COMMENT_ALPHABET = "".join(chr(c) for c in range(0x20, 0x7F) if c != 0x5C)


_VS = {}


def value_strategy(keyword):
    """In-range values for one command-set parameter (PS3.7 E.1-1 VR/VM; PS3.5 6.2 value ranges)."""
    if keyword not in _VS:
        _VS[keyword] = _value_strategy(keyword)
    return _VS[keyword]


_S = []


def _value_strategy(keyword):
    from hypothesis import strategies as st

    from engines import ps38ref

    if not _S:
        _S.append(ps38ref.strategies())
    S = _S[0]
    _, vr, multi = C.ELEMENTS[keyword]
    if keyword == "Priority":
        return st.sampled_from([0, 1, 2])  # PS3.7 E.1-1: LOW=2, MEDIUM=0, HIGH=1
    if vr == "US":
        return st.one_of(st.sampled_from([0, 1, 0xFF, 0x100, 0x0101, 0xFF00, 0xFFFE, 0xFFFF]), st.integers(0, 0xFFFF))
    if vr == "UI":
        return S.uid()
    if vr == "AE":
        return S.ae_title()
    if vr == "LO":
        return st.one_of(
            st.text(alphabet=_COMMENT_ALPHABET, min_size=0, max_size=64),
            st.text(alphabet=_COMMENT_ALPHABET, min_size=63, max_size=64),
            st.sampled_from(["", " ", "a", "Refused: out of resources", "x" * 64]),
        )
    if vr == "AT":
        edge = st.sampled_from([0x00000000, 0x00000001, 0x0000FFFF, 0x00010000, 0xFFFF0000, 0xFFFFFFFF])  # incl. the falsy tag (0000,0000)
        tag = st.one_of(st.sampled_from(_WELL_KNOWN_TAGS), st.integers(0, 0xFFFFFFFF), edge)
        return st.one_of(st.lists(tag, min_size=0, max_size=5), st.lists(tag, min_size=0, max_size=5), edge.map(lambda t: [t]))
    raise KeyError(keyword)


def descs(kinds=None, dataset="any", extras=False, min_ds=2, max_ds=64):
    """Strategy for descs.

    kinds   : iterable of kinds (default all 23)
    dataset : "any"  -> M data sets always present, U/C ones present or absent;
              "none" -> never set; "always" -> set whenever the kind can carry one
    extras  : also set (in about a quarter of the cases) parameters the message does not transmit
    Data-set bytes are arbitrary even-length strings of min_ds..max_ds bytes (never empty: see C16)."""
    from hypothesis import strategies as st

    kinds = tuple(kinds or C.KINDS)

    @st.composite
    def one(draw):
        kind = draw(st.sampled_from(kinds))
        m = C.MESSAGES[kind]
        ex = exposed(kind)
        params = {}
        for kw in m.mandatory:
            if kw in ex:
                params[kw] = draw(value_strategy(kw))
        opt = [kw for kw in m.optional if kw in ex]
        if opt:
            mode = draw(st.integers(0, 5))
            if mode == 0:
                chosen = []
            elif mode == 1:
                chosen = list(opt)
            else:
                chosen = [kw for kw in opt if draw(st.booleans())]
            for kw in chosen:
                params[kw] = draw(value_strategy(kw))
        ds = None
        if m.dataset is not None and dataset != "none":
            present = True if (dataset == "always" or m.dataset[1] == "M") else draw(st.booleans())
            if present:
                n = draw(st.integers(min_ds // 2, max_ds // 2)) * 2
                ds = draw(st.binary(min_size=n, max_size=n))
        d = {"kind": kind, "params": params, "dataset": ds}
        if extras and draw(st.integers(0, 3)) == 0:
            xs = {}
            for kw in extra_keywords(kind):
                if draw(st.booleans()):
                    xs[kw] = draw(value_strategy(kw))
            if xs:
                d["extras"] = xs
        return d

    return one()
