"""C04 - the state machine reacts to every (state, event) pair as PS3.8 Table 9-10 / 9-6..9-9 prescribe (E2 + fsm_ref).

The 13 x 19 pair space x {requestor, acceptor} x ARTIM running/stopped x event variants is enumerated completely;
payload PDUs / primitives come from the E1 strategies (seeded). Each case runs the REAL reactor
(`DULServiceProvider.run_reactor`) for exactly one event on a scripted socket.
"""
from engines import ps38ref as R
from engines import vsock as V
from refs import fsm_ref as F
from vlib import sig
from vlib.core import HarnessError

LEVEL = "exploration"
RULE = (
    "Complete enumeration of 13 states x 19 events x {requestor, acceptor} x {ARTIM running, stopped} x event variants "
    "(Evt15: A-ABORT source 0/2 and A-P-ABORT with each reason; Evt16: source 0/2; (Sta2,Evt6): protocol version 1,0,2,3,0xFFFF; "
    "Evt19: unknown PDU type / undecodable body; Evt17: EOF or failed transport connect), payloads drawn from the E1 strategies. "
    "Each case delivers the event to the real run_reactor() (bytes on a scripted socket, primitive on the provider queue, "
    "EOF, or ARTIM expiry) and compares next state, PDU on the wire (kind, and source/reason/result fields), user indication, "
    "ARTIM effect, transport close/connect, P-DATA indication and EVT_FSM_TRANSITION with a model written from Table 9-10 and 9-6..9-9. "
    "Non-trivial = pair defined in Table 9-10 (the others must raise InvalidEventError with no side effect); distinct = (state,event,role,artim,variant,payload)."
)
ASSUMPTIONS = [
    "refs/fsm_ref.py is a correct transcription of PS3.8 Table 9-10 and Tables 9-6..9-9",
    "A-P-ABORT request primitives from the local user (pynetdicom's way of asking for a provider-initiated abort) are sent by AA-1 with "
    "source 2 and the primitive's reason; AA-1 without a primitive sends source 0 (service-user) reason 0; AA-7 may send any legal source/reason",
    "AR-5/AA-4/AA-5 (connection already closed by the peer) may or may not close the local socket; for every action whose next state "
    "is not Sta1 the socket must stay open",
    "Table 9-11: a receiver shall only test bit 0 of the protocol-version field",
    "state is forced by assigning StateMachine.current_state (the only way to reach all 247 pairs)",
]
SHARDS = {"quick": 1, "thorough": 8}

PDU_EVENTS = {"Evt3": "ac", "Evt4": "rj", "Evt6": "rq", "Evt10": "pdata", "Evt12": "relrq", "Evt13": "relrp", "Evt16": "abort"}


def _ind_kind(p):
    n = type(p).__name__
    if n == "A_ASSOCIATE":
        if p.result is None:
            return "A-ASSOCIATE-indication"
        return "A-ASSOCIATE-accept" if p.result == 0 else "A-ASSOCIATE-reject"
    if n == "A_RELEASE":
        return "A-RELEASE-indication" if p.result is None else "A-RELEASE-confirmation"
    if n == "A_ABORT":
        return "A-ABORT"
    if n == "A_P_ABORT":
        return "A-P-ABORT"
    return n


def _wire_kind(v):
    return {
        "AssocRQ": "A-ASSOCIATE-RQ", "AssocAC": "A-ASSOCIATE-AC", "AssocRJ": "A-ASSOCIATE-RJ", "PData": "P-DATA-TF",
        "ReleaseRQ": "A-RELEASE-RQ", "ReleaseRP": "A-RELEASE-RP", "Abort": "A-ABORT",
    }[type(v).__name__]


def check_pair(ctx, case):
    from pynetdicom import pdu_primitives as P
    from pynetdicom.fsm import InvalidEventError
    from pynetdicom.transport import AddressInformation, T_CONNECT

    state, event, mode = case["state"], case["event"], case["mode"]
    variant = case.get("variant") or {}
    payload = case.get("payload")
    is_rq = mode == "requestor"
    acceptable = True
    if event == "Evt6" and payload is not None:
        acceptable = bool(payload.protocol_version & 1)
    exp = F.expect(state, event, is_rq, acceptable)
    label = f"{event}/{state}"
    ctx.note(case, nontrivial=exp is not None, classes=["defined" if exp else "undefined", event, "artim-running" if case["artim"] else "artim-stopped"])

    with V.installed():
        h = V.SyncDUL(mode=mode, state=state)
        dul, raw = h.dul, h.raw
        if is_rq and state not in ("Sta1", "Sta4"):
            # a requestor in these states has a connected transport
            raw = h.connect_now()
        if case["artim"]:
            h.timer.running = True
        starts0, running0 = h.timer.starts, h.timer.running

        # ---- deliver the event
        sent_expected = None
        no_transport = is_rq and state in ("Sta1", "Sta4")  # no connected socket: inject what _read_pdu_data would
        if event in PDU_EVENTS and no_transport:
            pdu = R.pdu_class(payload)()
            pdu.decode(R.ref_encode(payload))
            dul._recv_pdu.put(pdu)
            dul.event_queue.put(event)
        elif event == "Evt19" and no_transport:
            dul.event_queue.put(event)
        elif event in PDU_EVENTS:
            raw.feed(R.ref_encode(payload))
        elif event == "Evt19":
            raw.feed(bytes(variant["bytes"]))
        elif event == "Evt17":
            if variant.get("how") == "tconnect":
                rqp = P.A_ASSOCIATE()
                rqp.called_presentation_address = AddressInformation("127.0.0.1", 11112)
                t = T_CONNECT(rqp)
                t.result = "Evt17"
                dul.to_provider_queue.put(t)
            else:
                raw.eof = True
        elif event == "Evt18":
            h.timer.fire = True
        elif event == "Evt5":
            dul.event_queue.put("Evt5")
        elif event == "Evt1":
            prim = R.to_primitive(payload)
            prim.called_presentation_address = AddressInformation("127.0.0.1", 11112)
            dul.to_provider_queue.put(prim)
        elif event == "Evt2":
            prim = R.to_primitive(payload)
            prim.called_presentation_address = AddressInformation("127.0.0.1", 11112)
            t = T_CONNECT(prim)
            t.result = "Evt2"
            dul.to_provider_queue.put(t)
            sent_expected = R.ref_encode(payload)
        elif event == "Evt7":
            dul.to_provider_queue.put(R.to_primitive(payload))
            sent_expected = R.ref_encode(payload)
        elif event == "Evt8":
            dul.to_provider_queue.put(R.to_primitive(payload))
            sent_expected = R.ref_encode(payload)
        elif event == "Evt9":
            dul.to_provider_queue.put(R.to_primitive(payload))
            sent_expected = R.ref_encode(payload)
        elif event == "Evt11":
            dul.to_provider_queue.put(P.A_RELEASE())
        elif event == "Evt14":
            p = P.A_RELEASE()
            p.result = "affirmative"
            dul.to_provider_queue.put(p)
        elif event == "Evt15":
            if variant["prim"] == "A_ABORT":
                p = P.A_ABORT()
                p.abort_source = variant["source"]
            else:
                p = P.A_P_ABORT()
                p.provider_reason = variant["reason"]
            dul.to_provider_queue.put(p)
        else:
            raise HarnessError(event)

        how, exc = h.run(max_iter=6, until=lambda: len(h.transitions) >= 1)

        # ---- observe
        sent = bytes(raw.sent)
        wire, rest = [], sent
        try:
            while rest:
                v, used = R.ref_parse(rest, strict=False)
                wire.append(v)
                rest = rest[used:]
        except R.Reject as e:
            ctx.fail("wire-unparseable", label, f"bytes sent are not a PDU sequence ({e}): {sent.hex()}")
            return
        inds = [_ind_kind(p) for p in h.user_queue()]
        closed = raw.closed or h.sock.socket is None
        t_running, t_started = h.timer.running, h.timer.starts > starts0

        if exp is None:
            # "treats the pair as not allowed": either the provider refuses it (InvalidEventError) or it discards the event without performing
            # any action for it (what the reactor does with a user primitive that is still queued when the provider has aborted, Sta13);
            # in both cases nothing of Tables 9-6..9-9 may happen on its behalf (checked below)
            refused = how == "raised" and isinstance(exc, InvalidEventError)
            discarded = how != "raised" and not any(t[1] == event for t in h.transitions) and dul.to_provider_queue.empty() and dul.event_queue.empty()
            if not (refused or discarded):
                ctx.fail("undefined-pair-accepted", label, f"pair not in Table 9-10 but outcome={how} exc={exc!r} transitions={h.transitions}")
                return
            ctx.cls("undefined:refused" if refused else "undefined:discarded")
            if discarded and state == "Sta13" and h.transitions in ([], [("Sta13", "Evt17", "AR-5", "Sta1")]):
                # the reactor closes an idle socket itself in Sta13: that transition belongs to the connection loss, not to the discarded event
                if wire or inds:
                    ctx.fail("undefined-pair-side-effect", label, f"discarded pair had side effects: sent {wire} indications {inds}")
                return
            side = []
            if h.state != state:
                side.append(f"state {state}->{h.state}")
            if wire:
                side.append(f"sent {wire}")
            if inds:
                side.append(f"indication {inds}")
            if closed and state != "Sta13":  # in Sta13 the reactor itself closes an idle socket before any event
                side.append("transport closed")
            if t_running != running0 or t_started:
                side.append("artim touched")
            if side:
                ctx.fail("undefined-pair-side-effect", label, f"undefined pair had side effects: {side}")
            return

        act = exp["action"]
        if how == "raised":
            ctx.fail("action-raised", f"{act}:{sig.exc_key(exc)}", f"{label} ({act}) raised out of the provider: {exc!r}\n{sig.exc_text(exc)}\ncase={case}")
            return
        if not h.transitions:
            ctx.fail("no-transition", label, f"{label}: event was not processed (outcome={how}, state={h.state})")
            return
        tr = h.transitions[0]
        if act == "AE-6" and tr[3] in ("Sta3", "Sta13") and tr[3] != exp["next"]:
            ctx.fail("ae6-decision", f"protocol-version:{'rejected' if tr[3] == 'Sta13' else 'accepted'}", f"AE-6 with protocol version {payload.protocol_version:#06x}: expected {'accept' if acceptable else 'reject'} (Table 9-11: only bit 0 is tested), got next state {tr[3]}")
            return
        if h.state != exp["next"] or tr[3] != exp["next"]:
            ctx.fail("next-state", f"{label}:{act}", f"{label}: expected {act} -> {exp['next']}, got state {h.state}, transition {tr}; case={case}")
        if tuple(tr[:3]) != (state, event, act):
            ctx.fail("transition-event", f"{label}:{act}", f"EVT_FSM_TRANSITION reported {tr}, expected ({state},{event},{act},{exp['next']})")

        # PDU on the wire
        want_send = exp["send"]
        kinds = [_wire_kind(v) for v in wire]
        if want_send is None:
            if kinds:
                ctx.fail("unexpected-pdu", f"{act}", f"{label} ({act}) must not send a PDU, sent {wire}")
        else:
            if kinds != [want_send]:
                ctx.fail("wrong-pdu", f"{act}", f"{label} ({act}) must send exactly one {want_send}, sent {wire}")
            else:
                w = wire[0]
                if sent_expected is not None and sent != sent_expected:
                    ctx.fail("pdu-content", f"{act}", f"{label} ({act}): PDU differs from the primitive's encoding\n want={sent_expected.hex()}\n got ={sent.hex()}")
                if act == "AA-8":
                    if w.source != 2 or w.reason not in R.ABORT_LEGAL_PROVIDER_REASONS:
                        ctx.fail("abort-fields", act, f"AA-8 must send a provider-source A-ABORT with a legal reason, sent {w}")
                elif act == "AA-1":
                    if event == "Evt15":
                        if variant["prim"] == "A_ABORT":
                            ok = (w.source, w.reason) == (variant["source"], 0)
                        else:
                            ok = (w.source, w.reason) == (2, variant["reason"])
                    else:
                        ok = (w.source, w.reason) == (0, 0)
                    if not ok:
                        ctx.fail("abort-fields", f"{act}:{event if event == 'Evt15' else 'pdu'}", f"{label} AA-1 sent {w} for variant {variant}")
                elif act == "AA-7":
                    if w.source not in (0, 2) or (w.source == 0 and w.reason != 0) or (w.source == 2 and w.reason not in R.ABORT_LEGAL_PROVIDER_REASONS):
                        ctx.fail("abort-fields", act, f"AA-7 sent an illegal A-ABORT {w}")
                elif act == "AE-6":
                    if (w.result, w.source, w.reason) != (1, 2, 2):
                        ctx.fail("reject-fields", act, f"AE-6 must reject with result 1 (permanent), source 2 (ACSE), reason 2 (protocol version), sent {w}")

        # indication to the user
        want_ind = exp["ind"]
        if want_ind == "abort-indication":
            want_ind = "A-ABORT" if payload.source == 0 else "A-P-ABORT"
        if want_ind is None:
            if inds:
                ctx.fail("unexpected-indication", act, f"{label} ({act}) must not issue an indication, issued {inds}")
        elif inds != [want_ind]:
            ctx.fail("wrong-indication", act, f"{label} ({act}) must issue exactly [{want_ind}], issued {inds}")
        else:
            p = h.user_queue()[0]
            if want_ind == "A-P-ABORT" and act == "AA-3" and p.provider_reason != payload.reason:
                ctx.fail("indication-content", act, f"AA-3 A-P-ABORT indication reason {p.provider_reason} != PDU reason {payload.reason}")
            if want_ind in ("A-ASSOCIATE-indication", "A-ASSOCIATE-accept") and (p.called_ae_title, p.calling_ae_title) != (payload.called, payload.calling):
                ctx.fail("indication-content", act, f"{act}: AE titles in indication {p.called_ae_title!r},{p.calling_ae_title!r} != PDU {payload.called!r},{payload.calling!r}")
            if want_ind == "A-ASSOCIATE-reject" and (p.result, p.result_source, p.diagnostic) != (payload.result, payload.source, payload.reason):
                ctx.fail("indication-content", act, f"AE-4: reject confirmation fields differ from PDU {payload}")

        # ARTIM
        a = exp["artim"]
        if a == "start":
            if not (t_running and t_started):
                ctx.fail("artim", f"{act}:start", f"{label} ({act}) must (re)start ARTIM: running={t_running} started={t_started} calls={h.timer.calls}")
        elif a == "stop":
            if t_running:
                ctx.fail("artim", f"{act}:stop", f"{label} ({act}) must leave ARTIM stopped: calls={h.timer.calls}")
        else:
            if t_running != running0 or t_started:
                ctx.fail("artim", f"{act}:untouched", f"{label} ({act}) must not touch ARTIM: before running={running0}, calls={h.timer.calls}")

        # transport
        if exp["close"] and not closed:
            ctx.fail("transport", f"{act}:close", f"{label} ({act}) must close the transport connection")
        if exp["next"] != "Sta1" and closed:
            ctx.fail("transport", f"{act}:closed-early", f"{label} ({act}) closed the transport although the next state is {exp['next']}")
        if exp["connect"] and raw.connected_to != ("127.0.0.1", 11112):
            ctx.fail("transport", f"{act}:connect", f"AE-1 must issue a transport connect to the called address, connected_to={raw.connected_to}")

        # P-DATA indication
        if exp["pdata"]:
            if len(h.dimse_calls) != 1 or [[c, bytes(d)] for c, d in h.dimse_calls[0].presentation_data_value_list] != [[c, bytes(d)] for c, d in payload.pdvs]:
                ctx.fail("pdata-indication", act, f"{act} must hand exactly the received PDVs to DIMSE, calls={len(h.dimse_calls)}")
        elif h.dimse_calls:
            ctx.fail("pdata-indication", f"{act}:unexpected", f"{label} ({act}) handed P-DATA to DIMSE")


CHECKS = {"pair": check_pair}


def _variants(state, event):
    if event == "Evt15":
        out = [{"prim": "A_ABORT", "source": 0}, {"prim": "A_ABORT", "source": 2}]
        out += [{"prim": "A_P_ABORT", "reason": r} for r in (0, 1, 2, 4, 5, 6)]
        return out
    if event == "Evt19":
        return [
            {"bytes": bytes([0x08, 0, 0, 0, 0, 4, 0, 0, 0, 0])},
            {"bytes": bytes([0x00, 0, 0, 0, 0, 0])},
            {"bytes": bytes([0xFF, 0, 0, 0, 0, 0])},
            {"bytes": bytes([0x01, 0, 0, 0, 0, 4, 1, 2, 3, 4])},  # A-ASSOCIATE-RQ far too short to decode
        ]
    if event == "Evt17":
        return [{"how": "tconnect"}] if state in ("Sta1", "Sta4") else [{"how": "eof"}]
    return [None]


def run(ctx):
    import dataclasses

    S = R.strategies()
    from hypothesis import strategies as st

    k = 3 if ctx.quick else 40
    pay = {
        "rq": ctx.collect("rq", S.assoc_rq(4, leads=False).filter(lambda v: all(c.transfer for c in v.contexts)), k),
        "ac": ctx.collect("ac", st.builds(R.AssocAC, S.ae_title(), S.ae_title(), S.uid(), st.lists(st.builds(R.PCAC, S.cid, st.integers(0, 4), S.uid()), max_size=4), S.ac_items.filter(lambda l: not any(isinstance(i, R.RoleSelection) and not (i.scu or i.scp) for i in l)), st.just(1)), k),
        "rj": ctx.collect("rj", S.rj, k),
        "pdata": ctx.collect("pdata", S.pdata.filter(lambda p: len(p.pdvs) > 0), k),
        "abort0": [R.Abort(0, 0)],
        "abort2": [R.Abort(2, r) for r in sorted(R.ABORT_LEGAL_PROVIDER_REASONS)],
    }
    # primitives for local events must be accepted by the public setters: filter payloads the API refuses
    def ok_prim(v):
        try:
            R.pdu_class(v)().from_primitive(R.to_primitive(v))
            return True
        except Exception:
            return False

    pay["rq_prim"] = [v for v in pay["rq"] if ok_prim(v)] or [R.AssocRQ("A", "B", "1.2.840.10008.3.1.1.1", [R.PCRQ(1, "1.2.840.10008.1.1", ["1.2.840.10008.1.2"])], [R.MaxLength(16382), R.ImplClassUID("1.2.3")])]
    pay["ac_prim"] = [v for v in pay["ac"] if ok_prim(v)] or [R.AssocAC("A", "B", "1.2.840.10008.3.1.1.1", [R.PCAC(1, 0, "1.2.840.10008.1.2")], [R.MaxLength(16382), R.ImplClassUID("1.2.3")])]

    cases = []
    idx = 0
    for state in F.STATES:
        for event in F.EVENTS:
            for mode in ("acceptor", "requestor"):
                for artim in (False, True):
                    for variant in _variants(state, event):
                        payloads = [None]
                        if event == "Evt6":
                            base = pay["rq"]
                            versions = (1, 0, 2, 3, 0xFFFF) if state == "Sta2" else (1,)
                            payloads = [dataclasses.replace(b, protocol_version=pv) for b in base[: (1 if len(versions) > 1 else len(base))] for pv in versions]
                        elif event == "Evt3":
                            payloads = pay["ac"]
                        elif event == "Evt4":
                            payloads = pay["rj"]
                        elif event == "Evt10":
                            payloads = pay["pdata"]
                        elif event == "Evt12":
                            payloads = [R.ReleaseRQ()]
                        elif event == "Evt13":
                            payloads = [R.ReleaseRP()]
                        elif event == "Evt16":
                            payloads = pay["abort0"] + pay["abort2"]
                        elif event in ("Evt1", "Evt2"):
                            payloads = pay["rq_prim"]
                        elif event == "Evt7":
                            payloads = pay["ac_prim"]
                        elif event == "Evt8":
                            payloads = pay["rj"]
                        elif event == "Evt9":
                            payloads = pay["pdata"]
                        for p in payloads:
                            idx += 1
                            if idx % ctx.nshards != ctx.shard:
                                continue
                            cases.append({"state": state, "event": event, "mode": mode, "artim": artim, "variant": variant, "payload": p})
    ctx.each("pair", cases)
    ctx.exhaustive = True
    ctx.extra["pairs_enumerated"] = len(F.STATES) * len(F.EVENTS)
    ctx.extra["pairs_defined_in_table"] = len(F.defined_pairs())
