#!/bin/bash
# usage: eval_seed3.sh <name e.g. C07C> [tier] : evaluate a round-4 seeded change (/tmp/seed4/out/<name>/ or, once kept, seeded/<ID>/r3C/)
N=$1; ID=${N:0:3}; X=${N:3}; TIER=${2:-quick}
D=/tmp/seed4/out/$N; [ -d "$D" ] || D=/verif/seeded/$ID/r4$X
/verif/tools/eval_seed.sh "$ID" "$D/patch.diff" "$D/demo.py" "$TIER" 2>&1 | sed "s/^$ID:/$N:/"
