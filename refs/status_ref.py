"""status_ref - independent classification of 16-bit DIMSE status codes (C28).

Written from PS3.7 Annex C (Table C-1 "status classes" and the general status values of C.4/C.5) and PS3.4
(Pending values of the C-FIND / C-GET / C-MOVE services). Not derived from pynetdicom.status.

    Success  0000
    Warning  0001, 0107, 0116, Bxxx
    Failure  Axxx, Cxxx, 01xx (except 0107 and 0116), 02xx
    Cancel   FE00
    Pending  FF00, FF01
    anything else: no class ("Unknown")

PS3.7 puts the whole of 01xx/02xx into the Failure class but assigns a meaning only to the values listed in
ASSIGNED_GENERAL_FAILURES; pynetdicom documents code_to_category as returning 'Unknown' for codes it does not
recognise, so for the *unassigned* 01xx/02xx values both 'Failure' and 'Unknown' are accepted (`allowed()`).
"""

SUCCESS, WARNING, FAILURE, CANCEL, PENDING, UNKNOWN = "Success", "Warning", "Failure", "Cancel", "Pending", "Unknown"
CATEGORIES = (SUCCESS, WARNING, FAILURE, CANCEL, PENDING, UNKNOWN)

# PS3.7 Annex C general status values of the Failure class
ASSIGNED_GENERAL_FAILURES = frozenset(
    [0x0105, 0x0106]
    + list(range(0x0110, 0x0116))  # 0110..0115
    + list(range(0x0117, 0x011A))  # 0117..0119
    + list(range(0x0120, 0x0125))  # 0120..0124
    + list(range(0x0210, 0x0214))  # 0210..0213
)


def allowed(code):
    """-> frozenset of categories a conforming classifier may return for `code` (one element when definite)."""
    if not (isinstance(code, int) and 0 <= code <= 0xFFFF):
        raise ValueError(code)
    if code == 0x0000:
        return frozenset([SUCCESS])
    if code in (0x0001, 0x0107, 0x0116):
        return frozenset([WARNING])
    hi = code >> 12
    if hi == 0xB:
        return frozenset([WARNING])
    if hi in (0xA, 0xC):
        return frozenset([FAILURE])
    if code in ASSIGNED_GENERAL_FAILURES:
        return frozenset([FAILURE])
    if (code >> 8) in (0x01, 0x02):
        return frozenset([FAILURE, UNKNOWN])
    if code == 0xFE00:
        return frozenset([CANCEL])
    if code in (0xFF00, 0xFF01):
        return frozenset([PENDING])
    return frozenset([UNKNOWN])


def is_pending(code):
    """The only thing the final/continue decision depends on: definite for every code."""
    return code in (0xFF00, 0xFF01)


# Pending values that are statuses of the service itself, as far as transcribed with confidence:
# FF00 is the Pending status of every C-FIND / C-GET / C-MOVE service; FF01 ("optional keys not supported") is defined for
# the Query/Retrieve C-FIND (PS3.4 C.4.1.1.4) and Modality Worklist C-FIND (K.4.1.1.4) services. The Relevant Patient
# Information Query, C-GET and C-MOVE services have FF00 only; other C-FIND services: FF01 not asserted either way.
PENDING_MIN = frozenset([0xFF00])
PENDING_FIND_QR = frozenset([0xFF00, 0xFF01])

BOUNDARIES = sorted(
    {
        c
        for b in (0x0000, 0x0001, 0x0100, 0x0105, 0x0107, 0x0110, 0x0116, 0x0117, 0x0119, 0x0120, 0x0124, 0x0200, 0x0210, 0x0213,
                  0x0300, 0xA000, 0xB000, 0xC000, 0xD000, 0xFE00, 0xFF00, 0xFF01, 0xFFFF)
        for c in (b - 1, b, b + 1)
        if 0 <= c <= 0xFFFF
    }
)
