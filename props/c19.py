"""C19 - requests on presentation context IDs that were not accepted never reach a handler (engine E3, exhaustive IDs).

Paths: Association._serve_request directly; DIMSEServiceProvider.receive_primitive (P-DATA as a peer would send it, also
with _config.STORE_RECV_CHUNKED_DATASET) followed by the reactor's get_msg -> _serve_request step; and the requestor side
of a retrieve: send_c_get / send_c_move -> _wrap_get_move_responses -> _c_store_scp."""
from engines import scp_grammar as G
from refs import handler_status_ref as R
from vlib import sig

LEVEL = "exploration"
RULE = (
    "For fixed accepted-context layouts (dense: the 11 request types' SOP classes on IDs 1..21 + rejected IDs; sparse: a "
    "few SOP classes on IDs 1,3,127,129,255; storage on several IDs) the full product context ID 0..255 x 12 request types "
    "(C-ECHO/STORE/FIND/GET/MOVE/CANCEL, N-EVENT-REPORT/GET/SET/ACTION/CREATE/DELETE) x paths {_serve_request, "
    "receive_primitive+reactor step, receive_primitive with chunked C-STORE receive, send_c_get SCU path, send_c_move SCU "
    "path} is enumerated; Hypothesis adds random layouts (random subsets of SOP classes on random distinct odd IDs, random "
    "rejected IDs, 4 transfer syntaxes, fragmenting maximum PDU sizes). Recording handlers are bound to all 11 DIMSE "
    "intervention events. 'Negotiated' family: the accepted set is not planted but derived by pynetdicom's own "
    "ACSE._negotiate_as_requestor from a scripted A-ASSOCIATE-AC (per proposed ID: accept / reject with result 1-4 / omit; "
    "unsolicited IDs), enumerated over 12 types x IDs x {_serve_request, receive_primitive} for a fixed script and drawn at "
    "random by Hypothesis. Non-trivial = the ID is not accepted although the request's SOP class is accepted on another ID, "
    "or the ID was proposed and the peer's AC rejected or omitted it; distinct = distinct (layout, answers, path, type, ID)."
)
ASSUMPTIONS = [
    "negotiated family: a proposed context the A-ASSOCIATE-AC does not answer at all is not accepted (PS3.8 7.1.1.13: the "
    "result list has one entry per proposed context; pynetdicom documents missing ones as rejected), and an AC entry for "
    "an ID that was never proposed accepts nothing; the first proposed context is always accepted so that the "
    "association is established",
    "'answered as if it were valid' = a DIMSE response whose status is not Failure-class; a refusal (Failure status, e.g. "
    "0x0122) or an A-ABORT is accepted, as is an exception/Evt19 raised while receiving (attributed to C02/C05)",
    "a request on an ACCEPTED context ID whose abstract syntax differs from the request's SOP class is outside C19",
    "the reactor step is emulated as `cx, msg = dimse.get_msg(False); _serve_request(msg, cx)` (Association._run_reactor); "
    "N-EVENT-REPORT's worker thread in receive_primitive is run synchronously",
    "SCU paths: the peer's message under test and the final retrieve response are queued before send_c_get/send_c_move "
    "starts waiting (any arrival order is possible on a real association)",
]
SHARDS = {"quick": 1, "thorough": 8}
MIN_NONTRIVIAL = 100

_R = [r for r in G.RTYPES if r != "C-CANCEL"]
LAYOUTS = {
    "dense": {"layout": [[rt, 2 * i + 1, "implicit"] for i, rt in enumerate(_R)], "rejected": [23, 25]},
    "sparse": {
        "layout": [["C-ECHO", 1, "implicit"], ["C-FIND", 3, "explicit"], ["C-GET", 127, "implicit"], ["C-MOVE", 129, "big"], ["C-STORE", 255, "explicit"]],
        "rejected": [5, 7, 253],
    },
    "multi-store": {
        "layout": [["C-STORE", 5, "implicit"], ["C-STORE", 9, "explicit"], ["C-STORE", 201, "deflated"], ["C-GET", 3, "implicit"], ["C-MOVE", 7, "implicit"], ["N-ACTION", 11, "implicit"], ["N-EVENT-REPORT", 13, "implicit"]],
        "rejected": [1],
    },
}


def pgroup(path):
    return {"serve": "acceptor-serve", "recv": "acceptor-recv", "recv-chunked": "acceptor-recv", "cget-scu": "scu-retrieve", "cmove-scu": "scu-retrieve"}[path]


def check_ctx(ctx, case):
    path, rtype, cid = case["path"], case["rtype"], case["cid"]
    obs = G.run_ctx_case(case)
    accepted = cid in obs.accepted
    sop = G.CTX_SOP[rtype]
    elsewhere = sop is not None and any(G.CTX_SOP[rt] == sop and i != cid for rt, i, _ in case["layout"])
    rsps = [m for k, m in obs.wire if k == "dimse" and (m.error or m.is_response)]
    cls = [f"path:{path}", rtype] + (["accepted-set:negotiated-from-ac"] if case.get("answers") else [])
    negotiated_away = False
    if accepted:
        cls.append("id:accepted")
        cls.append("accepted:" + ("served" if obs.log.calls else "not-served"))
    else:
        cls.append("id:unaccepted")
        ans = {int(k): v for k, v in (case.get("answers") or {}).items()}
        if cid in ans and ans[cid] != 0:
            cls.append("id:omitted-by-ac" if ans[cid] == "omit" else f"id:rejected-by-ac:{ans[cid]}")
            negotiated_away = True
        elif any(cid == i for i, _ in case.get("unsolicited") or []):
            cls.append("id:unsolicited-in-ac")
        else:
            cls.append("id:rejected" if cid in (case.get("rejected") or []) else ("id:even" if cid % 2 == 0 else "id:never-proposed"))
        if elsewhere:
            cls.append("sop-class-accepted-on-other-id")
        cls.append("outcome:" + ("abort" if obs.aborted_locally else ("raised" if obs.raised is not None else ("response" if rsps else "ignored"))))
    if obs.raised is not None:
        cls.append("raised:" + sig.exc_key(obs.raised))
    ctx.note(case, nontrivial=(not accepted) and (elsewhere or negotiated_away), classes=cls)
    if accepted:
        return
    txt = (
        f"path={path} request={rtype} on context ID {cid}; accepted IDs {sorted(obs.accepted)}; handlers run: {obs.log.events}; "
        f"responses: {[(hex(m.field or 0), None if m.status is None else hex(m.status), sorted(set(m.cx_ids))) for m in rsps]}; "
        f"abort={obs.aborted_locally}"
    )
    grp = ("requestor-negotiated:" if case.get("answers") else "") + pgroup(path)
    if obs.log.calls:
        ctx.fail("handler-invoked", f"{grp}:{rtype}", "a service handler ran for a request on an unaccepted context ID\n" + txt)
        return
    valid = [m for m in rsps if m.error or m.status is None or R.category(m.status) != "Failure"]
    if valid:
        ctx.fail("answered-as-valid", f"{grp}:{rtype}", "a non-failure response was sent for a request on an unaccepted context ID\n" + txt)


CHECKS = {"ctx": check_ctx}


def _enumerate(ctx, names, paths, only=None):
    k = 0
    for name in names:
        lay = LAYOUTS[name]
        for path in paths:
            has = {rt for rt, _, _ in lay["layout"]}
            if path == "cget-scu" and "C-GET" not in has or path == "cmove-scu" and "C-MOVE" not in has:
                continue
            for rtype in G.RTYPES:
                if path in ("recv-chunked", "cmove-scu") and rtype not in ("C-STORE", "C-ECHO"):
                    continue  # these paths differ from recv / cget-scu only for C-STORE
                if only and rtype not in only:
                    continue
                for cid in range(256):
                    k += 1
                    if k % ctx.nshards != ctx.shard:
                        continue
                    yield dict(lay, path=path, rtype=rtype, cid=cid)


# The peer's A-ASSOCIATE-AC for the dense layout: what each proposed ID is answered with (everything else is accepted)
NEG_ANSWERS = {"3": "omit", "5": 1, "7": 2, "9": 3, "11": 4, "13": "omit", "21": "omit"}
NEG_UNSOLICITED = [[101, 0], [23, 0]]


def _enumerate_negotiated(ctx, paths, cids):
    lay = LAYOUTS["dense"]
    k = 0
    for path in paths:
        for rtype in G.RTYPES:
            for cid in cids:
                k += 1
                if k % ctx.nshards != ctx.shard:
                    continue
                yield dict(layout=lay["layout"], rejected=[], answers=NEG_ANSWERS, unsolicited=NEG_UNSOLICITED, path=path, rtype=rtype, cid=cid)


def run(ctx):
    from hypothesis import strategies as st

    if ctx.quick:
        ctx.each("ctx", _enumerate(ctx, ["dense"], G.PATHS))
        ctx.each("ctx", _enumerate(ctx, ["sparse", "multi-store"], G.PATHS, only=("C-STORE",)))
    else:
        ctx.each("ctx", _enumerate(ctx, ["dense", "sparse", "multi-store"], G.PATHS))
    # accepted set derived by the real requestor-side negotiation from a scripted A-ASSOCIATE-AC (accept / reject 1-4 /
    # omit / unsolicited IDs): the IDs around the layout at the quick tier, all 256 at the thorough tier
    near = sorted({(i + d) % 256 for _, i, _ in LAYOUTS["dense"]["layout"] for d in (-1, 0, 1)} | {0, 23, 101, 255})
    ctx.each("ctx", _enumerate_negotiated(ctx, ["serve", "recv"], near if ctx.quick else range(256)))
    ctx.exhaustive = True
    ctx.extra["exhaustive_over"] = (
        "context IDs 0..255 x 12 request types x 5 paths for the dense layout; quick tier: C-STORE only for the sparse and "
        "multi-store layouts, thorough tier: everything for all three layouts"
    )

    odd = st.integers(0, 127).map(lambda i: 2 * i + 1)

    @st.composite
    def case(draw):
        rts = draw(st.lists(st.sampled_from(_R), min_size=0, max_size=8))
        rts += ["C-GET", "C-MOVE"]
        ids = draw(st.lists(odd, min_size=len(rts), max_size=len(rts), unique=True))
        layout = [[rt, i, draw(st.sampled_from(sorted(G.TS)))] for rt, i in zip(rts, ids)]
        rejected = draw(st.lists(odd.filter(lambda x: x not in ids), max_size=3, unique=True))
        cid = draw(st.one_of(st.integers(0, 255), st.sampled_from(ids), st.sampled_from(ids).map(lambda i: (i + 1) % 256), st.sampled_from(rejected) if rejected else st.just(0)))
        extra = {}
        if draw(st.integers(0, 2)) == 0:
            # the accepted set comes out of the real requestor negotiation; the first context is always accepted
            # (an association without any accepted context is aborted by the requestor)
            ans = {str(i): draw(st.sampled_from(["omit", "omit", 0, 1, 2, 3, 4])) for i in ids[1:]}
            uns = [[i, draw(st.sampled_from([0, 0, 3]))] for i in rejected]
            lost = [int(i) for i, v in ans.items() if v != 0]
            extra = {"answers": ans, "unsolicited": uns}
            rejected = []
            if lost:
                cid = draw(st.one_of(st.sampled_from(lost), st.just(cid)))
        return {
            **extra,
            "layout": layout,
            "rejected": rejected,
            # (Hypothesis favours the first element: put the interesting path/type there)
            "path": draw(st.sampled_from(["cget-scu", "recv", "serve", "recv-chunked", "cmove-scu"])) if not extra else draw(st.sampled_from(["serve", "recv", "cget-scu", "cmove-scu"])),
            "rtype": draw(st.sampled_from(["C-STORE", "C-STORE"] + [r for r in G.RTYPES if r != "C-CANCEL"] + ["C-CANCEL"])),
            "cid": cid,
            "max_pdu": draw(st.sampled_from([16382, 16382, 0, 64, 30, 13])),
        }

    ctx.hyp("ctx", case(), 1500 if ctx.quick else 6000)
