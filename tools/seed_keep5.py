#!/venv/bin/python
"""seed_keep5.py <name e.g. C10E> "<caught-by summary>" ["<strengthening note>"] ["<note>"] : keep a confirmed round-5 seeded change as /verif/seeded/<ID>/r5E/"""
import json, os, shutil, sys
N, caught = sys.argv[1], sys.argv[2]
strength = sys.argv[3] if len(sys.argv) > 3 else ""
note = sys.argv[4] if len(sys.argv) > 4 else ""
ID, X = N[:3], N[3:]
src = f"/tmp/seed5/out/{ID}"
dst = f"/verif/seeded/{ID}/r5{X}"
os.makedirs(dst, exist_ok=True)
shutil.copy(f"{src}/patch.diff", f"{dst}/patch.diff")
shutil.copy(f"{src}/demo.py", f"{dst}/demo.py")
am = json.load(open(f"{src}/meta.json"))
meta = {
    "property": ID,
    "round": 5,
    "name": N,
    "author": "independent sub-agent given only the property text and a scratch worktree (fifth round: four properties, asked for changes that need something specific to manifest)",
    "what_it_breaks": am.get("what_it_breaks", ""),
    "needs_to_manifest": am.get("needs_to_manifest", ""),
    "tests_run_by_author": am.get("tests_run", ""),
    "confirmed": {
        "demo": f"tools/eval_seed5.sh {N}: demo.py exits 0 on a scratch worktree of /repo HEAD and 1 after `git apply patch.diff`",
        "check": f"VERIF_REPO=<scratch worktree with the patch> /venv/bin/python check.py {ID} --tier quick",
        "tests": "the test files exercising the changed modules, run in a private network namespace (tests_run_by_author; re-run by the lead where noted)",
    },
    "caught_by": caught,
    "note": note,
    "strengthening": strength,
}
json.dump(meta, open(f"{dst}/meta.json", "w"), indent=1)
print("kept", N)
