#!/venv/bin/python
"""Differential self-check of the E4 engine's network model: the same canned scenarios (associate, C-ECHO, C-STORE, C-FIND, release / abort)
are run (a) between two real pynetdicom AEs over real loopback sockets with real threads and (b) under E4 (virtual sockets, cooperative
scheduler, fifo policy). The sequence of PDU types seen by the requestor (sent and received) and the outcomes must be identical.
Run inside a private network namespace:  unshare -rn bash -c 'ip link set lo up; /venv/bin/python tools/e4_selfcheck.py'
exit 0 = traces identical, 1 = a difference (would be a harness problem, not a property violation)."""
import os, sys, warnings
HERE = os.path.dirname(os.path.dirname(os.path.abspath(__file__)))
sys.path.insert(0, os.environ.get("VERIF_REPO", "/repo")); sys.path.insert(0, HERE)
warnings.filterwarnings("ignore")
import logging; logging.disable(logging.CRITICAL)
from pydicom.dataset import Dataset, FileMetaDataset
from engines import scenario as SC

SCRIPTS = {
    "echo-release": [["associate"], ["echo"], ["release"]],
    "store-find-release": [["associate"], ["store", 5000], ["find", None], ["release"]],
    "echo-abort": [["associate"], ["echo"], ["abort"]],
    "three-echo": [["associate"], ["echo"], ["echo"], ["echo"], ["release"]],
    "find-only": [["associate"], ["find", None], ["release"]],
    "store-small-pdu": [["associate"], ["store", 300], ["release"]],
}


def real(script):
    from pynetdicom import AE, evt
    trace = []
    def find(e):
        for i in range(2):
            d = Dataset(); d.QueryRetrieveLevel = "PATIENT"; d.PatientID = str(i)
            yield 0xFF00, d
    scp = AE("ANY-SCP")
    for ab in (SC.VERIFICATION, SC.CT, SC.PR_FIND):
        scp.add_supported_context(ab, SC.IMPLICIT)
    srv = scp.start_server(("127.0.0.1", 11112), block=False, evt_handlers=[(evt.EVT_C_ECHO, lambda e: 0), (evt.EVT_C_STORE, lambda e: 0), (evt.EVT_C_FIND, find)])
    try:
        scu = AE("SCU0")
        for ab in (SC.VERIFICATION, SC.CT, SC.PR_FIND):
            scu.add_requested_context(ab, SC.IMPLICIT)
        hs = [(evt.EVT_PDU_SENT, lambda e: trace.append(("S", e.pdu.pdu_type))), (evt.EVT_PDU_RECV, lambda e: trace.append(("R", e.pdu.pdu_type)))]
        a = None; res = []
        for op in script:
            if op[0] == "associate":
                a = scu.associate("127.0.0.1", 11112, evt_handlers=hs); res.append(a.is_established)
            elif op[0] == "echo":
                res.append(a.send_c_echo().Status)
            elif op[0] == "store":
                ds = Dataset(); ds.SOPClassUID = SC.CT; ds.SOPInstanceUID = "1.2.3.4"; ds.PatientName = "X" * op[1]
                ds.file_meta = FileMetaDataset(); ds.file_meta.TransferSyntaxUID = SC.IMPLICIT
                res.append(a.send_c_store(ds).Status)
            elif op[0] == "find":
                ds = Dataset(); ds.QueryRetrieveLevel = "PATIENT"; ds.PatientID = "*"
                res.append([s.Status for s, _ in a.send_c_find(ds, SC.PR_FIND)])
            elif op[0] == "release":
                a.release(); res.append(a.is_released)
            elif op[0] == "abort":
                a.abort(); res.append(a.is_aborted)
        return trace, res
    finally:
        srv.shutdown()


def virtual(script):
    sc = {"timeouts": {"acse": 5, "dimse": 5, "network": 10}, "acceptor": {"kind": "pynetdicom", "handlers": {"find": {"n": 2}}},
          "requestors": [{"kind": "pynetdicom", "script": script}], "schedule": {"policy": "fifo"}}
    out = SC.run(sc)
    rec = out["requestors"][0]["_rec"]
    trace = [("S" if e[2] == "EVT_PDU_SENT" else "R", e[3][0]) for e in rec.events if e[2] in ("EVT_PDU_SENT", "EVT_PDU_RECV")]
    res = [s[2] for s in out["requestors"][0]["steps"]]
    return trace, res


def real_stall():
    """C08 on the real kernel: a raw peer sends half an A-ASSOCIATE-RQ / half a P-DATA-TF and keeps the connection open; the acceptor must
    finish (thread gone, connection closed by it) within acse/network timeout + a generous margin."""
    import socket, threading, time
    from engines import ps38ref as R
    from pynetdicom import AE, evt
    results = []
    for phase in ("rq", "pdata"):
        scp = AE("ANY-SCP"); scp.acse_timeout = 1; scp.network_timeout = 1; scp.dimse_timeout = 1
        for ab in (SC.VERIFICATION, SC.CT, SC.PR_FIND):
            scp.add_supported_context(ab, SC.IMPLICIT)
        srv = scp.start_server(("127.0.0.1", 11113), block=False, evt_handlers=[(evt.EVT_C_ECHO, lambda e: 0)])
        try:
            s = socket.create_connection(("127.0.0.1", 11113)); s.settimeout(15)
            rq = R.ref_encode(SC.RAW_RQ)
            if phase == "rq":
                s.sendall(rq[:40])
            else:
                s.sendall(rq); s.recv(4096)
                s.sendall(SC.dimse_bytes("echo", 1)[:9])
            t0 = time.time(); closed = False
            try:
                while time.time() - t0 < 12:
                    b = s.recv(4096)
                    if b == b"":
                        closed = True; break
            except (socket.timeout, OSError):
                pass
            dt = time.time() - t0
            t1 = time.time()
            while scp.active_associations and time.time() - t1 < 5:
                time.sleep(0.1)
            results.append((phase, closed, round(dt, 1), len(scp.active_associations)))
            s.close()
        finally:
            srv.shutdown()
    return results


bad = 0
for phase, closed, dt, active in real_stall():
    ok = closed and dt < 10 and active == 0
    print(f"real-socket stall mid-{phase}: connection closed by the acceptor={closed} after {dt}s, active associations={active} -> {'ok' if ok else 'NOT OK'}")
    bad += 0 if ok else 1
for name, script in SCRIPTS.items():
    tr, rr = real(script)
    tv, rv = virtual(script)
    same = tr == tv and [x for x in rr] == [x for x in rv]
    print(f"{name}: {'identical' if same else 'DIFFERENT'}  ({len(tr)} PDUs)")
    if not same:
        bad += 1
        print("  real   :", tr, rr)
        print("  virtual:", tv, rv)
sys.exit(1 if bad else 0)
