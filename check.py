#!/venv/bin/python
"""Single entry point: check.py <ID> [--tier quick|thorough] [--replay FILE] [--shard K/N --out FILE]

exit 0: property held on everything explored (KNOWN-FINDING lines may be printed)
exit 1: a line `VIOLATION property=<id> replay=<path>` was printed
exit 2: harness error (never a VIOLATION)
"""
import argparse
import json
import os
import shutil
import subprocess
import sys
import time
import traceback

HERE = os.path.dirname(os.path.abspath(__file__))


def _env_setup():
    # a run is a pure function of (tree, seed, tier): fixed hash seed, no bytecode written into /repo
    if os.environ.get("PYTHONHASHSEED") != "0" or os.environ.get("PYTHONDONTWRITEBYTECODE") != "1":
        env = dict(os.environ, PYTHONHASHSEED="0", PYTHONDONTWRITEBYTECODE="1")
        os.execve(sys.executable, [sys.executable] + sys.argv, env)
    repo = os.environ.get("VERIF_REPO", "/repo")
    sys.path.insert(0, repo)
    sys.path.insert(0, HERE)
    deps = os.path.join(HERE, ".deps")
    if os.path.isdir(deps):
        sys.path.append(deps)


def main():
    ap = argparse.ArgumentParser()
    ap.add_argument("pid")
    ap.add_argument("--tier", default=os.environ.get("VERIF_TIER", "quick"), choices=["quick", "thorough"])
    ap.add_argument("--replay")
    ap.add_argument("--shard")
    ap.add_argument("--out")
    ap.add_argument("--shards", type=int, default=None)
    args = ap.parse_args()
    _env_setup()
    pid = args.pid.upper()
    seed = int(os.environ.get("VERIF_SEED", "1") or "1")

    import warnings

    warnings.filterwarnings("ignore")
    from importlib import import_module
    from vlib import core, jsonable

    try:
        mod = import_module(f"props.{pid.lower()}")
        import pynetdicom

        want = os.path.realpath(os.environ.get("VERIF_REPO", "/repo"))
        if not os.path.realpath(pynetdicom.__file__).startswith(want + os.sep):
            raise core.HarnessError(f"pynetdicom imported from {pynetdicom.__file__}, expected under {want}")
    except Exception:
        traceback.print_exc()
        print(f"HARNESS-ERROR property={pid} import failed")
        return 2

    # ---------------------------------------------------------------- replay
    if args.replay:
        with open(args.replay) as f:
            body = json.load(f)
        ctx = core.Ctx(pid, args.tier, seed, replaying=True)
        ctx.known = {}  # a replay always reports
        try:
            ctx.call(body["check"], jsonable.from_plain(body["case"]))
        except Exception:
            traceback.print_exc()
            print(f"HARNESS-ERROR property={pid} replay raised")
            return 2
        if ctx.violations:
            for v in ctx.violations:
                print(f"REPRODUCED clause={v['clause']} key={v['key']}\n  {v['message']}")
            print(f"VIOLATION property={pid} replay={args.replay}")
            return 1
        print(f"replay of {args.replay}: no violation")
        return 0

    # ---------------------------------------------------------------- one shard (worker)
    if args.shard:
        k, n = (int(x) for x in args.shard.split("/"))
        ctx = core.Ctx(pid, args.tier, seed, shard=k, nshards=n)
        try:
            mod.run(ctx)
            if k == 0:
                ctx.replay_known_findings()
        except Exception:
            traceback.print_exc()
            return 2
        with open(args.out, "w") as f:
            json.dump(ctx.partial(), f)
        return 0

    # ---------------------------------------------------------------- parent
    t0 = time.time()
    nsh = args.shards
    if nsh is None:
        nsh = getattr(mod, "SHARDS", {}).get(args.tier, 1)
    parts = []
    if nsh <= 1:
        ctx = core.Ctx(pid, args.tier, seed)
        try:
            mod.run(ctx)
            ctx.replay_known_findings()
        except Exception:
            traceback.print_exc()
            print(f"HARNESS-ERROR property={pid}")
            return 2
        parts.append(ctx.partial())
    else:
        wd = os.path.join(HERE, ".work", pid, f"shards_p{os.getpid()}")
        os.makedirs(wd, exist_ok=True)
        procs = []
        for k in range(nsh):
            out = os.path.join(wd, f"{args.tier}_{seed}_{k}.json")
            if os.path.exists(out):
                os.remove(out)
            log = open(out + ".log", "w")
            p = subprocess.Popen(
                [sys.executable, os.path.join(HERE, "check.py"), pid, "--tier", args.tier, "--shard", f"{k}/{nsh}", "--out", out],
                stdout=log,
                stderr=subprocess.STDOUT,
                env=os.environ,
            )
            procs.append((p, out, log))
        bad = False
        for p, out, log in procs:
            rc = p.wait()
            log.close()
            if rc != 0 or not os.path.exists(out):
                bad = True
                sys.stdout.write(open(out + ".log").read()[-4000:])
            else:
                with open(out) as f:
                    parts.append(json.load(f))
        shutil.rmtree(wd, ignore_errors=True)
        if bad:
            print(f"HARNESS-ERROR property={pid} shard failed")
            return 2
    merged = core.merge_partials(parts)
    wall = time.time() - t0
    known = core.load_known(pid)
    ev = core.write_evidence(
        pid, args.tier, seed, getattr(mod, "LEVEL", "exploration"), mod.RULE, list(getattr(mod, "ASSUMPTIONS", [])), merged, wall, known
    )
    cov = ev["coverage"]
    print(
        f"{pid} tier={args.tier} seed={seed} evaluations={cov['evaluations']} distinct_nontrivial={cov['distinct_nontrivial']} "
        f"inconclusive={cov['inconclusive']} wall={wall:.1f}s"
    )
    top = sorted(cov["classes"].items(), key=lambda kv: -kv[1])[:14]
    print("  classes: " + ", ".join(f"{k}={v}" for k, v in top))
    for (c, k), (n, ex) in sorted(merged["known_seen"].items()):
        e = known.get((c, k), {})
        print(f"KNOWN-FINDING: property={pid} {e.get('what', c + ' ' + k)} [clause={c} key={k} seen={n}]")
    for nr in cov.get("known_findings_not_reproduced", []):
        print(f"NOTE: listed known finding did not reproduce from its stored input: {nr}")
    rc = 0
    for v in merged["violations"]:
        print(f"  violation clause={v['clause']} key={v['key']}: {v['message'][:600]}")
        print(f"VIOLATION property={pid} replay={v['replay']}")
        rc = 1
    if rc == 0:
        minimum = getattr(mod, "MIN_NONTRIVIAL", 2)
        if cov["distinct_nontrivial"] < minimum or not cov["samples"]:
            print(f"HARNESS-ERROR property={pid} vacuous run: distinct_nontrivial={cov['distinct_nontrivial']} < {minimum}")
            return 2
    return rc


if __name__ == "__main__":
    sys.exit(main())
