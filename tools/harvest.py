#!/venv/bin/python
"""harvest.py <ID> <check> [seed] : run the thorough tier in collect mode (known findings disabled) and attach a minimal-ish replay to
every listed known finding of <ID> that has none yet; print every collected signature that is NOT listed."""
import json, os, subprocess, sys
sys.path.insert(0, "/verif"); sys.path.insert(0, "/repo")
ID, check = sys.argv[1], sys.argv[2]
seed = sys.argv[3] if len(sys.argv) > 3 else "1"
kf = json.load(open("/verif/known_findings.json"))
mine = [e for e in kf["findings"] if e["property"] == ID and e["status"] == "known"]
# temporarily hide the known findings of this property so that they are collected
saved = json.dumps(kf)
kf2 = json.loads(saved); kf2["findings"] = [e for e in kf2["findings"] if not (e["property"] == ID and e["status"] == "known")]
json.dump(kf2, open("/verif/known_findings.json", "w"), indent=1)
try:
    subprocess.run(["/venv/bin/python", "check.py", ID, "--tier", "thorough"], cwd="/verif", env=dict(os.environ, VERIF_COLLECT="1", VERIF_SEED=seed), capture_output=True)
    col = json.load(open(f"/verif/evidence/{ID}.json"))["coverage"].get("collected", {})
finally:
    open("/verif/known_findings.json", "w").write(saved)
kf = json.loads(saved)
os.makedirs(f"/verif/findings/{ID}", exist_ok=True)
listed = {(e["clause"], e["key"]): e for e in kf["findings"] if e["property"] == ID and e["status"] == "known"}
for k, v in sorted(col.items(), key=lambda kv: -kv[1]["count"]):
    clause, key = k.split("|", 1)
    e = listed.get((clause, key))
    if e is None:
        print("NOT LISTED:", v["count"], k, "--", v["example"][:200])
        continue
    if not e.get("replay"):
        fn = f"findings/{ID}/{(clause + '_' + key).replace('/', '-').replace(':', '_').replace('=', '-').replace(' ', '_')[:80]}.json"
        body = {"property": ID, "check": v.get("check") or check, "clause": clause, "key": key, "message": v["example"], "case": v["case"]}
        json.dump(body, open("/verif/" + fn, "w"), indent=1)
        e["replay"] = fn
        print("attached replay:", k, v["count"])
    else:
        print("seen:", v["count"], k)
json.dump(kf, open("/verif/known_findings.json", "w"), indent=1)
