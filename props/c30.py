"""C30 - storage apps never write outside their storage directory (audit-hook sandbox + before/after snapshot)."""
import argparse
import datetime
import os
import tempfile
import types
import warnings
from io import BytesIO

from engines import fsaudit
from vlib.core import HarnessError

LEVEL = "exploration"
RULE = (
    "Hypothesis builds a SOP Instance UID and a SOP Class UID string for a C-STORE data set: plain UIDs, or hostile values "
    "made of path segments ('..', '.', names of directories that exist in the sandbox, empty segments) joined by '/', with "
    "relative, absolute-into-the-sandbox and '<storage dir>/..' prefixes, embedded/trailing NUL, 300-5000 character names, "
    "backslashes, spaces, non-ASCII digits. Each is delivered to apps/qrscp/handlers.handle_store and apps/common.py "
    "handle_store (storescp; also its Deflated branch) three ways: a stub event carrying an in-memory Dataset, a real "
    "events.Event decoding the wire-encoded data set, and (sampled) a thread-free Association serving a real C-STORE "
    "request. Every case runs in a fresh sandbox tree (<root>/a/b/c/store with decoy siblings, <root>/outer/victim, "
    "database file for qrscp; storage directory absolute, relative to the cwd, or not yet existing for storescp). Oracle: "
    "every path in a create/modify/rename/remove audit event (sys.addaudithook recorder) and every difference between the "
    "before and after snapshots of the sandbox resolves inside the storage directory or is the database file. "
    "Non-trivial = a hostile UID/class value (separator, '..', absolute, NUL, over-long, backslash) for which the handler "
    "ran; distinct = distinct case."
)
ASSUMPTIONS = [
    "sys.addaudithook reports every Python-level open()/os.*/shutil.* call of the handler thread; writes done by C code "
    "(SQLite) are seen through sqlite3.connect's database argument and through the before/after snapshot of the sandbox",
    "hostile values are restricted to targets inside the sandbox root (absolute paths only below it, at most as many '..' "
    "as the storage directory is deep): a value whose lexical target would leave the sandbox is skipped, not executed",
    "the storage directory holds no symbolic links; 'inside' is decided on os.path.realpath; an open-for-write ATTEMPT on a "
    "path that resolves outside counts even when the OS then refuses it (ENOENT for a missing intermediate directory, "
    "EISDIR): its safety would depend on what happens to exist in the directory",
    "storescp is configured with an output directory (with output_directory=None it writes to the current directory by design)",
    "an exception escaping a handler (e.g. qrscp: os.path.join on the MultiValue that 'a\\\\b' decodes to) is counted "
    "(class raised:*), not reported: C30 is about writes only",
    "qrscp's database file (and SQLite's -journal/-wal/-shm companions) may be written; the handlers' create_engine is "
    "wrapped (module attribute, from outside) only to dispose the engines after each case and to switch off fsync",
]
SHARDS = {"quick": 1, "thorough": 16}
MIN_NONTRIVIAL = 30

CT = "1.2.840.10008.5.1.4.1.1.2"
IMPLICIT = "1.2.840.10008.1.2"
DEFLATED = "1.2.840.10008.1.2.1.99"
DEPTH = ("a", "b", "c", "store")

_ENV = {}


class _Log:
    def __init__(self):
        self.exc = []

    def info(self, *a, **k):
        pass

    debug = warning = error = info

    def exception(self, exc, *a, **k):
        self.exc.append(exc)


def _env():
    if _ENV:
        return _ENV
    warnings.simplefilter("ignore")
    import sqlalchemy

    from pynetdicom.apps import common
    from pynetdicom.apps.qrscp import db, handlers

    engines = []
    real = sqlalchemy.create_engine

    def create_engine(*a, **k):
        e = real(*a, **k)
        # harness-only speed-up: no fsync per commit (does not change which files SQLite touches)
        sqlalchemy.event.listen(e, "connect", lambda conn, rec: conn.execute("PRAGMA synchronous=OFF"))
        engines.append(e)
        return e

    handlers.create_engine = create_engine
    db.create_engine = create_engine
    _ENV.update(common=common, db=db, handlers=handlers, engines=engines, rec=fsaudit.recorder())
    return _ENV


# ------------------------------------------------------------------------------------------ events
def _dataset(uid, cls):
    from pydicom.dataset import Dataset

    ds = Dataset()
    ds.SOPClassUID = cls
    ds.SOPInstanceUID = uid
    ds.PatientID = "p"
    ds.StudyInstanceUID = "1.1"
    ds.SeriesInstanceUID = "1.1.1"
    ds.Modality = "CT"
    return ds


def _stub_event(uid, cls, ts):
    """Looks like an events.Event as far as the two handlers read it."""
    from pydicom.dataset import FileMetaDataset
    from pydicom.uid import UID

    fm = FileMetaDataset()
    fm.FileMetaInformationVersion = b"\x00\x01"
    fm.MediaStorageSOPClassUID = UID(CT)
    fm.MediaStorageSOPInstanceUID = UID("1.2.3")
    fm.TransferSyntaxUID = UID(ts)
    fm.ImplementationClassUID = UID("1.2.3.4")
    return types.SimpleNamespace(
        dataset=_dataset(uid, cls),
        file_meta=fm,
        timestamp=datetime.datetime(2020, 1, 1, 0, 0, 0),
        assoc=types.SimpleNamespace(requestor=types.SimpleNamespace(address="127.0.0.1", port=11112), ae=types.SimpleNamespace(ae_title="X")),
        context=types.SimpleNamespace(transfer_syntax=UID(ts), abstract_syntax=UID(CT), context_id=1),
        request=types.SimpleNamespace(AffectedSOPClassUID=UID(CT), AffectedSOPInstanceUID=UID("1.2.3")),
        encoded_dataset=lambda include_meta=True: b"\x00" * 128 + b"DICM" + b"stub",
    )


def _request(uid, cls, ts):
    from pydicom.uid import UID

    from pynetdicom.dimse_primitives import C_STORE
    from pynetdicom.dsutils import encode

    deflated = ts == DEFLATED
    try:
        b = encode(_dataset(uid, cls), not deflated, True, deflated)
    except Exception:
        b = None
    if b is None:
        return None
    req = C_STORE()
    req.MessageID = 7
    req.AffectedSOPClassUID = UID(CT)
    req.AffectedSOPInstanceUID = UID("1.2.3")
    req.Priority = 2
    req.DataSet = BytesIO(b)
    return req


def _real_event(req, ts):
    from pydicom.uid import UID

    from pynetdicom import evt
    from pynetdicom.presentation import PresentationContextTuple

    assoc = types.SimpleNamespace(
        requestor=types.SimpleNamespace(address="127.0.0.1", port=11112), ae=types.SimpleNamespace(ae_title="X")
    )
    return evt.Event(assoc, evt.EVT_C_STORE, {"request": req, "context": PresentationContextTuple(1, UID(CT), UID(ts))})


# ------------------------------------------------------------------------------------------ the check
def _flags(v):
    f = []
    if "/" in v:
        f.append("sep")
    if ".." in v.replace("\\", "/").split("/"):
        f.append("dotdot")
    if v.startswith(("/", "<ROOT>", "<STORE>")):
        f.append("absolute")
    if "\x00" in v:
        f.append("nul")
    if len(v) > 200:
        f.append("long")
    if "\\" in v:
        f.append("backslash")
    if not f and not all(c in "0123456789." for c in v):
        f.append("non-uid-chars")
    return f


def _subst(v, root, store):
    return v.replace("<ROOT>", root).replace("<STORE>", store)


def _safe(v, store, root):
    """The lexical target of joining v onto the storage directory stays inside the sandbox root."""
    for cand in (v, v.replace("\x00", ""), v.split("\x00")[0]):
        t = os.path.normpath(os.path.join(store, cand))
        if not (t == root or t.startswith(root + os.sep)):
            return False
    return True


def check_store(ctx, case):
    env = _env()
    app, route = case["app"], case["route"]
    ts = DEFLATED if case.get("deflated") else IMPLICIT
    base = os.path.join(ctx.work, "sandbox")
    os.makedirs(base, exist_ok=True)
    hostile = sorted(set(_flags(case["uid"])) | {"cls-" + f for f in _flags(case["cls"])})
    classes = [f"app:{app}", f"route:{route}", f"storage:{case['storage']}"] + ["uid:" + f for f in _flags(case["uid"])] + ["cls:" + f for f in _flags(case["cls"])]
    if not hostile:
        classes.append("plain-uids")
    if case.get("deflated"):
        classes.append("deflated")

    with tempfile.TemporaryDirectory(dir=base) as root:
        root = os.path.realpath(root)
        store = os.path.join(root, *DEPTH)
        uid, cls = _subst(case["uid"], root, store), _subst(case["cls"], root, store)
        if not (_safe(uid, store, root) and _safe(cls, store, root)):
            ctx.note(case, nontrivial=False, classes=classes + ["skipped:target-outside-sandbox"])
            return
        # ---- sandbox tree
        os.makedirs(os.path.join(store, "sub"))
        for d in ("CT.sub", "UN.sub", "MR.sub"):  # so that '<prefix>.' + 'sub/../..' is a traversable path as well
            os.mkdir(os.path.join(store, d))
        for d in ("outer", os.path.join(*DEPTH[:-1], "sibling"), os.path.join(*DEPTH[:-1], "store-evil")):
            os.makedirs(os.path.join(root, d))
        for f in ("victim", os.path.join("outer", "victim"), os.path.join(*DEPTH[:-1], "victim")):
            with open(os.path.join(root, f), "w") as fh:
                fh.write("sentinel")
        if case.get("pre"):
            with open(os.path.join(store, "victim"), "w") as fh:
                fh.write("sentinel-inside")
        db_file = os.path.join(root, *DEPTH[:-1], "db.sqlite")
        rel = case["storage"] == "rel"
        store_arg = os.path.join(*DEPTH) if rel else store
        db_url = "sqlite:///" + (os.path.join(*DEPTH[:-1], "db.sqlite") if rel else db_file)
        if case["storage"] == "missing":
            for d in ("sub", "CT.sub", "UN.sub", "MR.sub"):
                os.rmdir(os.path.join(store, d))
            if case.get("pre"):
                os.remove(os.path.join(store, "victim"))
            os.rmdir(store)
        old_cwd = os.getcwd()
        os.chdir(root)
        log = _Log()
        outcome = None
        try:
            if app == "qrscp":
                env["db"].create(db_url)
                handler, hargs = env["handlers"].handle_store, [store_arg, db_url, None, log]
            else:
                handler, hargs = env["common"].handle_store, [argparse.Namespace(ignore=False, output_directory=store_arg), log]
            # ---- the event
            if route == "stub":
                call = lambda ev=_stub_event(uid, cls, ts): handler(ev, *hargs)  # noqa: E731
            else:
                req = _request(uid, cls, ts)
                if req is None:
                    ctx.note(case, nontrivial=False, classes=classes + ["skipped:unencodable"])
                    return
                if route == "event":
                    call = lambda ev=_real_event(req, ts): handler(ev, *hargs)  # noqa: E731
                else:
                    call = lambda: _serve(handler, hargs, req, ts)  # noqa: E731
            before = fsaudit.snapshot(root)
            with env["rec"].recording() as writes:
                try:
                    r = call()
                    st = getattr(r, "Status", r)
                    outcome = "status:0x%04X" % st if isinstance(st, int) else f"returned:{type(r).__name__}"
                except Exception as exc:
                    outcome = f"raised:{type(exc).__name__}"
            writes = list(writes)
        finally:
            os.chdir(old_cwd)
            for e in env["engines"]:
                e.dispose()
            del env["engines"][:]
        after = fsaudit.snapshot(root)

        # ---- oracle
        allowed_files = {db_file + s for s in ("", "-journal", "-wal", "-shm")} if app == "qrscp" else set()

        def ok(p):
            return fsaudit.inside(p, store) or os.path.realpath(p) in allowed_files

        bad_audit = [w for w in writes if w.path is not None and not ok(w.path)]
        flagged = {os.path.realpath(w.path) for w in bad_audit}
        changes = fsaudit.diff(before, after)
        bad_snap = [(p, what) for p, what in changes if not ok(os.path.join(root, p))]
        wrote_inside = any(fsaudit.inside(os.path.join(root, p), store) for p, _ in changes)
        classes.append(outcome)
        classes.append("escaped" if (bad_audit or bad_snap) else ("wrote-inside" if wrote_inside else "wrote-nothing"))
        if bad_snap:
            classes.append("escaped-effective(object outside created/changed)")
        if any(w.path is None for w in writes):
            classes.append("unresolvable-audit-event")
        ctx.note(case, nontrivial=bool(hostile), classes=classes)

        shown = {k: (v if len(v) < 120 else v[:60] + f"...<{len(v)} chars>") for k, v in (("uid", uid), ("cls", cls))}
        ctxt = f"{app}.handle_store via {route}, storage_dir={store_arg!r} (cwd={root}), SOPInstanceUID={shown['uid']!r}, SOPClassUID={shown['cls']!r}, {outcome}"
        seen = set()
        # the instance UID (as given, or as pydicom hands it over after stripping padding) joined unchanged onto the directory
        raw_join = {os.path.join(root, os.path.join(store_arg, u)) for u in (uid, uid.rstrip("\x00"), uid.rstrip("\x00 "), uid.strip("\x00 "))}
        for w in bad_audit:
            if w.event == "open":
                key = f"{app}.handle_store:path-escape" if w.path in raw_join else f"{app}.handle_store:path-escape-derived-name"
            else:
                key = f"{app}.handle_store:{w.event}-outside"
            if key in seen:
                continue
            seen.add(key)
            ctx.fail(
                "write-confined",
                key,
                f"{ctxt}: audit event {w.event} on {w.path!r} (resolves to {os.path.realpath(w.path)!r}) is outside the storage directory {store!r}; "
                f"sandbox changes: {changes}",
            )
        unaudited = [(p, what) for p, what in bad_snap if os.path.realpath(os.path.join(root, p)) not in flagged]
        if unaudited:
            ctx.fail(
                "write-confined",
                f"{app}.handle_store:unaudited-change-outside",
                f"{ctxt}: sandbox objects outside the storage directory changed without an audit event: {unaudited}",
            )


def _serve(handler, hargs, req, ts):
    """Sampled end-to-end path: a real acceptor Association (no threads) serves the C-STORE request."""
    from pynetdicom import evt
    from pynetdicom.transport import AddressInformation

    from engines import syncassoc as SA

    a = SA.mk("acceptor", [(CT, ts, False, True)])
    a.requestor.address_info = AddressInformation("127.0.0.1", 11112)
    a.bind(evt.EVT_C_STORE, handler, hargs)
    with SA.no_sleep():
        a._serve_request(req, 1)
    rsp = [p for k, p in SA.decode_sent(a) if k == "C_STORE"]
    if len(rsp) != 1:
        raise HarnessError(f"expected one C-STORE response, association sent {[type(p).__name__ for p in a.sent]}")
    return rsp[0].Status


CHECKS = {"store": check_store}


# ------------------------------------------------------------------------------------------ generation
def strategies():
    from hypothesis import strategies as st

    SEG = st.sampled_from(["..", "..", ".", "x", "1.2.3", "sub", "sibling", "outer", "victim", "store-evil", "store", "", "a b", "...", "~"])
    PREFIX = st.sampled_from(["", "", "", "../", "./", "/", "<ROOT>/", "<ROOT>/outer/", "<STORE>/", "<STORE>/../", "<STORE>/../../"])
    FIXED = [
        "../escaped",
        "<ROOT>/outer/victim",
        "../../../../outer/victim",
        "../../../../victim",
        "../victim",
        "sub/inside",
        "sub/../../sibling/x",
        "../store-evil/x",
        "../store/ok",
        "victim",
        "..",
        ".",
        "",
        "/",
        "a\\b",
        "..\\escaped",
        "١٢٣",
        "．．/x",
        "1.2.3\x00/../../escaped",
    ]
    PLAIN = st.builds(lambda a, b: f"1.2.840.{a}.{b}", st.integers(0, 99999), st.integers(0, 9))

    @st.composite
    def built(draw):
        segs = draw(st.lists(SEG, min_size=1, max_size=5))
        v = draw(PREFIX) + "/".join(segs)
        deco = draw(st.sampled_from(["none", "none", "none", "nul-mid", "nul-end", "long-seg", "long-tail", "very-long", "slash-end", "backslash", "space"]))
        if deco == "nul-mid" and v:
            i = draw(st.sampled_from(range(len(v))))
            v = v[:i] + "\x00" + v[i:]
        elif deco == "nul-end":
            v += "\x00"
        elif deco == "long-seg":
            v += "9" * 300
        elif deco == "long-tail":
            v += "/" + "x" * 300
        elif deco == "very-long":
            v = v + "/" + "/".join(["y" * 200] * 25)
        elif deco == "slash-end":
            v += "/"
        elif deco == "backslash":
            v = v.replace("/", "\\")
        elif deco == "space":
            v = " " + v
        return v

    HOSTILE = st.one_of(built(), built(), st.sampled_from(FIXED))
    CLS = st.one_of(st.sampled_from([CT, CT, "1.2.840.10008.5.1.4.1.1.4", "1.2.3.4"]), HOSTILE)

    @st.composite
    def case(draw):
        app = draw(st.sampled_from(["qrscp", "storescp"]))
        route = draw(st.sampled_from(["stub", "stub", "event", "event", "assoc"]))
        kind = draw(st.sampled_from(["uid", "uid", "uid", "uid", "both", "cls", "plain"]))
        uid = draw(HOSTILE) if kind in ("uid", "both") else draw(PLAIN)
        cls = draw(HOSTILE) if kind in ("cls", "both") else draw(st.sampled_from([CT, CT, "1.2.840.10008.5.1.4.1.1.4", "1.2.3.4"]))
        storage = draw(st.sampled_from(["abs", "abs", "rel"] + (["missing"] if app == "storescp" else [])))
        c = {"app": app, "route": route, "uid": uid, "cls": cls, "storage": storage, "pre": draw(st.booleans())}
        if app == "storescp":
            c["deflated"] = draw(st.sampled_from([False, False, True]))
        return c

    return types.SimpleNamespace(case=case)


def run(ctx):
    S = strategies()
    ctx.hyp("store", S.case(), 700 if ctx.quick else 1900, rounds=3, shrink_budget=8 if ctx.quick else 60)
