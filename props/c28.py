"""C28 - every 16-bit status code has exactly one category, all status tables agree with it, and the SCU / SCP
final-vs-continue decisions follow the category. Exhaustive over the 65536 codes.

One case = one status code (plus the depth at which it is examined):
  depth "fast": classification + every status table + the SCU response iterators (Association._wrap_find_responses /
                _wrap_get_move_responses, i.e. the generators send_c_find/get/move return) fed through the E3 harness;
  depth "full": additionally the public send_c_find / send_c_get / send_c_move calls and the SCP side
                (Association._serve_request with a scripted handler) for every SCP implementation x status table.
"""
from io import BytesIO

from refs import status_ref as SR
from vlib import sig
from vlib.core import HarnessError

LEVEL = "exploration"
RULE = (
    "Enumeration of all 65536 status codes. For each code: code_to_category is called (twice) and compared with an "
    "independent PS3.7 Annex C classification; every status table of pynetdicom.status that contains the code must give "
    "the same category; the C-FIND (Patient Root and Repository Query), C-GET and C-MOVE SCU iterators are fed "
    "[response(code), response(Success)] through the thread-free association harness and must yield one response and "
    "leave the second queued iff the code is not Pending (0xB001 under Repository Query excepted). Depth 'full' (quick: "
    "all codes of any table, class boundaries and a stride sample; thorough: all 65536) adds the public send_c_* calls "
    "and 8 SCP configurations (handler yields the code first, then Pending): nothing may be sent after a non-Pending "
    "response, and a Pending code of the service must be followed by further responses. Non-trivial = the code has a "
    "category other than Unknown, or is adjacent to a category boundary; distinct = distinct (code, depth)."
)
ASSUMPTIONS = [
    "status classes as transcribed in refs/status_ref.py from PS3.7 Annex C: Success 0000; Warning 0001/0107/0116/Bxxx; "
    "Failure Axxx/Cxxx and the assigned 01xx/02xx values; Cancel FE00; Pending FF00/FF01; all else Unknown",
    "for the unassigned 01xx/02xx values both 'Failure' (PS3.7 class) and 'Unknown' (documented 'not recognised') are accepted",
    "status tables = every module-level dict {int: (category, text)} of pynetdicom.status (found by introspection; the "
    "tables are the objects under test, not the oracle)",
    "final/continue is decided by Pending vs not-Pending only; Repository Query + 0xB001 continues (PS3.4 C.6.4.4, documented "
    "in send_c_find); Pending codes asserted to make an SCP continue: FF00 for every service, FF01 only for "
    "the Q/R and Modality Worklist C-FIND services (PS3.4 C.4.1.1.4, K.4.1.1.4); FF01 yielded by a handler of another "
    "service is counted, not judged",
    "SCU iterators are driven with response primitives placed directly on dimse.msg_queue (engines/syncassoc); the "
    "exhaustive SCU part calls the private generator functions that send_c_find/get/move return; the public calls are "
    "covered at depth 'full'",
    "SCP runs whose association was aborted by pynetdicom, or which sent no response at all, are counted, not judged here "
    "(missing final responses belong to C20)",
    "N-service SCU calls use the category only to decide whether to decode the reply dataset (not a final/continue "
    "decision): not examined; documentation tables in docs/service_classes/*.rst are not examined (they are not 'tables in "
    "pynetdicom' and contain category typos such as '0x0210 Success')",
]
SHARDS = {"quick": 1, "thorough": 16}
MIN_NONTRIVIAL = 1000

_FX = {}


# ----------------------------------------------------------------------------------------------- fixtures
def _tables():
    if "tables" not in _FX:
        import pynetdicom.status as S

        tabs = {}
        for name, val in vars(S).items():
            if name.startswith("_") or not isinstance(val, dict):
                continue
            if name.endswith("_STATUS") or (val and all(isinstance(k, int) for k in val)):
                tabs[name] = val
        missing = [n for n in getattr(S, "__all__", []) if n.endswith("_STATUS") and n.upper() == n and not n.startswith("STATUS_") and n not in tabs]
        if len(tabs) < 10 or missing:
            raise HarnessError(f"status tables not found by introspection: found {sorted(tabs)}, missing {missing}")
        _FX["tables"] = tabs
    return _FX["tables"]


def _ident():
    if "ident" not in _FX:
        from pydicom.dataset import Dataset

        from pynetdicom.dsutils import encode

        ds = Dataset()
        ds.PatientID = "1"
        ds.QueryRetrieveLevel = "PATIENT"
        inst = Dataset()
        inst.SOPClassUID = "1.2.840.10008.5.1.4.1.1.2"
        inst.SOPInstanceUID = "1.2.3.4"
        inst.PatientID = "1"
        from pydicom.dataset import FileMetaDataset

        inst.file_meta = FileMetaDataset()
        inst.file_meta.TransferSyntaxUID = IVR
        _FX["ident"] = (ds, encode(ds, True, True), inst)
    return _FX["ident"]


PF = "1.2.840.10008.5.1.4.1.2.1.1"  # Patient Root Q/R - FIND
PG = "1.2.840.10008.5.1.4.1.2.1.3"  # Patient Root Q/R - GET
PM = "1.2.840.10008.5.1.4.1.2.1.2"  # Patient Root Q/R - MOVE
REPO = "1.2.840.10008.5.1.4.1.1.201.6"  # Repository Query
MWL = "1.2.840.10008.5.1.4.31"  # Modality Worklist - FIND
SUBST = "1.2.840.10008.5.1.4.41"  # Product Characteristics Query
RELPAT = "1.2.840.10008.5.1.4.37.1"  # General Relevant Patient Information Query
UPSPULL = "1.2.840.10008.5.1.4.34.6.3"  # UPS Pull (C-FIND)
CT = "1.2.840.10008.5.1.4.1.1.2"
IVR = "1.2.840.10008.1.2"

# (label, SOP class, DIMSE service, SCP implementation label used in failure keys, Pending codes asserted to continue)
SCP_CONFIGS = [
    ("find-qr", PF, "find", "c-find-scp", SR.PENDING_FIND_QR),
    ("find-repository", REPO, "find", "c-find-scp", SR.PENDING_FIND_QR),
    ("find-worklist", MWL, "find", "c-find-scp", SR.PENDING_FIND_QR),
    ("find-substance", SUBST, "find", "c-find-scp", SR.PENDING_MIN),
    ("find-ups", UPSPULL, "find", "c-find-scp", SR.PENDING_MIN),
    ("find-relevant-patient", RELPAT, "find", "relevant-patient-scp", SR.PENDING_MIN),
    ("get-qr", PG, "get", "c-get-scp", SR.PENDING_MIN),
    ("move-qr", PM, "move", "c-move-scp", SR.PENDING_MIN),
]
SCU_CONFIGS = [("find-qr", PF, "find"), ("find-repository", REPO, "find"), ("get-qr", PG, "get"), ("move-qr", PM, "move")]


def _scu_assoc(fresh=False):
    if fresh or "scu" not in _FX:
        from engines import syncassoc as E

        cxs = [(uid, IVR, True, False) for _l, uid, _s in SCU_CONFIGS]
        a = E.mk("requestor", cxs)
        _FX["scu"] = a
        _FX["scu_cx"] = {uid: 2 * i + 1 for i, (_l, uid, _s) in enumerate(SCU_CONFIGS)}
    return _FX["scu"]


class _StoreAssoc:
    """What C-MOVE's SCP needs from the association it opens to the move destination."""

    is_established = True

    def __init__(self):
        self.stored = 0
        self.released = False

    def send_c_store(self, dataset, msg_id=1, originator_aet=None, originator_id=None, **kw):
        from pydicom.dataset import Dataset

        self.stored += 1
        ds = Dataset()
        ds.Status = 0x0000
        return ds

    def release(self):
        self.released = True


def _scp_assoc(fresh=False):
    if fresh or "scp" not in _FX:
        from pynetdicom import evt

        from engines import syncassoc as E

        cxs = [(uid, IVR, False, True) for _l, uid, _s, _i, _p in SCP_CONFIGS] + [(CT, IVR, True, False)]
        a = E.mk("acceptor", cxs)
        a._script = []
        a._resumed = 0

        def gen(event):
            for item in event.assoc._script:
                event.assoc._resumed += 1
                yield item

        for e in (evt.EVT_C_FIND, evt.EVT_C_GET, evt.EVT_C_MOVE):
            a.bind(e, gen)

        def responder(pr):
            from pynetdicom.dimse_primitives import C_STORE

            if isinstance(pr, C_STORE) and pr.MessageIDBeingRespondedTo is None:
                r = C_STORE()
                r.MessageIDBeingRespondedTo = pr.MessageID
                r.AffectedSOPClassUID = pr.AffectedSOPClassUID
                r.AffectedSOPInstanceUID = pr.AffectedSOPInstanceUID
                r.Status = 0x0000
                return [(pr._context_id, r)]
            return []

        E.PeerScript(a, responder)
        a.ae.associate = lambda *args, **kw: a._store_assoc
        _FX["scp"] = a
        _FX["scp_cx"] = {uid: 2 * i + 1 for i, (_l, uid, _s, _i, _p) in enumerate(SCP_CONFIGS)}
    return _FX["scp"]


def _drain(a):
    n = 0
    while not a.dimse.msg_queue.empty():
        a.dimse.msg_queue.get()
        n += 1
    return n


def _healthy(a):
    return a.is_established and not a.is_aborted and not a.is_released


# ----------------------------------------------------------------------------------------------- the check
def _rsp(service, uid, code):
    from pynetdicom.dimse_primitives import C_FIND, C_GET, C_MOVE

    cls = {"find": C_FIND, "get": C_GET, "move": C_MOVE}[service]
    r = cls()
    r.MessageIDBeingRespondedTo = 1
    r.AffectedSOPClassUID = uid
    r.Status = code
    if service == "find":
        r.Identifier = BytesIO(_ident()[1])
    return r


def _scu_part(ctx, code, public):
    """SCU: [response(code), response(Success)] -> which responses are surfaced, what stays queued."""
    from pydicom.uid import UID

    from engines import syncassoc as E
    from pynetdicom.pdu_primitives import A_ABORT, A_P_ABORT

    ds = _ident()[0]
    for label, uid, service in SCU_CONFIGS:
        a = _scu_assoc()
        if not _healthy(a):
            a = _scu_assoc(fresh=True)
        _drain(a)
        del a.sent[:]
        cx = _FX["scu_cx"][uid]
        a.dimse.msg_queue.put((cx, _rsp(service, uid, code)))
        a.dimse.msg_queue.put((cx, _rsp(service, uid, 0x0000)))
        how = "public" if public else "iterator"
        try:
            with E.no_sleep():
                if public:
                    if service == "find":
                        it = a.send_c_find(ds, uid)
                    elif service == "get":
                        it = a.send_c_get(ds, uid)
                    else:
                        it = a.send_c_move(ds, "DEST", uid)
                else:
                    if service == "find":
                        it = a._wrap_find_responses(UID(IVR), UID(uid))
                    else:
                        it = a._wrap_get_move_responses(UID(IVR))
                got = []
                for st, _ident_ds in it:
                    got.append(st.Status if "Status" in st else None)
                    if len(got) > 4:
                        break
        except Exception as e:
            ctx.fail("scu-exception", f"{service}:{sig.exc_key(e)}", f"SCU {how} {label} raised for status 0x{code:04X}\n{sig.exc_text(e)}")
            _scu_assoc(fresh=True)
            continue
        left = _drain(a)
        aborted = any(isinstance(p, (A_ABORT, A_P_ABORT)) for p in a.sent) or not _healthy(a)
        cont = SR.is_pending(code) or (uid == REPO and code == 0xB001)
        cat = "Pending" if SR.is_pending(code) else "/".join(sorted(SR.allowed(code)))
        desc = f"SCU {how} {label}: peer sent [0x{code:04X}, 0x0000]; surfaced {[None if g is None else hex(g) for g in got]}, left queued {left}, aborted={aborted}"
        if aborted:
            ctx.fail("scu-abort", f"{service}:{cat}", desc + " - a valid response made the SCU abort")
            _scu_assoc(fresh=True)
            continue
        if cont:
            if got != [code, 0x0000] or left != 0:
                ctx.fail("scu-continue", f"{service}:{cat}", desc + f" - a Pending response must not end the operation")
        else:
            if got != [code] or left != 1:
                ctx.fail("scu-final", f"{service}:{cat}", desc + f" - category {cat} is final: exactly that response is surfaced, the next message stays queued")


def _scp_part(ctx, code):
    """SCP: handler yields `code` first, then Pending; observe what is sent."""
    from engines import syncassoc as E
    from pynetdicom.dimse_primitives import C_FIND, C_GET, C_MOVE, C_STORE
    from pynetdicom.pdu_primitives import A_ABORT, A_P_ABORT

    qds, qbytes, inst = _ident()
    for label, uid, service, impl, pending_codes in SCP_CONFIGS:
        a = _scp_assoc()
        if not _healthy(a):
            a = _scp_assoc(fresh=True)
        _drain(a)
        del a.sent[:]
        a._store_assoc = _StoreAssoc()
        a._resumed = 0
        if service == "find":
            a._script = [(code, qds), (0xFF00, qds)]
            rq = C_FIND()
        elif service == "get":
            a._script = [2, (code, inst), (0xFF00, inst)]
            rq = C_GET()
        else:
            a._script = [("127.0.0.1", 11112), 2, (code, inst), (0xFF00, inst)]
            rq = C_MOVE()
            rq.MoveDestination = "DEST"
        rq.MessageID = 7
        rq.AffectedSOPClassUID = uid
        rq.Priority = 2
        rq.Identifier = BytesIO(qbytes)
        cx = _FX["scp_cx"][uid]
        try:
            with E.no_sleep():
                a._serve_request(rq, cx)
            msgs = E.decode_sent(a)
        except Exception as e:
            ctx.fail("scp-exception", f"{impl}:{sig.exc_key(e)}", f"SCP {label} raised for handler status 0x{code:04X}\n{sig.exc_text(e)}")
            _scp_assoc(fresh=True)
            continue
        _drain(a)
        if any(isinstance(p, (A_ABORT, A_P_ABORT)) for p in a.sent) or not _healthy(a):
            ctx.cls("scp-aborted:" + label)
            _scp_assoc(fresh=True)
            continue
        # DIMSE messages in the order sent: ('rsp', status) for responses to the request, ('store-rq', None) for sub-operations
        seq = []
        for kind, pr in msgs:
            if isinstance(pr, (C_FIND, C_GET, C_MOVE)) and pr.MessageIDBeingRespondedTo is not None:
                seq.append(("rsp", pr.Status))
            elif isinstance(pr, C_STORE):
                seq.append(("store-rq", None))
            else:
                seq.append((kind, None))
        seq_txt = [k if s is None else f"{k}:0x{s:04X}" for k, s in seq]
        rsps = [s for k, s in seq if k == "rsp"]
        if not rsps:
            ctx.cls("scp-no-response:" + label)
            continue
        if code == 0xFF00:
            # harness self-check: with a Pending code the scripted peer / move destination really performed the sub-operations
            if service == "get" and seq_txt != ["store-rq", "rsp:0xFF00", "store-rq", "rsp:0xFF00", "rsp:0x0000"] and not ctx.replaying:
                _FX.setdefault("selfcheck", []).append(f"get: {seq_txt}")
            if service == "move" and a._store_assoc.stored != 2 and not ctx.replaying:
                _FX.setdefault("selfcheck", []).append(f"move: {seq_txt} stored={a._store_assoc.stored}")
        desc = f"SCP {label} ({impl}): handler yielded 0x{code:04X} then 0xFF00; sent {seq_txt}, move sub-operations={a._store_assoc.stored}"
        # (1) nothing follows a non-Pending response
        for i, (k, s) in enumerate(seq):
            if k != "rsp" or s is None:
                continue
            cont_ok = SR.is_pending(s) or (uid == REPO and s == 0xB001)
            later = seq[i + 1 :]
            if not cont_ok and later:
                cat = "/".join(sorted(SR.allowed(s)))
                ctx.fail("scp-final", f"{impl}:{cat}", desc + f" - response 0x{s:04X} has category {cat} (final) but more was sent after it")
                break
        # (2) a Pending status of this service, sent as yielded, is not the end
        if SR.is_pending(code) and code not in pending_codes:
            ctx.cls("scp-pending-code-not-asserted:" + label)
        if code in pending_codes and rsps[0] == code and len(rsps) < 2:
            ctx.fail("scp-continue", f"{impl}:Pending", desc + " - a Pending response was treated as final")


def check_code(ctx, case):
    from pynetdicom.status import code_to_category

    code, depth = case["code"], case["depth"]
    allowed = SR.allowed(code)
    classes = ["depth:" + depth, "ref:" + "/".join(sorted(allowed))]
    # ---- total, single-valued, agrees with the independent classification
    try:
        c1 = code_to_category(code)
        c2 = code_to_category(code)
    except Exception as e:
        ctx.note(case, nontrivial=True, classes=classes)
        ctx.fail("total", f"raises:{sig.exc_key(e)}", f"code_to_category(0x{code:04X}) raised\n{sig.exc_text(e)}")
        return
    if c1 not in SR.CATEGORIES or not isinstance(c1, str):
        ctx.fail("total", "not-a-category", f"code_to_category(0x{code:04X}) = {c1!r} is not one of {SR.CATEGORIES}")
    if c1 != c2:
        ctx.fail("single-valued", "differs-between-calls", f"code_to_category(0x{code:04X}) returned {c1!r} then {c2!r}")
    if c1 in SR.CATEGORIES and c1 not in allowed:
        ctx.fail("category", f"ref={'/'.join(sorted(allowed))}:got={c1}", f"code_to_category(0x{code:04X}) = {c1!r}; PS3.7 Annex C class is {sorted(allowed)}")
    # ---- every table that lists the code agrees
    ntab = 0
    for name, tab in sorted(_tables().items()):
        if code not in tab:
            continue
        ntab += 1
        entry = tab[code]
        tcat = entry[0] if isinstance(entry, (tuple, list)) and entry else entry
        if tcat != c1:
            ctx.fail("table-agreement", f"{name}:table={tcat}:function={c1}", f"{name}[0x{code:04X}] says {tcat!r} but code_to_category says {c1!r}")
        if tcat not in allowed and tcat in SR.CATEGORIES:
            ctx.fail("table-category", f"{name}:ref={'/'.join(sorted(allowed))}:table={tcat}", f"{name}[0x{code:04X}] = {tcat!r}; PS3.7 Annex C class is {sorted(allowed)}")
    if ntab:
        classes.append("in-table")
    near_boundary = any(SR.allowed(c) != allowed for c in (code - 1, code + 1) if 0 <= c <= 0xFFFF)
    if near_boundary:
        classes.append("boundary")
    # ---- decisions
    _scu_part(ctx, code, public=False)
    if depth == "full":
        _scu_part(ctx, code, public=True)
        _scp_part(ctx, code)
    ctx.note(case, nontrivial=(allowed != frozenset([SR.UNKNOWN])) or near_boundary, classes=classes)


CHECKS = {"code": check_code}


def _interesting():
    """Codes examined at depth 'full' in the quick tier: class boundaries, and for every table the first, middle and last
    code of each run of consecutive codes with the same entry (so a 4096-code 'Cxxx' block costs 3 codes, an individually
    listed code costs 1), the assigned 01xx/02xx region and a stride sample of everything else."""
    codes = set(SR.BOUNDARIES)
    for tab in _tables().values():
        ks = sorted(c for c in tab if isinstance(c, int) and 0 <= c <= 0xFFFF)
        i = 0
        while i < len(ks):
            j = i
            while j + 1 < len(ks) and ks[j + 1] == ks[j] + 1 and tab[ks[j + 1]] == tab[ks[i]]:
                j += 1
            codes.update((ks[i], ks[(i + j) // 2], ks[j]))
            i = j + 1
    codes.update(range(0, 0x10000, 0x55))  # stride sample
    codes.update(range(0x0100, 0x0130))
    codes.update(range(0x0200, 0x0220))
    return codes


def run(ctx):
    tabs = _tables()
    ctx.extra["status_tables"] = sorted(tabs)
    # keys outside 0..0xFFFF or malformed entries are table defects of their own
    for name, tab in sorted(tabs.items()):
        for k, v in tab.items():
            if not (isinstance(k, int) and 0 <= k <= 0xFFFF) or not (isinstance(v, tuple) and len(v) == 2 and v[0] in SR.CATEGORIES[:5]):
                ctx._cur_check, ctx._cur_case = "code", {"code": k if isinstance(k, int) else -1, "depth": "fast"}
                ctx.fail("table-shape", f"{name}:malformed-entry", f"{name}[{k!r}] = {v!r} is not a 16-bit code mapped to (category, text)")
    full = _interesting() if ctx.quick else set(range(0x10000))
    mine = [c for c in range(0x10000) if c % ctx.nshards == ctx.shard]
    ctx.each("code", ({"code": c, "depth": "full" if c in full else "fast"} for c in mine))
    if _FX.get("selfcheck") and not ctx.violations:
        # only a harness problem when the tree otherwise behaves (a mutated SCP legitimately changes the sequence)
        raise HarnessError(f"scripted sub-operation peers did not behave as intended: {_FX['selfcheck']}")
    ctx.exhaustive = True
    ctx.extra["exhaustive_scope"] = (
        "all 65536 codes: classification, table agreement, SCU iterators; "
        + ("public SCU calls and SCP side: all 65536 codes" if not ctx.quick else f"public SCU calls and SCP side: {len(full)} selected codes (all 65536 in the thorough tier)")
    )
