#!/bin/bash
# usage: seed_confirm.sh <ID> : whole repository test suite on a scratch worktree of /repo HEAD with seeded/<ID>/patch.diff applied
ID=$1; WT=/var/tmp/seedconfirm_$ID
git -C /repo worktree add -q "$WT" HEAD || exit 2
trap 'git -C /repo worktree remove --force "$WT" >/dev/null 2>&1' EXIT
git -C "$WT" apply /verif/seeded/$ID/patch.diff || { echo "patch does not apply" > /verif/seeded/$ID/tests.txt; exit 3; }
MODE=core; grep -q "pynetdicom/apps/" /verif/seeded/$ID/patch.diff && MODE=all
{ echo "# repository suite (mode=$MODE; core = pynetdicom/tests, the load-sensitive apps tests are run only for changes under pynetdicom/apps) on /repo $(git -C /repo rev-parse --short HEAD) + seeded/$ID/patch.diff"; /verif/tools/repo_tests_all.sh "$WT" ${2:-6} $MODE; } > /verif/seeded/$ID/tests.txt 2>&1
tail -3 /verif/seeded/$ID/tests.txt
