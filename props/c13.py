"""C13 - associations are established only when the acceptance policy allows them (E4: raw requestor vs pynetdicom acceptor)."""
import dataclasses

from engines import dsched as S
from engines import ps38ref as R
from engines import scenario as SC
from refs import policy_ref
from vlib.core import HarnessError

LEVEL = "exploration"
RULE = (
    "Hypothesis draws FIRST the set of acceptance checks that shall fail (none, every singleton, every pair, all three of calling / called / "
    "identity; singletons most often) and then builds the configuration that realises exactly that set: the acceptor's own AE title (plain, "
    "with an embedded space, one character, 16 characters, padded), require_called_aet, the require_calling_aet list (padded entries, entries "
    "with embedded spaces, one entry a prefix of another, a one-character entry), the 16-byte calling and called fields of a raw A-ASSOCIATE-RQ "
    "and the user-identity item (types 1-5 or none) with the EVT_USER_ID handler (unbound / positive verdict / verdict False / falsy non-bool "
    "verdict None, 0, '' / raises ValueError, KeyError, Exception). A title that must pass is the exact title with generated leading/trailing "
    "padding; a title that must fail is a near miss whose KIND is drawn first: other case, embedded space added/removed/doubled, proper prefix, "
    "proper suffix, inner fragment, single character of the title, superstring (title + character, character + title, title twice), or "
    "unrelated; near misses are also sent when the check is disabled (then they must be accepted). The raw peer sends the request, reads the "
    "reply and then sends a C-ECHO request regardless. Oracle (independent policy model refs/policy_ref.py evaluated on the bytes actually "
    "sent; the generator's intended failing set is cross-checked against it, a disagreement is a harness error): A-ASSOCIATE-AC iff every "
    "enabled check passes; otherwise A-ASSOCIATE-RJ whose (result, source, reason) belongs to a check that failed; the C-ECHO handler never "
    "runs on a connection that was not accepted (and runs once on an accepted one). Violation keys are structural (failed checks, identity "
    "handler behaviour class, reply kind); the near-miss kind is in the message only. "
    "Non-trivial = an enabled title check sees a title that differs from an allowed one only by padding, case, an embedded space, or is a prefix / suffix / fragment / character / superstring of it."
)
ASSUMPTIONS = [
    "E4 substitution table; the acceptor is a real AssociationServer/Association/DUL stack, the requestor raw bytes from the E1 reference encoder",
    "AE titles compare case-sensitively and as whole strings with leading/trailing spaces ignored (PS3.8 Table 9-11 and the AE docs); only legal AE characters are generated",
    "the acceptor's own title is AE.ae_title (the server is started without an ae_title override)",
    "documented reject codes: calling (1,1,3), called (1,1,7), identity (2,2,1)",
]
SHARDS = {"quick": 1, "thorough": 16}
OWN = "ANY-SCP"
ALLOWED = ["ALPHA", "Beta Two", "GAMMA_LONG_TITLE"]
CODES = {(1, 1, 3): "calling", (1, 1, 7): "called", (2, 2, 1): "identity"}


def _field(s, lead):
    b = (" " * lead + s).encode("ascii")[:16]
    return b + b" " * (16 - len(b))


def check_policy(ctx, case):
    from pynetdicom import evt

    calling, called = bytes(case["calling"]), bytes(case["called"])
    req_calling = case["require_calling"]
    ident = case["identity"]
    handler = case["handler"]
    own = case.get("own", OWN)
    accept, allowed = policy_ref.decide(calling, called, own, req_calling, case["require_called"], ident, handler)
    which = "+".join(sorted(CODES[c] for c in allowed)) or "none"
    if "intent" in case and "+".join(sorted(case["intent"])) != (which if which != "none" else ""):
        raise HarnessError(f"generator meant the checks {case['intent']} to fail, the policy model says {which}: {case}")

    rq = dataclasses.replace(SC.RAW_RQ)
    ui = list(rq.user_info)
    if ident is not None:
        ui.append(R.UserIdRQ(ident["type"], ident["rsp"], bytes(ident["primary"]), bytes(ident["secondary"])))
    rq = R.AssocRQ("X", "Y", rq.app_context, rq.contexts, ui)
    b = bytearray(R.ref_encode(rq))
    b[10:26] = called
    b[26:42] = calling
    script = [["send", bytes(b)], ["recv_pdu", 4], ["send", SC.dimse_bytes("echo", 1)], ["recv_idle", 0.5], ["send", R.ref_encode(R.ReleaseRQ())], ["recv_until_close", 4], ["close"]]
    echo_calls = []
    extra = []

    def on_echo(event):
        echo_calls.append(1)
        return 0

    extra.append((evt.EVT_C_ECHO, on_echo))
    if handler is not None:
        def on_id(event):
            if handler.get("raises"):
                raise {"KeyError": KeyError, "Exception": Exception}.get(handler["raises"], ValueError)("identity backend down")
            return handler.get("verdict"), (b"token" if handler.get("response") else None)

        extra.append((evt.EVT_USER_ID, on_id))

    sc = {"timeouts": {"acse": 3, "dimse": 3, "network": 6}, "max_steps": 15000,
          "acceptor": {"kind": "pynetdicom", "title": own, "handlers": {}, "require_called": case["require_called"], "require_calling": req_calling, "extra_handlers": extra},
          "requestors": [{"kind": "raw", "script": script}], "schedule": case["schedule"]}
    out = SC.run(sc)
    peer = out["raw"][0]
    if peer.error:
        raise HarnessError(f"raw peer failed: {peer.error}")
    l1, l2 = case.get("near_called", case.get("near", "exact")), case.get("near_calling", "exact")
    near = f"called={l1},calling={l2}"
    hb = "unbound" if handler is None else ("raises" if handler.get("raises") else "positive" if handler.get("verdict") is True else "False" if handler.get("verdict") is False else "falsy-nonbool")
    ctx.note({k: v for k, v in case.items()}, nontrivial=(l1 in NEAR_LABELS and case["require_called"]) or (l2 in NEAR_LABELS and bool(req_calling)),
             classes=["accept" if accept else "reject", "fails:" + which, "called:" + l1, "calling:" + l2, "own:" + own,
                      "id:" + (str(ident["type"]) if ident else "none"), "handler:" + hb,
                      "calling-list" if req_calling else "no-calling-list", "called-check" if case["require_called"] else "no-called-check"])
    if out["how"] == "budget":
        ctx.inconclusive += 1
        return
    died = [t for t in out["report"]["threads"] if t["exc"] and not t["name"].startswith("raw-")]
    if died:
        ctx.fail("thread-exception", f"{died[0]['kind']}:{died[0]['exc'][2]}", f"{died[0]['name']} died: {died[0]['exc'][:2]}")
        return
    first = peer.received[0] if peer.received else None
    kind = {2: "AC", 3: "RJ", 7: "ABORT"}.get(first[0], "?") if first else "NONE"
    what = f"calling={calling!r} called={called!r} require_calling={req_calling} require_called={case['require_called']} identity={ident} handler={handler}"
    what += f" own={own!r} near-miss kinds: {near}"
    # structural keys: which checks failed / which one fired, and the identity handler's behaviour class when that check is involved
    idk = f":handler={hb}" if "identity" in which else ""
    if accept:
        if kind != "AC":
            code = (first[7], first[8], first[9]) if kind == "RJ" else ""
            ctx.fail("rejected-although-allowed", f"{kind}:{CODES.get(code, code)}", f"policy allows the association but the reply was {kind} {code}; {what}")
            return
        if len(echo_calls) != 1:
            ctx.fail("echo-handler-count", "accepted", f"C-ECHO handler ran {len(echo_calls)} times on an accepted association; {what}")
    else:
        if kind == "AC":
            ctx.fail("accepted-although-forbidden", f"failed:{which}{idk}", f"policy forbids the association ({which}) but it was accepted; {what}")
            return
        if kind != "RJ":
            ctx.fail("no-reject-pdu", f"failed:{which}{idk}:{kind}", f"expected A-ASSOCIATE-RJ, got {kind}; {what}")
            return
        code = (first[7], first[8], first[9])
        if code not in allowed:
            ctx.fail("reject-code", f"failed:{which}:got={code}", f"A-ASSOCIATE-RJ {code} does not belong to a failed check {sorted(allowed)}; {what}")
        if echo_calls:
            ctx.fail("handler-on-rejected-connection", f"failed:{which}", f"C-ECHO handler ran {len(echo_calls)} times although the association was rejected; {what}")


CHECKS = {"policy": check_policy}


NEAR_LABELS = ("padding", "case", "embedded-space", "prefix", "suffix", "fragment", "char", "superstring")
OWN_TITLES = [OWN, OWN, "ARCHIVE-SCP 01", "ARCHIVE-SCP 01", "A", "SIXTEEN_CHARS_OK", "  PAD SCP ", "Store_Scp"]
CALLING_LISTS = [ALLOWED, [" " + ALLOWED[0] + "  ", ALLOWED[1]], [ALLOWED[2]], ["STORE SCU 1", "ALPHA"], ["ALPHA", "ALPHABET"], ["Q"], ["  PAD SCU "]]
FAIL_SETS = [[], [], [], [], ["calling"], ["calling"], ["called"], ["called"], ["called"], ["identity"], ["identity"], ["identity"],
             ["calling", "called"], ["calling", "identity"], ["called", "identity"], ["calling", "called", "identity"]]
FAILING_HANDLERS = [{"raises": True}, {"raises": True}, {"raises": "KeyError"}, {"raises": "Exception"}, {"verdict": False}, {"verdict": False}, {"verdict": None}, {"verdict": 0}, {"verdict": ""}]
PASSING_HANDLERS = [{"verdict": True}, {"verdict": True, "response": True}]


def near_misses(base, taken=()):
    """[(string, label)]: legal 1..16-character titles that do NOT match `base` (nor any of `taken`) once leading/trailing spaces
    are ignored, each a specific kind of near miss: different case, embedded space added/removed, proper prefix / suffix / inner
    fragment / single character of the title, a superstring of it, or unrelated ('other')."""
    b = base.strip(" ")
    n = len(b)
    out = [(b.lower(), "case"), (b.upper(), "case"), (b.swapcase(), "case"), (b[:1] + b[1:].lower(), "case")]
    out += [(b.replace("-", " "), "embedded-space"), (b.replace("_", " "), "embedded-space"), (b[:1] + " " + b[1:], "embedded-space"),
            (b[: n // 2] + " " + b[n // 2 :], "embedded-space"), (b.replace(" ", ""), "embedded-space"), (b.replace(" ", "_"), "embedded-space"), (b.replace(" ", "  "), "embedded-space")]
    for k in sorted({1, 2, n // 2, n - 2, n - 1} | {i for i, c in enumerate(b) if c in " -_"} | {i + 1 for i, c in enumerate(b) if c in " -_"}):
        if 0 < k < n:
            out += [(b[:k], "prefix" if k > 1 else "char"), (b[k:], "suffix" if n - k > 1 else "char")]
    for i, j in ((1, n - 1), (1, 2), (n // 2, n // 2 + 1), (2, n - 2), (n // 3, 2 * n // 3 + 1)):
        if 0 < i < j < n:
            out.append((b[i:j], "fragment" if j - i > 1 else "char"))
    out += [(b + "X", "superstring"), ("X" + b, "superstring"), (b + " X", "superstring"), (b + b[:1], "superstring"), (b + b, "superstring"), (b + "1", "superstring"), (b[-1:] + b, "superstring")]
    out += [("INTRUDER", "other"), ("OTHER-SCP", "other"), ("ZZ", "other")]
    bad = {b} | {t.strip(" ") for t in taken}
    seen, res = set(), []
    for t, label in out:
        if not (1 <= len(t) <= 16) or not t.strip(" ") or t.strip(" ") in bad or t in seen:
            continue
        seen.add(t)
        res.append((t, label))
    return res


def strategy(ctx):
    from hypothesis import strategies as st

    @st.composite
    def padded(draw, s, label):
        """the 16-byte field of title `s` with generated leading padding (trailing padding fills the field)"""
        s = s.strip(" ") if draw(st.booleans()) else s[:16]
        lead = draw(st.sampled_from([0, 0, 1, 3, 16 - len(s)]))
        lead = max(0, min(lead, 16 - len(s)))
        if label == "exact" and (lead or s != s.strip(" ")):
            label = "padding"
        return _field(s, lead), label

    @st.composite
    def miss(draw, base, taken=()):
        cands = near_misses(base, taken)
        label = draw(st.sampled_from(sorted({l for _, l in cands})))  # kind first: every kind of near miss gets the same share
        t = draw(st.sampled_from([t for t, l in cands if l == label]))
        return draw(padded(t, label))

    @st.composite
    def case(draw):
        # which checks fail is drawn FIRST (every singleton and pair is frequent), then titles / identity / handler are built to realise it
        intent = draw(st.sampled_from(FAIL_SETS))
        own = draw(st.sampled_from(OWN_TITLES))
        # ---- called AE title
        if "called" in intent:
            require_called = True
            called, l1 = draw(miss(own))
        else:
            require_called = draw(st.booleans())
            if require_called or draw(st.booleans()):
                called, l1 = draw(padded(own, "exact"))
            else:
                called, l1 = draw(miss(own))
        # ---- calling AE title
        if "calling" in intent:
            req = draw(st.sampled_from(CALLING_LISTS))
            calling, l2 = draw(miss(draw(st.sampled_from(req)), req))
        else:
            req = draw(st.sampled_from([[]] + CALLING_LISTS))
            if req:
                calling, l2 = draw(padded(draw(st.sampled_from(req)), "exact"))
            else:
                ref = draw(st.sampled_from(CALLING_LISTS))
                calling, l2 = draw(st.one_of(padded(ref[0], "exact"), miss(ref[0], ref)))
        # ---- user identity
        def identity():
            t = draw(st.integers(1, 5))
            return {"type": t, "rsp": draw(st.integers(0, 1)), "primary": draw(st.one_of(st.binary(min_size=1, max_size=12), st.binary(min_size=1, max_size=12), st.just(b""))), "secondary": draw(st.binary(min_size=1 if t == 2 else 0, max_size=8))}

        if "identity" in intent:
            ident, handler = identity(), draw(st.sampled_from(FAILING_HANDLERS))
        else:
            k = draw(st.sampled_from(["no-identity", "no-identity", "unbound", "positive", "positive"]))
            if k == "no-identity":
                ident, handler = None, draw(st.sampled_from([None] + PASSING_HANDLERS + FAILING_HANDLERS[:5]))  # the handler is not consulted
            elif k == "unbound":
                ident, handler = identity(), None
            else:
                ident, handler = identity(), draw(st.sampled_from(PASSING_HANDLERS))
        return {"own": own, "calling": calling, "called": called, "require_calling": list(req), "require_called": require_called, "identity": ident, "handler": handler,
                "near_called": l1, "near_calling": l2, "intent": sorted(intent),
                "schedule": {"policy": draw(st.sampled_from(["fifo", "random"])), "seed": draw(st.integers(0, 9999)), "preemptions": [], "nudges": []}}

    return case()


def run(ctx):
    ctx.hyp("policy", strategy(ctx), 300 if ctx.quick else 2000)
