#!/bin/bash
export VERIF_EVIDENCE_DIR=${VERIF_EVIDENCE_DIR:-/var/tmp/evidence_scratch}  # exploratory run: do not touch /verif/evidence
# usage: run_mutants_par.sh [parallelism] : every mutants/*.patch against the quick check of its property (VERIF_REPO=<scratch worktree of /repo HEAD>),
# P at a time (work directories are per process); rewrites mutants/RESULTS.md
cd /verif; P=${1:-6}; OUT=$(mktemp -d /var/tmp/mutpar.XXXXXX)
one() {
  p=$1; id=$(basename $p | cut -d- -f1); WT=$(mktemp -d /var/tmp/mutwt.XXXXXX); rmdir $WT
  git -C /repo worktree add -q $WT HEAD || exit 2
  if git -C $WT apply /verif/$p 2>/dev/null || git -C $WT apply -p0 /verif/$p 2>/dev/null || (cd $WT && patch -p1 -s --fuzz=3 < /verif/$p >/dev/null 2>&1) || (cd $WT && git checkout -q . && patch -p0 -s --fuzz=3 < /verif/$p >/dev/null 2>&1); then
    out=$(cd /verif && VERIF_REPO=$WT timeout 1800 /venv/bin/python check.py $id 2>&1); rc=$?
    first=$(echo "$out" | grep -m1 "violation clause" | cut -c1-120)
    echo "$(basename $p) | rc=$rc | $([ $rc -eq 1 ] && echo caught || echo MISSED) | $first" > $OUT/$(basename $p).res
  else
    echo "$(basename $p) | - | does not apply to HEAD (code changed by a later fix) |" > $OUT/$(basename $p).res
  fi
  git -C /repo worktree remove --force $WT
}
export -f one; export OUT
ls mutants/*.patch | xargs -P $P -I{} bash -c 'one {}'
cat $OUT/*.res | sort > /var/tmp/mutants_results.txt
{ echo "# Mutant run ($(date -u +%F)) against /repo HEAD $(git -C /repo rev-parse --short HEAD): quick check of the property, VERIF_REPO=<scratch worktree>"; echo; echo "| mutant | exit | verdict | first violation |"; echo "|---|---|---|---|"; sed 's/^/| /; s/$/ |/' /var/tmp/mutants_results.txt; echo; echo "mutants/obsolete/ holds patches that stopped applying or became equivalent after a repository fix (see LEAD_MUTANTS.md)."; } > mutants/RESULTS.md
rm -rf $OUT; grep -c caught /var/tmp/mutants_results.txt; grep -v "caught" /var/tmp/mutants_results.txt
