"""Runner core: context, signatures, known findings, evidence, replay files, Hypothesis driver.

A property module (props/cXX.py) exposes

    CHECKS = {"name": fn}          fn(ctx, case) -> None; reports through ctx.note()/ctx.fail()
    def run(ctx): ...              generates cases (ctx.hyp / ctx.each) for the current tier/shard
    RULE = "..."                   how cases are generated and what makes one non-trivial
    ASSUMPTIONS = [...]
    LEVEL = "exploration"

Every case handed to a check function is plain data (see vlib.jsonable) so that the shrunk failing case
can be written to a replay file and re-executed by `check.py <ID> --replay <file>` without Hypothesis.
"""
from __future__ import annotations

import hashlib
import json
import atexit
import os
import shutil
import sys
import time
import traceback
from collections import Counter

from . import jsonable

VERIF = os.path.dirname(os.path.dirname(os.path.abspath(__file__)))
KNOWN_FILE = os.path.join(VERIF, "known_findings.json")


class PropFail(Exception):
    """Raised inside a Hypothesis test body to make Hypothesis shrink the case."""


class HarnessError(Exception):
    """The harness itself is broken (exit 2, never a VIOLATION)."""


class Failure:
    __slots__ = ("check", "clause", "key", "msg", "case")

    def __init__(self, check, clause, key, msg, case):
        self.check, self.clause, self.key, self.msg, self.case = check, clause, key, msg, case

    @property
    def sig(self):
        return (self.clause, self.key)


def load_known(pid):
    """-> {(clause, key): entry} for status == 'known'; fixed entries suppress nothing."""
    try:
        with open(KNOWN_FILE) as f:
            data = json.load(f)
    except FileNotFoundError:
        return {}
    out = {}
    for e in data.get("findings", []):
        if e.get("property") == pid and e.get("status") == "known":
            out[(e["clause"], e["key"])] = e
    return out


class Ctx:
    MAX_SAMPLES = 6

    def __init__(self, pid, tier="quick", seed=1, shard=0, nshards=1, replaying=False):
        self.pid, self.tier, self.seed, self.shard, self.nshards = pid, tier, seed, shard, nshards
        self.replaying = replaying
        self.quick = tier == "quick"
        self.evaluations = 0
        self.nontrivial = set()
        self.distinct = set()
        self.classes = Counter()
        self.samples = []
        self._sample_classes = set()
        self.known = load_known(pid)
        self.known_seen = Counter()
        self.known_example = {}
        self.excluded = Counter()
        self.inconclusive = 0
        self.violations = []  # list of dict(sig, msg, replay)
        self._reported = set()
        self._target = None
        self._best = None
        self._cur_check = None
        self.extra = {}
        self.t0 = time.time()
        self.exhaustive = False
        # private to this process: two runs of the same check (other seed, other tree, other tier) may proceed side by side
        self.work = os.path.join(VERIF, ".work", pid, f"s{seed}_{shard}_p{os.getpid()}")
        atexit.register(shutil.rmtree, self.work, True)

    # ------------------------------------------------------------------ recording
    def note(self, case=None, nontrivial=False, classes=(), sample=None, key=None):
        """Count one evaluated case. `key` (or the case itself) is hashed for distinctness."""
        self.evaluations += 1
        if key is None:
            key = case
        h = hashlib.blake2b(jsonable.dumps(key).encode(), digest_size=8).hexdigest()
        self.distinct.add(h)
        if nontrivial:
            self.nontrivial.add(h)
        if isinstance(classes, str):
            classes = (classes,)
        for c in classes:
            self.classes[c] += 1
        if sample is None:
            sample = case
        if sample is not None:
            ck = tuple(sorted(classes)) + (bool(nontrivial),)
            if len(self.samples) < self.MAX_SAMPLES and (ck not in self._sample_classes or len(self.samples) < 3):
                if nontrivial or len(self.samples) < 2:
                    self._sample_classes.add(ck)
                    s = jsonable.to_plain(sample)
                    txt = json.dumps(s)
                    if len(txt) > 1500:
                        s = {"truncated": txt[:1500]}
                    self.samples.append(s)

    def cls(self, *classes):
        for c in classes:
            self.classes[c] += 1

    def exclude(self, what):
        """A case (or part of the generator's domain) skipped because of a listed known finding."""
        self.excluded[what] += 1

    def is_known(self, clause, key):
        return (clause, key) in self.known

    def fail(self, clause, key, msg, case=None):
        """Report an oracle failure for the current case.

        Known signature -> counted. Otherwise: under Hypothesis, raises PropFail so the case is shrunk
        (only for the signature being shrunk); outside Hypothesis, recorded directly."""
        sig = (clause, key)
        if sig in self.known:
            self.known_seen[sig] += 1
            self.known_example.setdefault(sig, msg)
            return
        if os.environ.get("VERIF_COLLECT"):
            # triage mode: enumerate every reachable signature instead of stopping at the first
            c = self.extra.setdefault("collected", {})
            k = f"{clause}|{key}"
            if k not in c:
                c[k] = {"count": 0, "example": msg[:600], "check": self._cur_check, "case": jsonable.to_plain(case if case is not None else self._cur_case)}
            c[k]["count"] += 1
            return
        if sig in self._reported:
            return
        f = Failure(self._cur_check, clause, key, msg, case if case is not None else self._cur_case)
        if self._in_hyp:
            if self._target is None:
                self._target = sig
                self._shrink_t0 = time.time()
            if sig != self._target:
                return
            size = len(jsonable.dumps(f.case))
            if self._best is None or size <= self._best[0]:
                self._best = (size, f)
            if self._shrink_budget is not None and time.time() - self._shrink_t0 > self._shrink_budget:
                return  # stop feeding the shrinker; the smallest case seen so far is kept
            raise PropFail(f"{clause}|{key}: {msg}")
        self._record(f)

    _in_hyp = False
    _cur_case = None
    _shrink_budget = None
    _shrink_t0 = 0.0

    def _record(self, f):
        if f.sig in self._reported:
            return
        self._reported.add(f.sig)
        body = {
            "property": self.pid,
            "check": f.check,
            "clause": f.clause,
            "key": f.key,
            "message": f.msg,
            "seed": self.seed,
            "tier": self.tier,
            "case": jsonable.to_plain(f.case),
        }
        txt = json.dumps(body, indent=1, sort_keys=True)
        sha = hashlib.sha1(json.dumps([f.check, f.clause, f.key, body["case"]], sort_keys=True).encode()).hexdigest()[:12]
        path = None
        if not self.replaying:
            d = os.path.join(VERIF, "replays", self.pid)
            os.makedirs(d, exist_ok=True)
            path = os.path.join(d, f"{sha}.json")
            with open(path, "w") as fh:
                fh.write(txt + "\n")
        self.violations.append({"clause": f.clause, "key": f.key, "message": f.msg[:2000], "replay": path, "check": f.check})

    # ------------------------------------------------------------------ drivers
    def call(self, name, case):
        """Run one check function on one plain-data case (used by enumerations and replay)."""
        from importlib import import_module

        mod = import_module(f"props.{self.pid.lower()}")
        fn = mod.CHECKS[name]
        self._cur_check, self._cur_case = name, case
        fn(self, case)

    def each(self, name, cases):
        """Exhaustive / enumerated driver: no shrinking, every failure signature recorded once."""
        for case in cases:
            self.call(name, case)

    def hyp(self, name, strategy, n, rounds=3, shrink_budget=None):
        """Hypothesis driver with collect-then-shrink: finds an unknown failure signature, shrinks that
        signature only, records it, then searches again behind it (up to `rounds` signatures)."""
        import hypothesis
        from hypothesis import HealthCheck, Phase, given, settings
        from importlib import import_module

        mod = import_module(f"props.{self.pid.lower()}")
        fn = mod.CHECKS[name]
        if shrink_budget is None:
            shrink_budget = 20.0 if self.quick else 120.0
        for rnd in range(rounds):
            self._target, self._best = None, None
            self._shrink_budget = shrink_budget
            sd = (self.seed * 1000003 + self.shard * 7919 + rnd * 104729 + _stable(name)) & 0x7FFFFFFF

            @hypothesis.seed(sd)
            @settings(
                max_examples=n if rnd == 0 else max(n // 3, 20),
                database=None,
                deadline=None,
                report_multiple_bugs=False,
                suppress_health_check=list(HealthCheck),
                phases=(Phase.generate, Phase.shrink),
                derandomize=False,
            )
            @given(strategy)
            def t(case):
                self._cur_check, self._cur_case = name, case
                fn(self, case)

            self._in_hyp = True
            try:
                t()
            except PropFail:
                pass
            except Exception as e:  # Flaky*/anything else raised by Hypothesis around our own PropFail
                if self._best is None:
                    raise
                self.extra.setdefault("hypothesis_notes", []).append(f"{name}: {type(e).__name__} while shrinking")
            finally:
                self._in_hyp = False
            if self._best is None:
                return
            self._record(self._best[1])
        return

    def replay_known_findings(self):
        """Re-execute the stored minimal input of every listed known finding of this property, so that each one is
        reproduced (and printed as KNOWN-FINDING) at every seed, and a finding that no longer reproduces is visible."""
        for (clause, key), e in sorted(self.known.items()):
            rp = e.get("replay")
            if not rp:
                continue
            path = os.path.join(VERIF, rp)
            try:
                with open(path) as f:
                    body = json.load(f)
            except FileNotFoundError:
                raise HarnessError(f"known finding {clause}|{key}: replay file {rp} missing")
            before = self.known_seen[(clause, key)]
            self.call(body["check"], jsonable.from_plain(body["case"]))
            if self.known_seen[(clause, key)] == before:
                self.extra.setdefault("known_findings_not_reproduced", []).append(f"{clause}|{key}")

    def collect(self, name, strategy, k):
        """k seeded examples of a strategy (payloads for enumerated case spaces)."""
        import hypothesis
        from hypothesis import HealthCheck, Phase, given, settings

        out = []
        sd = (self.seed * 1000003 + self.shard * 7919 + _stable("collect:" + name)) & 0x7FFFFFFF

        @hypothesis.seed(sd)
        @settings(max_examples=k, database=None, deadline=None, suppress_health_check=list(HealthCheck), phases=(Phase.generate,))
        @given(strategy)
        def t(x):
            out.append(x)

        t()
        return out

    # ------------------------------------------------------------------ output
    def partial(self):
        return {
            "evaluations": self.evaluations,
            "nontrivial": sorted(self.nontrivial),
            "distinct": len(self.distinct),
            "classes": dict(self.classes),
            "samples": self.samples,
            "known_seen": [[c, k, n, self.known_example.get((c, k), "")] for (c, k), n in self.known_seen.items()],
            "excluded": dict(self.excluded),
            "inconclusive": self.inconclusive,
            "violations": self.violations,
            "extra": self.extra,
            "exhaustive": self.exhaustive,
        }


def _stable(s):
    return int(hashlib.sha1(s.encode()).hexdigest()[:6], 16)


def merge_partials(parts):
    out = {
        "evaluations": 0,
        "nontrivial": set(),
        "distinct": 0,
        "classes": Counter(),
        "samples": [],
        "known_seen": {},
        "excluded": Counter(),
        "inconclusive": 0,
        "violations": [],
        "extra": {},
        "exhaustive": all(p.get("exhaustive") for p in parts) if parts else False,
    }
    seen_v = set()
    for p in parts:
        out["evaluations"] += p["evaluations"]
        out["nontrivial"].update(p["nontrivial"])
        out["distinct"] += p["distinct"]
        out["classes"].update(p["classes"])
        for s in p["samples"]:
            if len(out["samples"]) < 8:
                out["samples"].append(s)
        for c, k, n, ex in p["known_seen"]:
            cur = out["known_seen"].get((c, k), [0, ex])
            cur[0] += n
            out["known_seen"][(c, k)] = cur
        out["excluded"].update(p["excluded"])
        out["inconclusive"] += p["inconclusive"]
        for v in p["violations"]:
            if (v["clause"], v["key"]) not in seen_v:
                seen_v.add((v["clause"], v["key"]))
                out["violations"].append(v)
        for k, v in p.get("extra", {}).items():
            out["extra"].setdefault(k, v)
    return out


def write_evidence(pid, tier, seed, level, rule, assumptions, merged, wall, known):
    cov = {
        "evaluations": merged["evaluations"],
        "distinct_nontrivial": len(merged["nontrivial"]),
        "distinct_cases": merged["distinct"],
        "rule": rule,
        "samples": merged["samples"],
        "classes": dict(sorted(merged["classes"].items())),
        "known_findings_seen": [
            {"clause": c, "key": k, "count": n, "example": ex[:300]} for (c, k), (n, ex) in sorted(merged["known_seen"].items())
        ],
        "excluded_by_known_findings": dict(merged["excluded"]),
        "inconclusive": merged["inconclusive"],
        "violation_signatures": [{"clause": v["clause"], "key": v["key"], "replay": v["replay"]} for v in merged["violations"]],
    }
    if merged.get("exhaustive"):
        cov["exhaustive"] = True
    cov.update(merged.get("extra", {}))
    ev = {
        "property_id": pid,
        "tier": tier,
        "seed": seed,
        "level": level,
        "coverage": cov,
        "assumptions": assumptions,
        "wall_s": round(wall, 2),
        "violations": len(merged["violations"]),
    }
    # exploratory runs (other seeds, mutated trees under VERIF_REPO) set VERIF_EVIDENCE_DIR so that evidence/ keeps what the registered
    # commands wrote against /repo
    d = os.environ.get("VERIF_EVIDENCE_DIR") or os.path.join(VERIF, "evidence")
    os.makedirs(d, exist_ok=True)
    path = os.path.join(d, f"{pid}.json")
    tmp = path + f".tmp{os.getpid()}"
    with open(tmp, "w") as f:
        json.dump(ev, f, indent=1, sort_keys=True)
        f.write("\n")
    os.replace(tmp, path)
    return ev
