"""C01 - every PDU value survives encode/decode and matches the PS3.8 byte layout (engine E1)."""
import dataclasses

from engines import ps38ref as R
from vlib import sig
from vlib.core import HarnessError

LEVEL = "exploration"
RULE = (
    "Hypothesis builds abstract values of the 7 PDU kinds (all 15 item/sub-item kinds, 0..N contexts, 0..5 transfer "
    "syntaxes, any multiset of user-information sub-items, user-identity fields 0..300 bytes, 0..6 PDVs of 1..2000 bytes). "
    "Each is (A) converted primitive->PDU->bytes and compared byte-for-byte with an independent PS3.8 reference encoder, "
    "(B) decoded from the reference bytes and compared field-by-field, re-encoded, and converted back to a primitive. "
    "Non-trivial = has >=1 optional item/sub-item, >=2 PDVs, or a boundary length (AE title 1/16, UID 1/64, empty field); "
    "distinct = distinct value."
)
ASSUMPTIONS = [
    "the reference encoder/parser in engines/ps38ref.py is a correct transcription of PS3.8 Tables 9-11..9-26 and PS3.7 D.3",
    "item order inside the user-information item is taken from the value (PS3.8 fixes none)",
    "A-ASSOCIATE-AC presentation context items carry exactly one transfer syntax sub-item (Table 9-18); RQ items 0..5",
    "values the public primitive setters reject (e.g. user identity type 2 without a secondary field) are counted as "
    "api-rejected for route A; route B (decode of the reference bytes) still runs for them",
]
SHARDS = {"quick": 1, "thorough": 16}


def canonical(v):
    if isinstance(v, R.AssocRQ):
        return dataclasses.replace(v, lead_called=0, lead_calling=0)
    return v


def _nontrivial(v):
    if isinstance(v, (R.AssocRQ, R.AssocAC)):
        opt = [i for i in v.user_info if not isinstance(i, (R.MaxLength, R.ImplClassUID))]
        if opt:
            return True
        if len(v.called) in (1, 16) or len(v.calling) in (1, 16):
            return True
        uids = [v.app_context] + [getattr(c, "abstract", None) or "" for c in v.contexts]
        if any(len(u) in (1, 64) for u in uids if u):
            return True
        return len(v.contexts) >= 2
    if isinstance(v, R.PData):
        return len(v.pdvs) >= 2
    return False


def _classes(v):
    out = [type(v).__name__]
    if isinstance(v, (R.AssocRQ, R.AssocAC)):
        out += sorted({"ui:" + type(i).__name__ for i in v.user_info})
        if any(isinstance(i, R.UserIdRQ) and (not i.primary or not i.secondary) for i in v.user_info):
            out.append("userid-empty-field")
        if isinstance(v, R.AssocRQ) and (v.lead_called or v.lead_calling):
            out.append("leading-spaces")
        if len(v.contexts) == 0:
            out.append("no-contexts")
    return out


def check_pdu(ctx, v):
    can = canonical(v)
    ref = R.ref_encode(v)
    ref_can = R.ref_encode(can)
    # harness self-check: the two halves of the reference model agree with each other
    try:
        back, used = R.ref_parse(ref, strict=False)
    except R.Reject as e:
        raise HarnessError(f"reference parser rejects reference encoding: {e} for {v}")
    if used != len(ref) or sig.diff_path(back, v) is not None:
        raise HarnessError(f"reference encode/parse disagree at {sig.diff_path(back, v)} for {v}")

    kind = type(v).__name__
    ctx.note(v, nontrivial=_nontrivial(v), classes=_classes(v))
    cls = R.pdu_class(v)

    # ---- route A: primitive -> PDU -> bytes
    pdu_a = None
    try:
        prim = R.to_primitive(can)
    except (ValueError, TypeError):
        prim = None
        ctx.cls("api-rejected-primitive", "api-rejected:" + kind)
        if kind in ("PData", "ReleaseRQ", "ReleaseRP", "Abort", "AssocRJ"):
            raise HarnessError(f"bridge cannot build a primitive for {v}")
    if prim is not None:
        try:
            pdu_a = cls()
            pdu_a.from_primitive(prim)
            got = pdu_a.encode()
        except Exception as e:
            if isinstance(e, ValueError) and sig.exc_key(e).endswith("@pdu_primitives.from_primitive"):
                # the primitive's own validation refuses the value (explicit raise in <primitive>.from_primitive)
                ctx.cls("api-rejected-primitive", "api-rejected:" + kind)
                pdu_a = None
                got = None
            else:
                ctx.fail("exception-primitive-route", f"{kind}:{sig.exc_key(e)}", sig.exc_text(e))
                pdu_a, got = None, None
        if got is not None and got != ref_can:
            try:
                gv, _ = R.ref_parse(got, strict=False)
                where = sig.diff_path(can, gv) or "same-value-different-bytes"
            except R.Reject as e:
                where = "unparseable:" + str(e).split(":")[0]
            ctx.fail("layout", f"{kind}:{where}", f"primitive route bytes differ from PS3.8 layout\n value={can}\n want={ref_can.hex()}\n got ={got.hex()}")
        if got is not None and len(pdu_a) != len(got):
            ctx.fail("length", f"{kind}:len", f"len(pdu)={len(pdu_a)} but {len(got)} bytes encoded for {can}")

    # ---- route B: reference bytes -> decode -> fields / re-encode / primitive
    pdu_b = cls()
    try:
        pdu_b.decode(ref)
    except Exception as e:
        ctx.fail("exception-decode", f"{kind}:{sig.exc_key(e)}", f"decode of conformant bytes raised for {v}\n{sig.exc_text(e)}")
        return
    try:
        val_b = R.pdu_to_value(pdu_b)
    except Exception as e:
        ctx.fail("decode-fields", f"{kind}:unreadable:{type(e).__name__}", f"decoded PDU object unreadable for {v}: {e!r}")
        return
    d = sig.diff_path(can, val_b)
    if d:
        ctx.fail("decode-fields", f"{kind}:{d}", f"decoded fields differ at {d}\n sent={can}\n got ={val_b}\n bytes={ref.hex()}")
    try:
        re = pdu_b.encode()
    except Exception as e:
        ctx.fail("exception-reencode", f"{kind}:{sig.exc_key(e)}", f"re-encode raised for {v}\n{sig.exc_text(e)}")
        return
    if re != ref_can and not d:
        try:
            gv, _ = R.ref_parse(re, strict=False)
            where = sig.diff_path(can, gv) or "same-value-different-bytes"
        except R.Reject as e:
            where = "unparseable:" + str(e).split(":")[0]
        ctx.fail("reencode", f"{kind}:{where}", f"decode->encode differs\n value={can}\n want={ref_can.hex()}\n got ={re.hex()}")
    if pdu_a is not None and not d:
        if not (pdu_a == pdu_b) or (pdu_a != pdu_b):
            ctx.fail("eq", f"{kind}:eq", f"PDU built from primitive != PDU decoded from its own bytes for {can}")
    # decoded object compares equal to a second decode (guards a broken __eq__ that is always False)
    pdu_c = cls()
    pdu_c.decode(ref)
    if not (pdu_b == pdu_c):
        ctx.fail("eq", f"{kind}:eq-self", f"two decodes of the same bytes compare unequal for {can}")

    # ---- to_primitive keeps every PS3.8 parameter
    try:
        prim_b = pdu_b.to_primitive()
        val_p = R.primitive_to_value(prim_b, can)
    except Exception as e:
        if not d:
            ctx.fail("exception-to-primitive", f"{kind}:{sig.exc_key(e)}", f"to_primitive raised for {v}\n{sig.exc_text(e)}")
        return
    dp = sig.diff_path(can, val_p)
    if dp and not d:
        ctx.fail("primitive-roundtrip", f"{kind}:{dp}", f"PDU->primitive loses/changes a parameter at {dp}\n sent={can}\n got ={val_p}")


CHECKS = {"pdu": check_pdu}


def run(ctx):
    S = R.strategies()
    from hypothesis import strategies as st

    n = 300 if ctx.quick else 1500
    maxn = 8 if ctx.quick else 128

    def ac(maxn):
        cid = S.cid
        cx = st.one_of(st.builds(R.PCAC, cid, st.just(0), S.uid()), st.builds(R.PCAC, cid, st.integers(1, 4), S.uid()))
        return st.builds(R.AssocAC, S.ae_title(), S.ae_title(), S.uid(), st.lists(cx, min_size=0, max_size=maxn), S.ac_items, st.just(1))

    ctx.hyp("pdu", S.assoc_rq(maxn), n)
    ctx.hyp("pdu", ac(maxn), n)
    ctx.hyp("pdu", S.pdata, n)
    ctx.hyp("pdu", st.one_of(S.rj, S.abort, st.just(R.ReleaseRQ()), st.just(R.ReleaseRP())), 120 if ctx.quick else 400)
    # focused: user identity items alone (length-dependent decoder offsets)
    uid_rq = st.builds(R.AssocRQ, st.just("A"), st.just("B"), st.just("1.2.840.10008.3.1.1.1"), st.just([]), st.lists(S.user_id_rq, min_size=1, max_size=2))
    ctx.hyp("pdu", uid_rq, n)
