#!/bin/bash
export VERIF_EVIDENCE_DIR=${VERIF_EVIDENCE_DIR:-/var/tmp/evidence_scratch}  # exploratory run: do not touch /verif/evidence
# usage: eval_seed.sh <ID> <patch.diff> <demo.py> [tier]
# Applies the seeded change to a scratch worktree of /repo HEAD, checks the demonstration (fails with / passes without),
# runs the property's check against the changed tree (VERIF_REPO) and reports whether it is caught. Removes the worktree.
ID=$1; PATCH=$2; DEMO=$3; TIER=${4:-quick}
WT=/var/tmp/evalseed_$ID_$$
git -C /repo worktree add -q "$WT" HEAD || exit 2
trap 'git -C /repo worktree remove --force "$WT" >/dev/null 2>&1' EXIT
/venv/bin/python "$DEMO" "$WT" >/dev/null 2>&1; d0=$?
if ! git -C "$WT" apply "$PATCH" 2>/tmp/apply_err_$$; then echo "$ID: PATCH DOES NOT APPLY to HEAD: $(head -2 /tmp/apply_err_$$)"; exit 3; fi
/venv/bin/python "$DEMO" "$WT" >/dev/null 2>&1; d1=$?
cd /verif
out=$(VERIF_REPO="$WT" timeout 3000 /venv/bin/python check.py "$ID" --tier "$TIER" 2>&1); rc=$?
echo "$ID: demo clean=$d0 patched=$d1 | check rc=$rc | $(echo "$out" | grep -E "violation clause" | head -3 | cut -c1-220 | tr '\n' '|')"
