"""C13 - associations are established only when the acceptance policy allows them (E4: raw requestor vs pynetdicom acceptor)."""
import dataclasses

from engines import dsched as S
from engines import ps38ref as R
from engines import scenario as SC
from refs import policy_ref
from vlib.core import HarnessError

LEVEL = "exploration"
RULE = (
    "Hypothesis draws the 16-byte calling and called AE-title fields of a raw A-ASSOCIATE-RQ (exact, left/right/both padded, case variants, "
    "embedded spaces, near misses of the acceptor's title and of the required-calling list), the policy (require_calling_aet list with padded "
    "entries, require_called_aet on/off), a user-identity item (types 1-5 or none) and the EVT_USER_ID handler (unbound / verdict True / verdict "
    "False / raises). The raw peer sends the request, reads the reply and then sends a C-ECHO request regardless. Oracle (independent policy "
    "model): A-ASSOCIATE-AC iff every enabled check passes; otherwise A-ASSOCIATE-RJ whose (result, source, reason) belongs to a check that "
    "failed; the C-ECHO handler never runs on a connection that was not accepted (and runs once on an accepted one). "
    "Non-trivial = a title that differs from an allowed one only by padding, case or an embedded space."
)
ASSUMPTIONS = [
    "E4 substitution table; the acceptor is a real AssociationServer/Association/DUL stack, the requestor raw bytes from the E1 reference encoder",
    "AE titles compare case-sensitively with leading/trailing spaces ignored (PS3.8 Table 9-11 and the AE docs); only legal AE characters are generated",
    "documented reject codes: calling (1,1,3), called (1,1,7), identity (2,2,1)",
]
SHARDS = {"quick": 1, "thorough": 16}
OWN = "ANY-SCP"
ALLOWED = ["ALPHA", "Beta Two", "GAMMA_LONG_TITLE"]


def _field(s, lead):
    b = (" " * lead + s).encode("ascii")[:16]
    return b + b" " * (16 - len(b))


def check_policy(ctx, case):
    from pynetdicom import evt

    calling, called = bytes(case["calling"]), bytes(case["called"])
    req_calling = case["require_calling"]
    ident = case["identity"]
    handler = case["handler"]
    accept, allowed = policy_ref.decide(calling, called, OWN, req_calling, case["require_called"], ident, handler)

    rq = dataclasses.replace(SC.RAW_RQ)
    ui = list(rq.user_info)
    if ident is not None:
        ui.append(R.UserIdRQ(ident["type"], ident["rsp"], bytes(ident["primary"]), bytes(ident["secondary"])))
    rq = R.AssocRQ("X", "Y", rq.app_context, rq.contexts, ui)
    b = bytearray(R.ref_encode(rq))
    b[10:26] = called
    b[26:42] = calling
    script = [["send", bytes(b)], ["recv_pdu", 4], ["send", SC.dimse_bytes("echo", 1)], ["recv_idle", 0.5], ["send", R.ref_encode(R.ReleaseRQ())], ["recv_until_close", 4], ["close"]]
    echo_calls = []
    extra = []

    def on_echo(event):
        echo_calls.append(1)
        return 0

    extra.append((evt.EVT_C_ECHO, on_echo))
    if handler is not None:
        def on_id(event):
            if handler.get("raises"):
                raise ValueError("identity backend down")
            return handler.get("verdict"), (b"token" if handler.get("response") else None)

        extra.append((evt.EVT_USER_ID, on_id))

    sc = {"timeouts": {"acse": 3, "dimse": 3, "network": 6}, "max_steps": 15000,
          "acceptor": {"kind": "pynetdicom", "handlers": {}, "require_called": case["require_called"], "require_calling": req_calling, "extra_handlers": extra},
          "requestors": [{"kind": "raw", "script": script}], "schedule": case["schedule"]}
    out = SC.run(sc)
    peer = out["raw"][0]
    if peer.error:
        raise HarnessError(f"raw peer failed: {peer.error}")
    near = case.get("near", "exact")
    ctx.note({k: v for k, v in case.items()}, nontrivial=near not in ("exact", "other"), classes=["accept" if accept else "reject", "near:" + near,
             "id:" + (str(ident["type"]) if ident else "none"), "handler:" + ("unbound" if handler is None else ("raises" if handler.get("raises") else repr(handler.get("verdict")))),
             "calling-list" if req_calling else "no-calling-list", "called-check" if case["require_called"] else "no-called-check"])
    if out["how"] == "budget":
        ctx.inconclusive += 1
        return
    died = [t for t in out["report"]["threads"] if t["exc"] and not t["name"].startswith("raw-")]
    if died:
        ctx.fail("thread-exception", f"{died[0]['kind']}:{died[0]['exc'][2]}", f"{died[0]['name']} died: {died[0]['exc'][:2]}")
        return
    first = peer.received[0] if peer.received else None
    kind = {2: "AC", 3: "RJ", 7: "ABORT"}.get(first[0], "?") if first else "NONE"
    what = f"calling={calling!r} called={called!r} require_calling={req_calling} require_called={case['require_called']} identity={ident} handler={handler}"
    which = "+".join(sorted({(1, 1, 3): "calling", (1, 1, 7): "called", (2, 2, 1): "identity"}[c] for c in allowed)) or "none"
    if accept:
        if kind != "AC":
            ctx.fail("rejected-although-allowed", f"near:{near}:{kind}", f"policy allows the association but the reply was {kind} {first[6:10].hex() if first else ''}; {what}")
            return
        if len(echo_calls) != 1:
            ctx.fail("echo-handler-count", "accepted", f"C-ECHO handler ran {len(echo_calls)} times on an accepted association; {what}")
    else:
        if kind == "AC":
            ctx.fail("accepted-although-forbidden", f"failed:{which}:near:{near}", f"policy forbids the association ({which}) but it was accepted; {what}")
            return
        if kind != "RJ":
            ctx.fail("no-reject-pdu", f"failed:{which}:{kind}", f"expected A-ASSOCIATE-RJ, got {kind}; {what}")
            return
        code = (first[7], first[8], first[9])
        if code not in allowed:
            ctx.fail("reject-code", f"failed:{which}:got={code}", f"A-ASSOCIATE-RJ {code} does not belong to a failed check {sorted(allowed)}; {what}")
        if echo_calls:
            ctx.fail("handler-on-rejected-connection", f"failed:{which}", f"C-ECHO handler ran {len(echo_calls)} times although the association was rejected; {what}")


CHECKS = {"policy": check_policy}


def strategy(ctx):
    from hypothesis import strategies as st

    def variants(base):
        """(string, label) near misses of a title"""
        out = [(base, "exact"), (base.lower(), "case"), (base.upper() if base.upper() != base else base.swapcase(), "case"), (base.replace("-", " ").replace("_", " ") if ("-" in base or "_" in base) else base[:1] + " " + base[1:], "embedded-space"),
               (base[:-1], "other"), (base + "X", "other")]
        return [(s[:16], l) for s, l in out if s.strip()]

    @st.composite
    def title(draw, bases):
        base = draw(st.sampled_from(bases))
        s, label = draw(st.sampled_from(variants(base)))
        lead = draw(st.sampled_from([0, 0, 1, 3, 16 - len(s)]))
        lead = max(0, min(lead, 16 - len(s)))
        if label == "exact" and (lead or len(s) < 16):
            label = "padding" if lead else "exact"
        if s == base:
            label = "padding" if lead else "exact"
        elif s.strip(" ") == base:
            label = "padding"
        return _field(s, lead), label

    @st.composite
    def case(draw):
        called, l1 = draw(title([OWN, "OTHER-SCP"]))
        calling, l2 = draw(title(ALLOWED + ["INTRUDER"]))
        req = draw(st.sampled_from([[], [], ALLOWED, [" " + ALLOWED[0] + "  ", ALLOWED[1]], [ALLOWED[2]]]))
        ident = None
        if draw(st.booleans()):
            t = draw(st.integers(1, 5))
            ident = {"type": t, "rsp": draw(st.integers(0, 1)), "primary": draw(st.binary(min_size=1, max_size=12)), "secondary": draw(st.binary(min_size=1 if t == 2 else 0, max_size=8))}
        handler = draw(st.sampled_from([None, {"verdict": True}, {"verdict": True, "response": True}, {"verdict": False}, {"raises": True},
                                        {"verdict": None}, {"verdict": 0}, {"verdict": ""}]))  # falsy non-bool verdicts are not positive verdicts
        near = l1 if l1 not in ("exact",) else l2
        if l2 in ("padding", "case", "embedded-space") and req:
            near = l2
        return {"calling": calling, "called": called, "require_calling": req, "require_called": draw(st.booleans()), "identity": ident, "handler": handler, "near": near,
                "schedule": {"policy": draw(st.sampled_from(["fifo", "random"])), "seed": draw(st.integers(0, 9999)), "preemptions": [], "nudges": []}}

    return case()


def run(ctx):
    ctx.hyp("policy", strategy(ctx), 200 if ctx.quick else 1500)
