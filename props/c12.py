"""C12 - association requests and responses pynetdicom sends are structurally conformant (E1 strict parser over captured bytes)."""
from engines import negoscen as N
from engines import ps38ref as R

LEVEL = "exploration"
RULE = (
    "Configurations are generated through the public API only (AE titles incl. 16-character and odd but legal ones, requested contexts 1..130 with "
    "repeats, build_role proposals, SOP-class (common) extended negotiation, asynchronous operations window, user identity, maximum PDU sizes, "
    "implementation class UID / version name; acceptor supported contexts, roles and negotiation handlers). The association is negotiated between "
    "two real AEs under E4 and the A-ASSOCIATE-RQ and the A-ASSOCIATE-AC/RJ actually written to the wire are captured. Oracle: the strict PS3.8 "
    "reference parser accepts the RQ (1..128 contexts, distinct odd IDs, one abstract and >=1 transfer syntax each, exactly one application context "
    "and one user-information item with exactly one maximum-length and one implementation-class-UID sub-item, legal AE titles and UIDs), and the AC "
    "(one result item per proposed context ID, a transfer syntax on every accepted item). Configurations the API rejects are counted and skipped. "
    "Non-trivial = >16 contexts or >=2 kinds of negotiation item."
)
ASSUMPTIONS = ["engines/ps38ref.ref_parse(strict=True) transcribes the PS3.8 cardinalities and value-representation rules", "E4 substitution table"]
SHARDS = {"quick": 1, "thorough": 16}


def check_wire(ctx, case):
    out = N.run(case)
    kinds = {e[0] for e in case.get("ext", [])} | ({"role"} if case.get("roles") else set())
    n = len(case["requested"])
    if out.get("api_error"):
        ctx.note(case, nontrivial=False, classes=["api-rejected:" + out["api_error"][0] + ":" + out["api_error"][1]])
        return
    ctx.note(case, nontrivial=n > 16 or len(kinds) >= 2, classes=["established" if out["established"] else "not-established", f"n={'>16' if n > 16 else n if n < 5 else '5-16'}"] + sorted("ext:" + k for k in kinds))
    rqb = out["rq_bytes"]
    if rqb is None:
        ctx.cls("no-rq-on-wire")
        return
    try:
        v, used = R.ref_parse(rqb, strict=True)
    except R.Reject as e:
        why = str(e).split(":")[0]
        ctx.fail("rq-nonconformant", why, f"A-ASSOCIATE-RQ sent is not conformant: {e}; bytes {rqb.hex()[:600]}; case={case}")
        return
    if not isinstance(v, R.AssocRQ):
        ctx.fail("rq-nonconformant", "not-an-rq", f"first PDU sent by the requestor is {type(v).__name__}")
        return
    if len(v.contexts) != n:
        ctx.fail("rq-context-count", "count", f"{n} contexts requested through the API, {len(v.contexts)} on the wire")
        return
    rep = out["reply_bytes"]
    if rep is None:
        return
    if rep[0] == 2:
        try:
            a, used = R.ref_parse(rep, strict=True)
        except R.Reject as e:
            why = str(e).split(":")[0]
            ctx.fail("ac-nonconformant", why, f"A-ASSOCIATE-AC sent is not conformant: {e}; bytes {rep.hex()[:600]}; case={case}")
            return
        if sorted(c.cid for c in a.contexts) != sorted(c.cid for c in v.contexts):
            ctx.fail("ac-result-per-context", "ids", f"AC result IDs {sorted(c.cid for c in a.contexts)} != proposed IDs {sorted(c.cid for c in v.contexts)}")
            return
        if sum(isinstance(i, R.MaxLength) for i in a.user_info) != 1 or sum(isinstance(i, R.ImplClassUID) for i in a.user_info) != 1:
            ctx.fail("ac-nonconformant", "user-info", f"AC user information {a.user_info}")
    elif rep[0] == 3:
        try:
            R.ref_parse(rep, strict=True)
        except R.Reject as e:
            ctx.fail("rj-nonconformant", str(e).split(":")[0], f"A-ASSOCIATE-RJ sent is not conformant: {e}; {rep.hex()}")


CHECKS = {"wire": check_wire}


def run(ctx):
    from hypothesis import strategies as st

    base = N.strategy(12 if ctx.quick else 40)

    @st.composite
    def big(draw):
        c = dict(draw(base))
        n = draw(st.sampled_from([17, 64, 127, 128, 129, 130]))
        c["requested"] = [[draw(st.sampled_from(N.ABSTRACT_POOL)), [draw(st.sampled_from(N.TS_POOL))]] for _ in range(n)]
        c["roles"] = {}
        return c

    @st.composite
    def odd(draw):
        """configurations at the edge of what the API accepts: empty transfer-syntax lists, odd UIDs and titles"""
        c = dict(draw(base))
        k = draw(st.integers(0, 3))
        if k == 0:
            c["requested"] = c["requested"] + [[draw(st.sampled_from(N.ABSTRACT_POOL)), []]]
        elif k == 1:
            c["requested"] = c["requested"] + [[draw(st.sampled_from(["1.2.03", "abc.def", "1..2", "1.2." + "9" * 61])), ["1.2.840.10008.1.2"]]]
        elif k == 2:
            t = draw(st.sampled_from(["  PAD  ", "A\\B", "x" * 17, "", "   ", "ÄE", "STORE_SCU" + " " * 10, " " * 9 + "LEADING_PAD", "ECHOSCU\n", "TAB\tTITLE", "SIXTEEN_CHARS_OK", " " + "x" * 16]))
            if draw(st.booleans()):
                c["rq_title"] = t
            else:
                c["called"] = t  # the title the requestor calls (ae_title= argument of associate)
        else:
            c["impl_version"] = draw(st.sampled_from(["", " ", "x" * 17, "ok"]))
        return c

    @st.composite
    def titles(draw):
        """AE titles at the edge of what set_ae()/validate_ae accept: padding that pushes the length over 16, control characters"""
        c = dict(draw(base))
        pad = st.sampled_from(["", " ", "  ", " " * 7, " " * 10])
        core_t = draw(st.sampled_from(["STORE_SCU", "A", "SIXTEEN_CHARS_OK", "FIFTEEN_CHARS_X", "x" * 17, "ECHOSCU\n", "TAB\tX", "A\\B", "ÄE", "a b"]))
        t = draw(pad) + core_t + draw(pad)
        which = draw(st.sampled_from(["rq_title", "called", "ac_title"]))
        c[which] = t
        return c

    ctx.hyp("wire", base, 150 if ctx.quick else 1000)
    ctx.hyp("wire", titles(), 60 if ctx.quick else 400)
    ctx.hyp("wire", big(), 12 if ctx.quick else 100)
    ctx.hyp("wire", odd(), 60 if ctx.quick else 400)
