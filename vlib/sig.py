"""Structural root-cause keys: stable under shrinking and across seeds (no concrete input, no line numbers)."""
import dataclasses
import traceback


def exc_key(e, pkg="pynetdicom"):
    """'<ExcType>@<innermost function inside pkg>' (falls back to the innermost frame)."""
    tb = traceback.extract_tb(e.__traceback__)
    fn = None
    for fr in tb:
        if f"/{pkg}/" in fr.filename.replace("\\", "/"):
            mod = fr.filename.replace("\\", "/").rsplit("/", 1)[-1][:-3]
            fn = f"{mod}.{fr.name}"
    if fn is None and tb:
        fn = tb[-1].name
    return f"{type(e).__name__}@{fn}"


def exc_text(e):
    return "".join(traceback.format_exception(type(e), e, e.__traceback__))[-1500:]


def diff_path(a, b, path=""):
    """First structural difference between two plain/dataclass values as a path of field and type names
    (list indexes are replaced by the element's type name). None when equal."""
    if dataclasses.is_dataclass(a) and dataclasses.is_dataclass(b):
        if type(a) is not type(b):
            return f"{path}<{type(a).__name__}!={type(b).__name__}>"
        for f in dataclasses.fields(a):
            d = diff_path(getattr(a, f.name), getattr(b, f.name), f"{path}/{type(a).__name__}.{f.name}")
            if d:
                return d
        return None
    if isinstance(a, (list, tuple)) and isinstance(b, (list, tuple)):
        if len(a) != len(b):
            return f"{path}[len]"
        for x, y in zip(a, b):
            d = diff_path(x, y, path)
            if d:
                return d
        return None
    if isinstance(a, (bytes, bytearray)) and isinstance(b, (bytes, bytearray)):
        return None if bytes(a) == bytes(b) else f"{path}(bytes)"
    if isinstance(a, dict) and isinstance(b, dict):
        for k in sorted(set(a) | set(b), key=str):
            if k not in a or k not in b:
                return f"{path}/{k}(missing)"
            d = diff_path(a[k], b[k], f"{path}/{k}")
            if d:
                return d
        return None
    if a == b and type(a) is type(b):
        return None
    if a == b and isinstance(a, (int, bool)) and isinstance(b, (int, bool)):
        return None
    return f"{path}(value)"
