#!/venv/bin/python
"""Regenerates MANIFEST.json from props/*.py (claimed checks) and tools/manifest_meta.json (texts)."""
import json, os, sys
HERE = os.path.dirname(os.path.dirname(os.path.abspath(__file__)))
sys.path.insert(0, HERE)
meta = json.load(open(os.path.join(HERE, "tools", "manifest_meta.json")))
import glob
for f in sorted(glob.glob(os.path.join(HERE, "tools", "meta.d", "*.json"))):
    meta["checks"][os.path.basename(f)[:-5].upper()] = json.load(open(f))
props = [json.loads(l) for l in open(os.path.join(HERE, "properties.jsonl"))]
checks, na = [], []
for p in props:
    pid = p["id"]
    m = meta["checks"].get(pid)
    if m and os.path.exists(os.path.join(HERE, "props", pid.lower() + ".py")) and not m.get("disabled"):
        checks.append({
            "property_id": pid,
            "quick_cmd": f"/venv/bin/python check.py {pid} --tier quick",
            "thorough_cmd": f"/venv/bin/python check.py {pid} --tier thorough",
            "evidence_file": f"evidence/{pid}.json",
            "replay_cmd_template": f"/venv/bin/python check.py {pid} --replay {{path}}",
            "engine": m["engine"],
            "level_claimed": {"category": m.get("category", "exploration"), "text": m["text"], "design_ref": m.get("design_ref", f"DESIGN.md section 3, {pid}")},
            "level_note": m["note"],
            "technique": m["technique"],
        })
    else:
        na.append({"property_id": pid, "reason": (m or {}).get("na_reason") or meta["default_na"]})
man = {
    "version": 1,
    "setup_cmd": meta["setup_cmd"],
    "hooks": meta["hooks"],
    "engines": meta["engines"],
    "checks": checks,
    "not_applicable": na,
    "notes": meta["notes"],
}
json.dump(man, open(os.path.join(HERE, "MANIFEST.json"), "w"), indent=1)
print(f"MANIFEST.json: {len(checks)} checks, {len(na)} not_applicable")
