"""C21 - handler results map to response status and data as documented (engine E3 + refs/handler_status_ref).

Same cases and harness as C20 (engines/scp_grammar.py); the oracle is the documentation-derived reference model
refs/handler_status_ref.expected(): response i is compared with the i-th response the documentation predicts (status,
optional status elements, dataset).  How many responses are sent is C20's business, not checked here."""
from engines import scp_grammar as G
from refs import handler_status_ref as R

LEVEL = "exploration"
RULE = (
    "Hypothesis draws (service / request type from the 49 non-retrieve entries of the catalogue: Verification, Storage, "
    "Non-Patient Object Storage, 14 C-FIND services, all six DIMSE-N services across their service classes) x transfer "
    "syntax (implicit/explicit LE, explicit BE, deflated) x message ID x context ID x handler script: ints (known, unknown, "
    "out of range), status Datasets with/without Status and with ErrorComment / OffendingElement / ErrorID, wrong types, "
    "tuples where a status is expected, exceptions of 8 types before/between/after yields, response datasets (1..5 "
    "elements incl. a sequence and an empty value, unencodable datasets, non-datasets), N-CREATE with and without Affected "
    "SOP Instance UID. Each response actually sent is compared with the documentation-derived prediction. Non-trivial = "
    "the prediction involves something other than echoing a plain int (status Dataset, optional element, invalid result, "
    "exception, unencodable/returned dataset) or compares >=2 responses; distinct = distinct case."
)
ASSUMPTIONS = [
    "documented failure codes transcribed from docs/service_classes/*.rst: C-STORE 0xC001/0xC002/0xC211; every C-FIND "
    "service 0xC001/0xC002/0xC311/0xC312; DIMSE-N: 0x0110 when the handler raises (the documented 'not implemented' case "
    "is an exception), for other invalid N-handler results only 'a Failure-class status' is required",
    "C-ECHO: no failure code is documented for invalid handler results, nothing is asserted there (the implementation "
    "answers 0x0000)",
    "optional status elements asserted: ErrorComment (all), OffendingElement (C-STORE, C-FIND), ErrorID (DIMSE-N) - PS3.7 "
    "Annex C; other elements of a status Dataset are not asserted",
    "response datasets asserted only where the documentation promises them: Identifier of Pending C-FIND responses; "
    "DIMSE-N Attribute List / Action Reply / Event Reply for status 0x0000 (and 0x0107/0x0116 where PS3.7 10.1 lists them)",
    "Relevant Patient Information Query is a single-match service (PS3.4 Annex Q): one Pending then Success",
    "handlers that are not generators (C-FIND) and results outside the documented contract (non-tuples, Pending without "
    "an Identifier dataset) have no documented mapping: the model stops there and asserts nothing more; an int outside 0..0xFFFF cannot be sent as "
    "the status, so 'a Failure-class status' is required for it (C-ECHO excepted); a response that is not sent at all is C20's clause, not C21's",
    "C-GET / C-MOVE mappings (sub-operation counters) belong to C22",
    "datasets are compared element by element after decoding under the negotiated transfer syntax with pydicom",
]
SHARDS = {"quick": 1, "thorough": 16}
MIN_NONTRIVIAL = 50


def _norm_opt(kw, v):
    if v is None:
        return None
    if kw == "OffendingElement":
        if isinstance(v, (list, tuple)) or type(v).__name__ == "MultiValue":
            return [int(x) for x in v]
        return [int(v)]
    if kw == "ErrorComment":
        return str(v)
    return int(v)


def _first_diff(a, b):
    for k in sorted(set(a) | set(b)):
        if k not in a:
            return f"extra:{k}"
        if k not in b:
            return f"lost:{k}"
        if a[k] != b[k]:
            return f"changed:{k}"
    return None


def check_map(ctx, case):
    rtype, _uid, family = G.SERVICES[case["svc"]]
    exp, complete = R.expected(case, G.SERVICES)
    obs = G.run_scp_case(case)
    msgs = obs.responses()
    group = "single-match" if family == "relevant-patient" else ("multi-match" if rtype == "C-FIND" else "single-response")
    pairs = list(zip(exp, msgs))
    whys = [e.why for e, _ in pairs]
    nt = len(pairs) >= 2 or any(
        e.why not in ("int", "exhausted") or e.extra or e.dataset is not None for e, _ in pairs
    )
    cls = [rtype, f"family:{family}", f"ts:{case.get('ts', 'implicit')}", f"compared:{min(len(pairs), 4)}"]
    cls += sorted({"exp:" + (w.split("(")[0]) for w in whys})
    if any(e.extra for e, _ in pairs):
        cls.append("exp:optional-elements")
    if any(e.dataset is not None for e, _ in pairs):
        cls.append("exp:dataset")
    if not complete:
        cls.append("model-open-ended")
    if len(msgs) < len(exp):
        cls.append("fewer-responses-than-predicted(C20)")
    ctx.note(case, nontrivial=bool(pairs) and nt, classes=cls)

    for i, (e, m) in enumerate(pairs):
        if m.error or m.cmd is None or not m.is_response or m.status is None:
            return  # malformed message: C20 / C16 territory
        where = f"svc={case['svc']} response #{i + 1} predicted {e!r} got status=0x{m.status:04X} item={e.item}"
        why = e.why
        if why in ("int", "ds-status", "ds-status+optional", "ds-status+command-element"):
            why = "status:" + R.category(e.status)
        if e.status is not None and m.status != e.status:
            ctx.fail("status", f"{rtype}:{group}:{why}", f"status 0x{m.status:04X}, documented 0x{e.status:04X}\n{where}")
            return
        if e.klass is not None and R.category(m.status) != e.klass:
            ctx.fail("status-class", f"{rtype}:{group}:{why}", f"status 0x{m.status:04X} is {R.category(m.status)}, expected a {e.klass} status\n{where}")
            return
        for kw, v in sorted(e.extra.items()):
            got = _norm_opt(kw, m.get(R.OPTIONAL_TAG[kw]))
            want = _norm_opt(kw, v)
            if got != want:
                ctx.fail("optional-element", f"{rtype}:{kw}", f"{kw}: handler gave {want!r}, response carries {got!r}\n{where}")
                return
        if e.dataset is not None:
            want = G.ds_plain(G.build_ds(e.dataset))
            if m.data is None:
                ctx.fail("dataset", f"{rtype}:{group}:missing", f"response has no data set, handler supplied {want}\n{where}")
                return
            try:
                got = G.ds_plain(G.decode_ds(m.data, case.get("ts", "implicit")))
            except Exception as ex:  # the requestor could not decode it under the negotiated transfer syntax
                ctx.fail("dataset", f"{rtype}:{group}:undecodable", f"data set undecodable under {case.get('ts')}: {ex!r}\n{where}")
                return
            d = _first_diff(want, got)
            if d:
                ctx.fail("dataset", f"{rtype}:{group}:{d.split(':')[0]}", f"data set differs ({d}): handler {want} requestor {got}\n{where}")
                return
            if rtype == "N-CREATE" and not case.get("with_instance", True) and e.status == 0x0000:
                uid = dict((k, v) for k, v in case["items"][0]["ds"]["elems"]).get("AffectedSOPInstanceUID")
                if uid is not None and str(m.get(0x00001000)) != uid:
                    ctx.fail("affected-sop-instance", "N-CREATE", f"(0000,1000)={m.get(0x00001000)!r}, handler dataset gave {uid!r}\n{where}")
                    return


CHECKS = {"map": check_map}


def run(ctx):
    S = G.strategies()
    if ctx.quick:
        n_single, n_find = 1500, 1800
    else:
        n_single, n_find = 4000, 5000
    from hypothesis import strategies as st

    # half of the scripts stay inside the documented handler contract (every response is predicted), the other half
    # may contain anything from the grammar (the prediction stops at the first undocumented behaviour)
    ctx.hyp("map", st.one_of(S.find_raw(True), S.find_raw(False)), n_find)
    ctx.hyp("map", st.one_of(S.single_raw(True), S.single_raw(False), S.single_raw(False)), n_single)
    ctx.hyp("map", S.find_one("find-rpi"), n_find // 6)
    ctx.extra["services_in_scope"] = len([k for k, v in G.SERVICES.items() if v[0] not in ("C-GET", "C-MOVE")])
