"""E2 - scripted in-memory socket + synchronous stepping of the real DUL reactor.

`ScriptSock` offers the subset of the socket API pynetdicom uses; `installed()` substitutes the names `socket` and
`select` in pynetdicom.transport and `time` in pynetdicom.dul for the duration of a case. `SyncDUL` builds a real
Association + DULServiceProvider + AssociationSocket on top of a ScriptSock and runs the real `run_reactor()` in the
calling thread; `dul.artim_timer` is replaced by a `Timer` subclass whose `expired` getter (read exactly once at the
top of every loop iteration) is the per-iteration hook.

Modelled kernel behaviour (assumptions): select() reports readable on buffered data and at EOF; recv() on a locally
closed socket raises OSError(EBADF) and select() on it raises ValueError; recv() returns at most the rest of the
current chunk; a blocking recv() with nothing buffered and no EOF never returns -> raises `Stall` (BaseException).
`SyncDUL(tls=True)` puts a TLS-like scripted socket underneath (an ssl.SSLSocket subclass, chunks = TLS records): see `_tls_classes`.
"""
from __future__ import annotations

import contextlib
import functools
import logging
import socket as _socket
import types

logging.disable(logging.CRITICAL)


class Stop(BaseException):
    """Raised by the step hook to leave run_reactor()."""


class Stall(BaseException):
    """A blocking recv() with no data and no EOF: in a real run the thread would block here."""


class ScriptSock:
    def __init__(self, *a, **k):
        self.chunks = []  # list[bytearray]
        self.eof = False
        self.sent = bytearray()
        self.sends = []  # list of bytes per successful send() call
        self.closed = False
        self.timeout = None
        self.connected_to = None
        self.refuse = False
        self.fail_send = False
        self.max_send = None
        self.addr = ("127.0.0.1", 40000)
        self.recv_calls = 0

    # -- script side
    def feed(self, data, cuts=()):
        data = bytes(data)
        prev = 0
        for c in sorted(set(c for c in cuts if 0 < c < len(data))):
            self.chunks.append(bytearray(data[prev:c]))
            prev = c
        if data[prev:]:
            self.chunks.append(bytearray(data[prev:]))

    def pending(self):
        return sum(len(c) for c in self.chunks)

    def unread(self):
        """bytes fed but not yet returned by recv() (for a TLS-like socket: records not yet read + decrypted bytes still buffered)"""
        return sum(len(c) for c in self.chunks)

    # -- socket API
    def setsockopt(self, *a):
        pass

    def settimeout(self, t):
        self.timeout = t

    def gettimeout(self):
        return self.timeout

    def bind(self, addr):
        self.addr = (addr[0] or "127.0.0.1", addr[1] or 40000)

    def getsockname(self):
        return self.addr

    def getpeername(self):
        return self.connected_to or ("127.0.0.1", 11112)

    def fileno(self):
        return -1 if self.closed else 99

    def connect(self, addr):
        if self.closed:
            raise OSError(9, "Bad file descriptor")
        if self.refuse:
            raise ConnectionRefusedError(111, "Connection refused")
        self.connected_to = tuple(addr)

    def recv(self, n):
        self.recv_calls += 1
        if self.closed:
            raise OSError(9, "Bad file descriptor")
        while self.chunks and not self.chunks[0]:
            self.chunks.pop(0)
        if not self.chunks:
            if self.eof:
                return b""
            if self.timeout is not None:
                raise TimeoutError("timed out")
            raise Stall()
        c = self.chunks[0]
        out = bytes(c[:n])
        del c[:n]
        return out

    def send(self, b):
        if self.closed:
            raise OSError(9, "Bad file descriptor")
        if self.fail_send:
            raise BrokenPipeError(32, "Broken pipe")
        b = bytes(b)
        if self.max_send is not None:
            b = b[: self.max_send]
        self.sent += b
        self.sends.append(b)
        return len(b)

    def sendall(self, b):
        self.send(b)

    def shutdown(self, how):
        if self.closed:
            raise OSError(9, "Bad file descriptor")

    def close(self):
        self.closed = True

    def readable(self):
        if self.closed:
            raise ValueError("file descriptor cannot be a negative integer (-1)")
        return any(len(c) for c in self.chunks) or self.eof


@functools.lru_cache(maxsize=None)
def _tls_classes():
    """-> (TLSScriptSock, FakeTLSContext), built lazily (the ssl module may be missing).

    TLSScriptSock is a ScriptSock for which `isinstance(sock, ssl.SSLSocket)` holds and that models what matters to a reader of
    an SSL socket: the chunks fed are TLS records; select() only sees records that have not been read from the transport yet
    (and EOF); recv(n) with an empty plaintext buffer reads and decrypts ONE whole record and returns at most n bytes of it, the
    rest stays buffered inside the SSL object where select() cannot see it and `pending()` reports it (ssl.SSLSocket.pending:
    'number of already decrypted bytes available for read'); recv() never returns bytes of two records in one call; at EOF recv()
    returns b'' (suppress_ragged_eofs). The handshake, record sizes > 16 KiB and renegotiation are not modelled."""
    import ssl

    class TLSScriptSock(ScriptSock, ssl.SSLSocket):
        def __init__(self, *a, **k):  # (ssl.SSLSocket has no public constructor; the C-level socket object stays unopened, fd -1)
            self._timeout = None
            ScriptSock.__init__(self)
            self.plain = bytearray()  # decrypted, not yet returned
            self.server_hostname = k.get("server_hostname")

        # `timeout` is a read-only descriptor of the C socket type
        @property
        def timeout(self):
            return self._timeout

        @timeout.setter
        def timeout(self, v):
            self._timeout = v

        def pending(self):
            return len(self.plain)

        def unread(self):
            return len(self.plain) + sum(len(c) for c in self.chunks)

        def recv(self, n=1024, flags=0):
            if self.closed:
                raise OSError(9, "Bad file descriptor")
            if not self.plain:
                self.plain += ScriptSock.recv(self, 1 << 30)  # one whole record (or b"" at EOF; Stall / timeout as for a plain socket)
            else:
                self.recv_calls += 1
            out = bytes(self.plain[:n])
            del self.plain[:n]
            return out

        def readable(self):  # what select() can know: undecrypted records in the transport, or EOF
            return ScriptSock.readable(self)

        def __repr__(self):
            return f"<TLSScriptSock records={len(self.chunks)} buffered={len(self.plain)}>"

    class FakeTLSContext:
        """stands in for the ssl.SSLContext of AssociationSocket.tls_args: wrap_socket() returns a TLSScriptSock that takes over
        the state of the plain ScriptSock (as SSLContext.wrap_socket detaches the original socket)."""

        def wrap_socket(self, sock, server_side=False, server_hostname=None, **kw):
            t = TLSScriptSock(server_hostname=server_hostname)
            for k in ("chunks", "eof", "sent", "sends", "closed", "connected_to", "refuse", "fail_send", "max_send", "addr"):
                setattr(t, k, getattr(sock, k))
            t.timeout = sock.timeout
            return t

    return TLSScriptSock, FakeTLSContext


def _vselect(r, w, x, timeout=None):
    return ([s for s in r if s.readable()], [], [])


_SOCK_NAMES = ("AF_INET", "AF_INET6", "SOCK_STREAM", "SOL_SOCKET", "SO_REUSEADDR", "SHUT_RDWR", "SHUT_WR", "SHUT_RD",
               "AI_PASSIVE", "getaddrinfo", "gaierror", "AddressFamily", "timeout", "error", "SOCK_DGRAM")


@contextlib.contextmanager
def installed(sock_factory=ScriptSock):
    import pynetdicom.dul as D
    import pynetdicom.transport as T

    shim = types.SimpleNamespace(**{k: getattr(_socket, k) for k in _SOCK_NAMES}, socket=sock_factory)
    old = (T.socket, T.select, D.time)
    T.socket = shim
    T.select = types.SimpleNamespace(select=_vselect)
    import time as _time

    D.time = types.SimpleNamespace(sleep=lambda d: None, time=_time.time, monotonic=_time.monotonic, perf_counter=_time.perf_counter)
    try:
        yield
    finally:
        T.socket, T.select, D.time = old


def make_timer(hook):
    from pynetdicom.timer import Timer

    class RecTimer(Timer):
        """Recording ARTIM: no clock; `running`/`starts` are the observable effects, `expired` is the step hook."""

        def __init__(self):
            super().__init__(30)
            self.running = False
            self.starts = 0
            self.calls = []
            self.fire = False

        @property
        def expired(self):
            hook()
            return self.fire

        @property
        def is_running(self):
            # an injected expiry (fire) stands for a running timer that ran out
            return self.running or self.fire

        @property
        def remaining(self):
            return 30.0

        def start(self):
            self.calls.append("start")
            self.running = True
            self.starts += 1

        def stop(self):
            self.calls.append("stop")
            self.running = False
            self.fire = False

        def restart(self):
            self.calls.append("restart")
            self.running = True
            self.starts += 1

    return RecTimer()


class SyncDUL:
    """A real DULServiceProvider driven synchronously. Must be used inside `with installed():`."""

    def __init__(self, mode="acceptor", state=None, record_dimse=True, handlers=(), tls=False):
        """tls=True: the transport is a TLS-like scripted socket (see _tls_classes): the acceptor gets an already wrapped client
        socket (what AssociationServer.get_request hands over when the server has an ssl_context, tls_args stays None), the requestor
        gets tls_args = (FakeTLSContext(), hostname) so that AssociationSocket.connect() wraps its socket."""
        from pynetdicom import AE, evt
        from pynetdicom.association import Association
        from pynetdicom.transport import AddressInformation, AssociationSocket

        self.evt = evt
        ae = AE()
        ae.add_supported_context("1.2.840.10008.1.1")
        self.ae = ae
        self.assoc = assoc = Association(ae, mode)
        if mode == "acceptor":
            self.raw = _tls_classes()[0]() if tls else ScriptSock()
            self.sock = AssociationSocket(assoc, client_socket=self.raw)
        else:
            self.sock = AssociationSocket(assoc, address=AddressInformation("127.0.0.1", 0))
            self.raw = self.sock.socket
            if tls:
                self.sock.tls_args = (_tls_classes()[1](), "localhost")
        assoc.set_socket(self.sock)
        assoc.acceptor.address_info = AddressInformation("127.0.0.1", 11112)
        assoc.requestor.address_info = AddressInformation("127.0.0.1", 40000)
        assoc.acceptor.ae_title = "ACCEPTOR"
        assoc.requestor.ae_title = "REQUESTOR"
        self.dul = dul = assoc.dul
        dul._run_loop_delay = 0
        self.iterations = 0
        self.max_iter = 50
        self.on_iter = None
        self.timer = make_timer(self._hook)
        dul.artim_timer = self.timer
        self.transitions = []
        self.events = []
        # harness observers must run before the built-in logging handlers (a raising notification handler stops the
        # remaining handlers of that event): unbind the defaults, bind ours, re-bind the defaults behind them
        from pynetdicom import _handlers as H

        defaults = [(evt.EVT_DIMSE_RECV, H.standard_dimse_recv_handler), (evt.EVT_DIMSE_SENT, H.standard_dimse_sent_handler),
                    (evt.EVT_PDU_RECV, H.standard_pdu_recv_handler), (evt.EVT_PDU_SENT, H.standard_pdu_sent_handler)]
        for e, f in defaults:
            assoc.unbind(e, f)
        self._rebind_defaults = lambda: [assoc.bind(e, f) for e, f in defaults]
        assoc.bind(evt.EVT_FSM_TRANSITION, lambda e: self.transitions.append((e.current_state, e.fsm_event, e.action, e.next_state)))
        assoc.bind(evt.EVT_PDU_RECV, lambda e: self.events.append(("pdu_recv", e.pdu)))
        assoc.bind(evt.EVT_PDU_SENT, lambda e: self.events.append(("pdu_sent", e.pdu)))
        assoc.bind(evt.EVT_CONN_CLOSE, lambda e: self.events.append(("conn_close", None)))
        assoc.bind(evt.EVT_CONN_OPEN, lambda e: self.events.append(("conn_open", None)))
        self.rebind_defaults = self._rebind_defaults
        self.dimse_calls = []
        if record_dimse:
            assoc.dimse.receive_primitive = lambda p: self.dimse_calls.append(p)
        if state is not None:
            # drop the Evt5 queued by the AssociationSocket constructor; the case decides the events
            while not dul.event_queue.empty():
                dul.event_queue.get(False)
            dul.state_machine.current_state = state

    def connect_now(self):
        """Requestor mode: perform the transport connect that AE-1 would have issued (states >= Sta5)."""
        from pynetdicom import pdu_primitives as P
        from pynetdicom.transport import AddressInformation, T_CONNECT

        rqp = P.A_ASSOCIATE()
        rqp.called_presentation_address = AddressInformation("127.0.0.1", 11112)
        self.sock.connect(T_CONNECT(rqp))
        self.raw = self.sock.socket
        while not self.dul.to_provider_queue.empty():
            self.dul.to_provider_queue.get(False)
        self.events.clear()
        return self.raw

    def _hook(self):
        self.iterations += 1
        if self.on_iter is not None:
            self.on_iter(self.iterations)
        if self.iterations > self.max_iter:
            raise Stop()

    @property
    def state(self):
        return self.dul.state_machine.current_state

    def run(self, max_iter=50, until=None):
        """Run the real reactor until it returns (killed), the budget is used, or `until()` is true at the
        top of an iteration. -> ('returned'|'budget'|'until'|'stall', exception or None)"""
        self.max_iter = self.iterations + max_iter

        def on_iter(i):
            if until is not None and until():
                raise Stop("until")

        self.on_iter = on_iter
        try:
            self.dul.run_reactor()
            return "returned", None
        except Stop as s:
            return ("until" if s.args else "budget"), None
        except Stall:
            return "stall", None
        except Exception as e:  # escaped the provider: the caller decides whether that is expected
            return "raised", e

    def user_queue(self):
        return list(self.dul.to_user_queue.queue)

    def provider_queue(self):
        return list(self.dul.to_provider_queue.queue)
