"""E4 - harness-owned schedule, virtual time, virtual sockets (controlled concurrency testing from outside).

Real pynetdicom code runs on real OS threads, but exactly one managed thread runs at a time and the controller (the
test's main thread) chooses which. All blocking points of pynetdicom are reached through module-level names that are
substituted for the duration of a `World`:

    threading.Thread.start / is_alive           -> managed threads (global patch, restored afterwards)
    time   in pynetdicom.dul/.association/.timer  -> virtual clock (sleep = cooperative wait with a deadline)
    queue  in pynetdicom.dul/.dimse               -> Queue whose blocking get() is a cooperative wait
    threading in pynetdicom.association/.transport/.ae/.dimse -> cooperative Event / Lock, enumerate over managed threads
    socket, select in pynetdicom.transport        -> VSocket / vselect (in-memory byte pipes, listener registry)

Yield points: every cooperative blocking call, plus function-entry events (sys.setprofile) for a watch list of pynetdicom
function names. Time advances to the earliest deadline when every thread is blocked, or by an explicit nudge.

A run is a pure function of (scenario, chooser); the resolved choice list is recorded so a replay needs no PRNG.
"""
from __future__ import annotations

import contextlib
import logging
import queue as _queue
import random as _random
import socket as _socket
import sys
import threading
import traceback
import types

logging.disable(logging.CRITICAL)

_orig_start = threading.Thread.start
_orig_is_alive = threading.Thread.is_alive
_orig_enumerate = threading.enumerate


class Abort(BaseException):
    """Raised inside managed threads at teardown."""


class HarnessStuck(Exception):
    """A managed thread did not come back to the scheduler (unknown real blocking call)."""


WATCH = {
    "_process_recv_primitive", "do_action", "_read_pdu_data", "send_pdu", "receive_pdu", "peek_next_pdu",
    "is_release_requested", "is_aborted", "send_abort", "send_release", "kill", "stop_dul", "_serve_request",
    "send_msg", "get_msg", "peek_msg", "trigger", "_abort_blocking", "release", "negotiate_release",
    "negotiate_association", "_negotiate_as_acceptor", "_negotiate_as_requestor", "receive_primitive",
    "kill_dul", "_is_transport_event", "idle_timer_expired", "close", "_send", "abort", "request",
}

QUANTUM = 0.05
WORLD = None  # the active World (one per process at a time)


class TS:
    __slots__ = ("name", "thread", "sem", "state", "pred", "deadline", "label", "exc", "ok", "index", "kind", "where")

    def __init__(self, name, thread, index):
        self.name, self.thread, self.index = name, thread, index
        self.sem = threading.Semaphore(0)
        self.state = "ready"
        self.pred = None
        self.deadline = None
        self.label = "spawn"
        self.exc = None
        self.ok = None
        self.kind = type(thread).__name__
        self.where = None  # innermost pynetdicom function of the last virtual sleep (names a polling loop in a livelock report)


# --------------------------------------------------------------------------------------------- choosers

class Chooser:
    """policy: 'fifo' | 'random' | 'pct'. Explicit preemptions {step: pick} override the policy; nudges {step: kind}."""

    def __init__(self, policy="fifo", seed=0, preemptions=(), nudges=(), pct_depth=2, max_steps=6000, drift=0.0):
        self.policy, self.seed = policy, seed
        self.drift = drift  # probability per step that time flows to the next deadline although threads are runnable
        self.rng = _random.Random(seed)
        self.drift_rng = _random.Random(seed * 7919 + 13)
        self.pre = {int(s): int(p) for s, p in preemptions}
        self.nudges = {int(s): k for s, k in nudges}
        self.resolved = []
        self.prio = {}
        self.change_points = set(self.rng.sample(range(1, max_steps), min(pct_depth, max_steps - 1))) if policy == "pct" else set()
        self.last = None

    def choose(self, step, runnable):
        n = len(runnable)
        if step in self.pre:
            i = self.pre[step] % n
        elif self.policy == "fifo":
            # keep running the current thread while it is runnable, else lowest spawn index
            i = 0
            for k, ts in enumerate(runnable):
                if ts is self.last:
                    i = k
                    break
        elif self.policy == "random":
            i = self.rng.randrange(n)
        else:  # pct
            for ts in runnable:
                if ts.index not in self.prio:
                    self.prio[ts.index] = self.rng.random() + 1.0
            if step in self.change_points and self.last is not None:
                self.prio[self.last.index] = self.rng.random() * 0.5
            i = max(range(n), key=lambda k: self.prio[runnable[k].index])
        self.last = runnable[i]
        self.resolved.append(i)
        return i

    def nudge(self, step):
        k = self.nudges.get(step)
        if k is None and self.drift and self.drift_rng.random() < self.drift:
            k = "drift"  # computation takes time: sleeping threads may wake up while others are still runnable
        return k


class ReplayChooser:
    def __init__(self, resolved, nudges=()):
        self.list = list(resolved)
        self.nudges = {int(s): k for s, k in nudges}
        self.resolved = []
        self.k = 0

    def choose(self, step, runnable):
        i = self.list[self.k] % len(runnable) if self.k < len(self.list) else 0
        self.k += 1
        self.resolved.append(i)
        return i

    def nudge(self, step):
        return self.nudges.get(step)


# --------------------------------------------------------------------------------------------- cooperative primitives

class VTime:
    @staticmethod
    def sleep(d):
        w = WORLD
        ts = w.me() if w is not None else None
        if ts is None:
            return
        f = sys._getframe(1)
        ts.where = None
        while f is not None:
            fn = f.f_code.co_filename.replace("\\", "/")
            if "/pynetdicom/" in fn:
                ts.where = f"{fn.rsplit('/', 1)[-1][:-3]}.{f.f_code.co_name}"
                break
            f = f.f_back
        w.yield_("sleep", pred=_never, timeout=max(d, w.quantum))

    @staticmethod
    def time():
        return WORLD.now + WORLD.wall_offset

    @staticmethod
    def monotonic():
        return WORLD.now

    perf_counter = monotonic


def _never():
    return False


class VQueue(_queue.Queue):
    def get(self, block=True, timeout=None):
        w = WORLD
        if block and w is not None and w.me() is not None:
            if self.qsize() == 0:
                w.yield_("queue.get", pred=lambda: self.qsize() > 0, timeout=timeout)
                if self.qsize() == 0:
                    raise _queue.Empty
            return super().get(False)
        return super().get(block and w is None, timeout)


class VEvent:
    def __init__(self):
        self._f = False

    def is_set(self):
        return self._f

    def set(self):
        self._f = True

    def clear(self):
        self._f = False

    def wait(self, timeout=None):
        if self._f:
            return True
        w = WORLD
        if w is None or w.me() is None:
            return self._f
        w.yield_("event.wait", pred=lambda: self._f, timeout=timeout)
        return self._f


class VLock:
    def __init__(self):
        self.held = False
        self.owner = None

    def acquire(self, blocking=True, timeout=-1):
        w = WORLD
        if self.held:
            if not blocking:
                return False
            if w is None or w.me() is None:
                return False
            w.yield_("lock.acquire", pred=lambda: not self.held, timeout=None if timeout in (-1, None) else timeout)
            if self.held:
                return False
        self.held = True
        self.owner = w.me().name if (w is not None and w.me() is not None) else "controller"
        return True

    def release(self):
        self.held = False
        self.owner = None

    def locked(self):
        return self.held

    def __enter__(self):
        self.acquire()
        return self

    def __exit__(self, *a):
        self.release()


# --------------------------------------------------------------------------------------------- virtual network

class Pipe:
    __slots__ = ("chunks", "closed")

    def __init__(self):
        self.chunks = []
        self.closed = False  # writer side closed / shut down

    def size(self):
        return sum(len(c) for c in self.chunks)


class VSocket:
    def __init__(self, family=None, type=None, *a, **k):
        self.rx = None
        self.tx = None
        self.closed = False
        self.timeout = None
        self.addr = ("127.0.0.1", 0)
        self.peer = None
        self.conn_id = None
        self.side = None

    # --- API used by pynetdicom / socketserver
    def setsockopt(self, *a):
        pass

    def settimeout(self, t):
        self.timeout = t

    def gettimeout(self):
        return self.timeout

    def bind(self, addr):
        w = WORLD
        w.next_port += 1
        self.addr = (addr[0] or "127.0.0.1", addr[1] or w.next_port)

    def getsockname(self):
        return self.addr

    def getpeername(self):
        if self.peer is None:
            raise OSError(107, "Transport endpoint is not connected")
        return self.peer.addr

    def fileno(self):
        return -1 if self.closed else 7

    def connect(self, addr):
        w = WORLD
        if self.closed:
            raise OSError(9, "Bad file descriptor")
        port = addr[1]
        if port in w.blackholes:
            w.yield_("sock.connect", pred=_never, timeout=self.timeout)
            raise TimeoutError("timed out")
        cb = w.listeners.get(port)
        if cb is None:
            raise ConnectionRefusedError(111, "Connection refused")
        a, b = Pipe(), Pipe()
        srv = VSocket()
        srv.addr = (addr[0], port)
        srv.rx, srv.tx = a, b
        self.rx, self.tx = b, a
        self.peer, srv.peer = srv, self
        if self.addr[1] == 0:
            w.next_port += 1
            self.addr = (self.addr[0], w.next_port)
        w.conn_count += 1
        self.conn_id = srv.conn_id = w.conn_count
        self.side, srv.side = "client", "server"
        w.sockets.append(self)
        w.sockets.append(srv)
        cb(srv, self.addr)

    def recv(self, n):
        w = WORLD
        if self.closed:
            raise OSError(9, "Bad file descriptor")
        if self.rx is None:
            raise OSError(107, "Transport endpoint is not connected")
        if not self.rx.chunks and not self.rx.closed:
            w.yield_("sock.recv", pred=lambda: bool(self.rx.chunks) or self.rx.closed or self.closed, timeout=self.timeout)
        if self.closed:
            raise OSError(9, "Bad file descriptor")
        if self.rx.chunks:
            c = self.rx.chunks[0]
            out = bytes(c[:n])
            del c[:n]
            if not c:
                self.rx.chunks.pop(0)
            return out
        if self.rx.closed:
            return b""
        raise TimeoutError("timed out")

    def send(self, b):
        w = WORLD
        if self.closed:
            raise OSError(9, "Bad file descriptor")
        if self.tx is None:
            raise OSError(107, "Transport endpoint is not connected")
        if self.tx.closed:
            raise BrokenPipeError(32, "Broken pipe")
        if self.peer.closed:
            raise ConnectionResetError(104, "Connection reset by peer")
        b = bytes(b)
        if b:
            self.tx.chunks.append(bytearray(b))
            w.tap.append((round(w.now, 6), self.conn_id, self.side, b))
        return len(b)

    def sendall(self, b):
        self.send(b)

    def shutdown(self, how):
        if self.closed:
            raise OSError(9, "Bad file descriptor")
        if self.tx is None:
            raise OSError(107, "Transport endpoint is not connected")
        if how in (_socket.SHUT_WR, _socket.SHUT_RDWR):
            self.tx.closed = True

    def close(self):
        if not self.closed:
            self.closed = True
            if self.tx is not None:
                self.tx.closed = True
            if WORLD is not None:
                WORLD.tap.append((round(WORLD.now, 6), self.conn_id, self.side, None))

    def readable(self):
        if self.closed:
            raise ValueError("file descriptor cannot be a negative integer (-1)")
        return self.rx is not None and (bool(self.rx.chunks) or self.rx.closed)

    def __enter__(self):
        return self

    def __exit__(self, *a):
        self.close()


def vselect(r, w, x, timeout=None):
    return ([s for s in r if s.readable()], [], [])


_SOCK_NAMES = ("AF_INET", "AF_INET6", "SOCK_STREAM", "SOCK_DGRAM", "SOL_SOCKET", "SO_REUSEADDR", "SHUT_RDWR", "SHUT_WR", "SHUT_RD",
               "AI_PASSIVE", "getaddrinfo", "gaierror", "AddressFamily", "timeout", "error")


# --------------------------------------------------------------------------------------------- the world

class World:
    """with World(chooser) as w: w.spawn(fn, 'name'); w.run(); verdict = w.report()"""

    def __init__(self, chooser=None, quantum=QUANTUM, max_steps=6000, watch=WATCH, stuck_after=30.0):
        self.chooser = chooser or Chooser()
        self.quantum = quantum
        self.max_steps = max_steps
        self.watch = watch
        self.stuck_after = stuck_after
        self.now = 1000.0
        self.wall_offset = 0.0
        self.ts = {}
        self.order = []
        self.main = threading.Semaphore(0)
        self.steps = 0
        self.aborting = False
        self.trace = []
        self.keep_trace = False
        self.listeners = {}
        self.blackholes = set()
        self.sockets = []
        self.tap = []
        self.conn_count = 0
        self.next_port = 40000
        self.servers = []
        self.budget_exhausted = False
        self._saved = None
        self.on_step = None

    # ---- install / restore
    def __enter__(self):
        global WORLD
        if WORLD is not None:
            raise RuntimeError("nested World")
        import pynetdicom.ae as AEM
        import pynetdicom.association as A
        import pynetdicom.dimse as DM
        import pynetdicom.dul as D
        import pynetdicom.timer as TM
        import pynetdicom.transport as T

        self._saved = [(m, n, getattr(m, n)) for m, n in ((D, "time"), (A, "time"), (TM, "time"), (D, "queue"), (DM, "queue"),
                                                            (A, "threading"), (T, "threading"), (AEM, "threading"), (DM, "threading"),
                                                            (T, "socket"), (T, "select"))]
        WORLD = self
        threading.Thread.start = _patched_start
        threading.Thread.is_alive = _patched_is_alive
        D.time = A.time = TM.time = VTime
        qshim = types.SimpleNamespace(Queue=VQueue, Empty=_queue.Empty, Full=_queue.Full)
        D.queue = qshim
        DM.queue = qshim
        tshim = types.SimpleNamespace(Thread=threading.Thread, Event=VEvent, Lock=VLock, RLock=VLock, enumerate=venumerate,
                                      current_thread=threading.current_thread, main_thread=threading.main_thread, get_ident=threading.get_ident)
        A.threading = T.threading = AEM.threading = DM.threading = tshim
        T.socket = types.SimpleNamespace(**{k: getattr(_socket, k) for k in _SOCK_NAMES}, socket=VSocket)
        T.select = types.SimpleNamespace(select=vselect)
        return self

    def __exit__(self, *exc):
        global WORLD
        try:
            self.abort_all()
        finally:
            for m, n, v in self._saved:
                setattr(m, n, v)
            threading.Thread.start = _orig_start
            threading.Thread.is_alive = _orig_is_alive
            for s in self.servers:
                try:
                    s.socket.close()
                except Exception:
                    pass
            WORLD = None
        return False

    # ---- managed-thread side
    def me(self):
        return self.ts.get(threading.get_ident())

    def _prof(self, frame, ev, arg):
        if ev == "call":
            co = frame.f_code
            if co.co_name in self.watch and "pynetdicom" in co.co_filename:
                self.yield_(co.co_name)

    def yield_(self, label, pred=None, timeout=None):
        ts = self.me()
        if ts is None:
            return True
        prof = sys.getprofile()
        sys.setprofile(None)
        try:
            ts.label = label
            ts.pred = pred
            ts.deadline = (self.now + timeout) if (timeout is not None and pred is not None) else None
            ts.state = "blocked" if pred is not None else "ready"
            self.main.release()
            ts.sem.acquire()
            if self.aborting:
                raise Abort()
            return ts.ok
        finally:
            sys.setprofile(prof)

    def _spawn(self, thread):
        idx = len(self.order)
        tgt = getattr(thread, "_target", None)
        label = getattr(thread, "_vname", None) or (type(thread).__name__ if type(thread) is not threading.Thread else getattr(tgt, "__name__", "thread"))
        ts = TS(f"{label}#{idx}", thread, idx)
        run = thread.run

        def wrapped():
            self.ts[threading.get_ident()] = ts
            ts.sem.acquire()
            try:
                if self.aborting:
                    raise Abort()
                sys.setprofile(self._prof)
                run()
            except Abort:
                pass
            except BaseException as e:  # noqa
                ts.exc = (type(e).__name__, str(e), traceback.format_exc(), _exc_key(e))
            finally:
                sys.setprofile(None)
                ts.state = "done"
                self.main.release()

        thread.run = wrapped
        thread._vts = ts
        thread.daemon = True
        self.order.append(ts)
        _orig_start(thread)
        return ts

    def spawn(self, fn, name, *args):
        """Start a managed root thread (user script / raw peer)."""
        t = threading.Thread(target=fn, args=args)
        t._vname = name
        return self._spawn(t)

    # ---- controller side
    def _runnable(self):
        out = []
        for ts in self.order:
            if ts.state == "ready":
                out.append(ts)
            elif ts.state == "blocked":
                if ts.pred() or (ts.deadline is not None and ts.deadline <= self.now):
                    out.append(ts)
        return out

    def next_deadline(self):
        dl = [ts.deadline for ts in self.order if ts.state == "blocked" and ts.deadline is not None]
        return min(dl) if dl else None

    def run(self, max_steps=None, until=None, time_limit=None):
        """Run until quiescent (nothing runnable, no deadline), `until()` true, virtual `time_limit` passed, or the
        step budget is used. -> 'quiescent' | 'until' | 'time' | 'budget'"""
        max_steps = self.max_steps if max_steps is None else self.steps + max_steps
        while True:
            if until is not None and until():
                return "until"
            if self.steps >= max_steps:
                self.budget_exhausted = True
                return "budget"
            kind = self.chooser.nudge(self.steps)
            if kind is not None:
                self._nudge(kind)
            runnable = self._runnable()
            if not runnable:
                dl = self.next_deadline()
                if dl is None:
                    return "quiescent"
                if time_limit is not None and dl > time_limit:
                    self.now = max(self.now, time_limit)
                    return "time"
                self.now = max(self.now, dl)
                continue
            if time_limit is not None and self.now > time_limit:
                return "time"
            ts = runnable[self.chooser.choose(self.steps, runnable)]
            ts.ok = True if ts.pred is None else bool(ts.pred())
            ts.state = "running"
            self.steps += 1
            if self.keep_trace:
                self.trace.append((round(self.now, 4), ts.name, ts.label))
            ts.sem.release()
            if not self.main.acquire(timeout=self.stuck_after):
                raise HarnessStuck(f"thread {ts.name} did not yield within {self.stuck_after}s after '{ts.label}'")
            if self.on_step is not None:
                self.on_step(self)

    def _nudge(self, kind):
        dl = self.next_deadline()
        if kind == "wall+":
            self.wall_offset += 3600.0
        elif kind == "wall-":
            self.wall_offset -= 3600.0
        elif kind == "drift":
            # computation takes (a little) time: only deadlines that are close are overtaken
            if dl is not None and self.now < dl <= self.now + 2.5 * self.quantum:
                self.now = dl + 1e-4
        elif dl is not None and dl > self.now:
            eps = 1e-4
            if kind == "before":
                self.now = max(self.now, dl - eps)
            elif kind == "at":
                self.now = dl
            elif kind == "after":
                self.now = dl + eps

    def abort_all(self):
        self.aborting = True
        for ts in self.order:
            if ts.state != "done":
                ts.sem.release()
                self.main.acquire(timeout=5)

    # ---- network helpers
    def listen(self, port, callback):
        self.listeners[port] = callback

    def serve(self, ae, port, contexts=None, handlers=None, ae_title=None):
        """Real (Threaded)AssociationServer for `ae`; each virtual connection goes through its process_request()
        (ThreadingMixIn: one thread per connection, RequestHandler -> Association.start())."""
        from pynetdicom.transport import ThreadedAssociationServer

        srv = ThreadedAssociationServer(ae, ("127.0.0.1", 0), ae_title or ae.ae_title, contexts or ae.supported_contexts, evt_handlers=handlers or [])
        srv.daemon_threads = True
        srv.server_address = ("127.0.0.1", port)
        self.servers.append(srv)
        ae._servers.append(srv)
        self.listen(port, lambda sock, addr: srv.process_request(sock, addr))
        return srv

    # ---- verdict
    def report(self):
        threads = []
        for ts in self.order:
            st = ts.state
            if st == "blocked":
                st = "blocked-deadline" if ts.deadline is not None else "blocked-forever"
            threads.append({"name": ts.name, "kind": ts.kind, "state": st, "label": ts.label, "where": ts.where, "exc": ts.exc[:2] + (ts.exc[3],) if ts.exc else None})
        return {"threads": threads, "steps": self.steps, "now": round(self.now - 1000.0, 4), "budget": self.budget_exhausted}

    def exceptions(self):
        return [(ts.name, ts.exc) for ts in self.order if ts.exc]


def _exc_key(e):
    tb = traceback.extract_tb(e.__traceback__)
    fn = None
    for fr in tb:
        f = fr.filename.replace("\\", "/")
        if "/pynetdicom/" in f:
            fn = f"{f.rsplit('/', 1)[-1][:-3]}.{fr.name}"
    return f"{type(e).__name__}@{fn}"


def _patched_start(self):
    w = WORLD
    if w is not None and not w.aborting:
        w._spawn(self)
        # let the controller decide when the new thread first runs; the spawner continues
    else:
        _orig_start(self)


def _patched_is_alive(self):
    ts = getattr(self, "_vts", None)
    if ts is not None:
        return ts.state != "done"
    return _orig_is_alive(self)


def venumerate():
    return [t for t in _orig_enumerate() if getattr(t, "_vts", None) is None or t._vts.state != "done"]


# --------------------------------------------------------------------------------------------- raw peer

class RawPeer:
    """Scripted raw peer running in a managed thread. Ops (plain data):
    ["send", bytes] | ["send_chunks", bytes, [cuts]] | ["recv_pdu", timeout] | ["sleep", seconds] | ["close"] |
    ["shutdown_wr"] | ["wait_close", timeout] | ["recv_until_close", timeout]
    Received PDUs are appended to self.received as raw bytes; b"" marks EOF; None marks a timeout."""

    EXT = {}

    def __init__(self, world, script, port=None, sock=None, start=0):
        self.w, self.script, self.port, self.sock, self.start = world, [list(s) for s in script], port, sock, start
        self.received = []
        self.log = []
        self.error = None

    def _read_exact(self, n, timeout):
        buf = bytearray()
        self.sock.settimeout(timeout)
        while len(buf) < n:
            try:
                b = self.sock.recv(n - len(buf))
            except TimeoutError:
                return bytes(buf), "timeout"
            except OSError:
                return bytes(buf), "error"
            if not b:
                return bytes(buf), "eof"
            buf += b
        return bytes(buf), "ok"

    def recv_pdu(self, timeout):
        hdr, st = self._read_exact(6, timeout)
        if st != "ok":
            self.received.append(b"" if st in ("eof", "error") else None)
            return st
        ln = int.from_bytes(hdr[2:6], "big")
        body, st = self._read_exact(ln, timeout)
        if st != "ok":
            self.received.append(b"" if st in ("eof", "error") else None)
            return st
        self.received.append(hdr + body)
        return "ok"

    def run(self):
        try:
            if self.sock is None:
                if self.start:
                    VTime.sleep(self.start)
                self.sock = VSocket()
                self.sock.connect(("127.0.0.1", self.port))
            for op in self.script:
                k = op[0]
                self.log.append((round(self.w.now - 1000.0, 4), k))
                if k == "send":
                    try:
                        self.sock.send(bytes(op[1]))
                    except OSError as e:
                        self.log.append(("send-failed", type(e).__name__))
                elif k == "send_chunks":
                    data, prev = bytes(op[1]), 0
                    for c in sorted(set(c for c in op[2] if 0 < c < len(data))) + [len(data)]:
                        try:
                            self.sock.send(data[prev:c])
                        except OSError as e:
                            self.log.append(("send-failed", type(e).__name__))
                            break
                        prev = c
                        if len(op) > 3 and op[3]:
                            VTime.sleep(op[3])
                elif k == "recv_pdu":
                    self.recv_pdu(op[1])
                elif k == "sleep":
                    VTime.sleep(op[1])
                elif k == "close":
                    self.sock.close()
                elif k == "shutdown_wr":
                    try:
                        self.sock.shutdown(_socket.SHUT_WR)
                    except OSError:
                        pass
                elif k == "recv_idle":
                    while self.recv_pdu(op[1]) == "ok":
                        pass
                elif k in ("wait_close", "recv_until_close"):
                    while True:
                        st = self.recv_pdu(op[1])
                        if st != "ok":
                            break
                elif k in self.EXT:  # ops registered by a scenario engine: fn(peer, op)
                    self.EXT[k](self, op)
                else:
                    raise ValueError(k)
        except Abort:
            raise
        except Exception as e:  # a peer-script problem is a harness matter, surfaced by the caller
            self.error = (type(e).__name__, str(e), traceback.format_exc())
