"""Filesystem write recorder for sandboxed handler calls (serves C30).

* `recorder()` installs ONE `sys.addaudithook` per process (a hook can never be removed) and gates it with a flag:
  nothing is recorded outside `with rec.recording():`.
* Every audit event that creates, modifies, renames or removes a filesystem object is turned into
  `Write(event, path, cwd)`; paths are made absolute against the working directory at the time of the event.
  Reads are ignored.  fd-relative operations (dir_fd given) and operations on bare file descriptors cannot be resolved
  and are reported as `path=None` (the before/after snapshot still sees their effect inside the sandbox).
* `snapshot(root)` / `diff(before, after)`: content-level before/after comparison of a sandbox tree, the second,
  independent witness (catches writes done by C code without an audit event, e.g. SQLite's own file I/O).
"""
from __future__ import annotations

import contextlib
import hashlib
import os
import stat
import sys
import threading
from collections import namedtuple

Write = namedtuple("Write", "event path cwd")

_WRITE_FLAGS = os.O_WRONLY | os.O_RDWR | os.O_CREAT | os.O_TRUNC | os.O_APPEND

# event -> indexes of the arguments naming a filesystem object that is created / changed / removed
_PATH_ARGS = {
    "os.mkdir": (0,),
    "os.rmdir": (0,),
    "os.remove": (0,),
    "os.rename": (0, 1),
    "os.link": (1,),
    "os.symlink": (1,),
    "os.truncate": (0,),
    "os.chmod": (0,),
    "os.chown": (0,),
    "os.utime": (0,),
    "os.setxattr": (0,),
    "os.removexattr": (0,),
    "os.mkfifo": (0,),
    "os.mknod": (0,),
    "shutil.copyfile": (1,),
    "shutil.copymode": (1,),
    "shutil.copystat": (1,),
    "shutil.copytree": (1,),
    "shutil.move": (0, 1),
    "shutil.rmtree": (0,),
    "shutil.make_archive": (0,),
    "shutil.unpack_archive": (1,),
    "shutil.chown": (0,),
    "tempfile.mkstemp": (0,),
    "tempfile.mkdtemp": (0,),
    "sqlite3.connect": (0,),
}
# events whose dir_fd argument (index) makes the path relative to a descriptor
_DIR_FD = {"os.mkdir": 2, "os.rmdir": 1, "os.remove": 1, "os.chmod": 2, "os.symlink": 2, "os.utime": 3}


class Recorder:
    def __init__(self):
        self.on = False
        self.tid = None
        self.writes = []
        self.seen_events = set()

    def _hook(self, event, args):
        if not self.on or threading.get_ident() != self.tid:
            return
        try:
            if event == "open":
                path, _mode, flags = args[0], args[1], args[2]
                if not isinstance(flags, int) or not (flags & _WRITE_FLAGS):
                    return
                self._add(event, path)
            elif event in _PATH_ARGS:
                i = _DIR_FD.get(event)
                if i is not None and len(args) > i and args[i] not in (None, -1):
                    self.writes.append(Write(event, None, None))
                    return
                for j in _PATH_ARGS[event]:
                    if len(args) > j:
                        self._add(event, args[j])
        except Exception:  # an audit hook must never raise into the code under test
            self.writes.append(Write(event + ":hook-error", None, None))

    def _add(self, event, path):
        self.seen_events.add(event)
        if isinstance(path, int) or path is None:
            self.writes.append(Write(event, None, None))
            return
        try:
            path = os.fspath(path)
        except TypeError:
            self.writes.append(Write(event, None, None))
            return
        if isinstance(path, bytes):
            path = os.fsdecode(path)
        self.on = False  # os.getcwd() is itself harmless but keep the hook re-entrancy-free
        try:
            cwd = os.getcwd()
        finally:
            self.on = True
        if event == "sqlite3.connect" and (path == ":memory:" or path == ""):
            return
        if event == "sqlite3.connect" and path.startswith("file:"):
            path = path[5:].split("?", 1)[0]
        self.writes.append(Write(event, path if os.path.isabs(path) else os.path.join(cwd, path), cwd))

    @contextlib.contextmanager
    def recording(self):
        self.writes = []
        self.tid = threading.get_ident()
        self.on = True
        try:
            yield self.writes
        finally:
            self.on = False


_REC = None


def recorder():
    global _REC
    if _REC is None:
        _REC = Recorder()
        sys.addaudithook(_REC._hook)
    return _REC


def snapshot(root):
    """{relative path: (kind, size, mode, sha1 | link target)} for everything below root (root itself excluded)."""
    out = {}
    for dp, dns, fns in os.walk(root, followlinks=False):
        for name in dns + fns:
            p = os.path.join(dp, name)
            rel = os.path.relpath(p, root)
            st = os.lstat(p)
            if stat.S_ISLNK(st.st_mode):
                out[rel] = ("link", 0, 0, os.readlink(p))
            elif stat.S_ISDIR(st.st_mode):
                out[rel] = ("dir", 0, stat.S_IMODE(st.st_mode), "")
            elif stat.S_ISREG(st.st_mode):
                with open(p, "rb") as f:
                    h = hashlib.sha1(f.read()).hexdigest()
                out[rel] = ("file", st.st_size, stat.S_IMODE(st.st_mode), h)
            else:
                out[rel] = ("other", 0, stat.S_IMODE(st.st_mode), "")
    return out


def diff(before, after):
    """-> sorted list of (relative path, 'created' | 'removed' | 'modified')"""
    out = []
    for k in sorted(set(before) | set(after)):
        if k not in before:
            out.append((k, "created"))
        elif k not in after:
            out.append((k, "removed"))
        elif before[k] != after[k]:
            out.append((k, "modified"))
    return out


def inside(path, directory):
    """True when `path` resolves (symlinks, '..') to `directory` itself or to something below it."""
    rp = os.path.realpath(path)
    rd = os.path.realpath(directory)
    return rp == rd or rp.startswith(rd.rstrip(os.sep) + os.sep)
