"""Lifecycle scenario generators and history evaluators shared by C05, C06, C26, C27 (on top of engines/scenario.py).

Three scenario families (plain data, see engines/scenario.py):
  L1 'pair'   two pynetdicom AEs: requestor user script x acceptor handler behaviours x abort from a second thread
              (what AE.shutdown() does) on either side x small timeouts
  L2 'rawreq' scripted raw requestor (protocol-following with one deviation) vs pynetdicom acceptor
  L3 'rawacc' pynetdicom requestor vs scripted raw acceptor (protocol-following with one deviation)
"""
from __future__ import annotations

from engines import ps38ref as R
from engines import scenario as SC
from refs import fsm_ref as F


def _garbage_pdus():
    return [
        ("unknown-type", bytes([0x08, 0, 0, 0, 0, 4, 1, 2, 3, 4])),
        ("short-assoc", bytes([0x01, 0, 0, 0, 0, 4, 1, 2, 3, 4])),
        ("pdata-empty-pdv", bytes([0x04, 0, 0, 0, 0, 5, 0, 0, 0, 1, 1])),
        ("pdata-garbage-cmd", bytes([0x04, 0, 0, 0, 0, 10, 0, 0, 0, 6, 1, 3, 9, 9, 9, 9])),
        ("abort-reserved", bytes([0x07, 0, 0, 0, 0, 4, 0, 0, 3, 9])),
        ("rj-reserved", bytes([0x03, 0, 0, 0, 0, 4, 0, 9, 9, 9])),
    ]


def _protocol_pdus():
    return [
        ("RQ", R.ref_encode(SC.RAW_RQ)),
        ("AC", R.ref_encode(SC.RAW_AC)),
        ("RJ", R.ref_encode(R.AssocRJ(1, 1, 1))),
        ("RELRQ", R.ref_encode(R.ReleaseRQ())),
        ("RELRP", R.ref_encode(R.ReleaseRP())),
        ("ABORT0", R.ref_encode(R.Abort(0, 0))),
        ("ABORT2", R.ref_encode(R.Abort(2, 0))),
        ("ECHO", SC.dimse_bytes("echo", 9)),
        ("FIND", SC.dimse_bytes("find", 9)),
        ("STORE", SC.dimse_bytes("store", 9, nbytes=200, max_pdu=128)),
    ]


def _echo_rsp(msg_id=1, cid=1):
    from pynetdicom import dimse_messages as DM
    from pynetdicom import dimse_primitives as DP
    from pynetdicom.pdu import P_DATA_TF

    p = DP.C_ECHO()
    p.MessageIDBeingRespondedTo = msg_id
    p.AffectedSOPClassUID = SC.VERIFICATION
    p.Status = 0
    m = DM.C_ECHO_RSP()
    m.primitive_to_message(p)
    return b"".join(P_DATA_TF(pd).encode() for pd in m.encode_msg(cid, 16382))


def strategies():
    from hypothesis import strategies as st

    timeouts = st.fixed_dictionaries({"acse": st.sampled_from([1, 2]), "dimse": st.sampled_from([1, 2]), "network": st.sampled_from([2, 4]), "connection": st.just(2)})
    # two pynetdicom AEs: also no DIMSE timeout at all (the library default is 30 s; None = wait until the peer answers, aborts or the
    # connection goes - which a pynetdicom peer always does); not used against raw peers, where a silent peer would then legitimately block
    timeouts_pair = st.fixed_dictionaries({"acse": st.sampled_from([1, 2]), "dimse": st.sampled_from([1, 2, 2, None]), "network": st.sampled_from([2, 4]), "connection": st.just(2)})
    # steps at which the schedule is perturbed: biased to the first steps (thread start-up / negotiation races) and to the whole run
    step = st.one_of(st.integers(0, 40), st.integers(0, 300), st.integers(0, 2500))
    # (policy, drift) combinations, the most perturbing first (Hypothesis favours the first elements early in a run)
    combos = [("pct", 0.3), ("random", 0.05), ("pct", 0.05), ("random", 0.0), ("pct", 0.0), ("fifo", 0.0), ("random", 0.3), ("fifo", 0.05)]
    schedule = st.builds(
        lambda c, seed, pre, nud: {"policy": c[0], "drift": c[1], "seed": seed, "preemptions": pre, "nudges": nud},
        st.sampled_from(combos), st.integers(0, 10**6),
        st.lists(st.tuples(step, st.integers(0, 6)).map(list), max_size=8),
        st.lists(st.tuples(step, st.sampled_from(["before", "at", "after", "after", "wall+", "wall-"])).map(list), max_size=6),
    )
    delay = st.sampled_from([0, 0, 0.1, 0.6, 1.2, 2.5])
    do = st.sampled_from([None, None, None, "abort", "raise"])
    handlers = st.fixed_dictionaries({
        "echo": st.fixed_dictionaries({"delay": delay, "do": do}),
        "store": st.fixed_dictionaries({"delay": delay, "do": do}),
        "find": st.fixed_dictionaries({"n": st.integers(0, 4), "delay": delay, "do": do, "do_at": st.integers(0, 3)}),
    })
    op = st.one_of(st.just(["echo"]), st.tuples(st.just("store"), st.sampled_from([10, 5000])).map(list),
                   st.just(["find", None]), st.tuples(st.just("sleep"), st.sampled_from([0.1, 1.5, 3.0, 5.0])).map(list))
    end = st.sampled_from([["release"], ["release"], ["abort"], ["idle"], ["sleep", 6.0]])
    t_opt = st.one_of(st.none(), st.none(), st.sampled_from([0.0, 0.05, 0.2, 0.25, 0.6, 1.0, 2.0, 3.5]))

    # abort() from another thread released at the moment a given notification is being handled (None = not used)
    on_evt = st.sampled_from([None, None, None, None, "EVT_RELEASED", "EVT_RELEASED", "EVT_ESTABLISHED", "EVT_ACCEPTED", "EVT_REQUESTED", "EVT_ABORTED", "EVT_DIMSE_RECV", "EVT_ACSE_RECV"])
    on_evt_rq = st.sampled_from([None, None, None, None, None, "EVT_RELEASED", "EVT_ESTABLISHED", "EVT_ACSE_RECV", "EVT_DIMSE_SENT"])

    @st.composite
    def pair(draw):
        script = [["associate"]] + draw(st.lists(op, max_size=3)) + [draw(end)]
        return {
            "family": "pair",
            "timeouts": draw(timeouts_pair),
            "max_steps": 20000, "quantum": 0.1,
            "acceptor": {"kind": "pynetdicom", "handlers": draw(handlers), "shutdown_at": draw(t_opt), "abort_on": draw(on_evt)},
            "requestors": [{"kind": "pynetdicom", "script": script, "abort_at": draw(t_opt), "abort_on": draw(on_evt_rq)}],
            "schedule": draw(schedule),
        }

    proto = _protocol_pdus()
    garbage = _garbage_pdus()

    @st.composite
    def deviation(draw, sender):
        """ops a raw peer performs instead of the next protocol step"""
        k = draw(st.integers(0, 6))
        if k == 0:
            name, b = draw(st.sampled_from(proto))
            return [["send", b]], "pdu:" + name
        if k == 1:
            name, b = draw(st.sampled_from(garbage))
            return [["send", b]], "invalid:" + name
        if k == 2:
            return [["close"]], "close"
        if k == 3:
            return [["sleep", draw(st.sampled_from([1.5, 3.0, 6.0]))]], "silence"
        if k == 4:
            name, b = draw(st.sampled_from(proto))
            cut = draw(st.integers(1, max(len(b) - 1, 1)))
            then = draw(st.sampled_from(["close", "stall", "continue"]))
            ops = [["send", b[:cut]]]
            if then == "close":
                ops.append(["close"])
            elif then == "stall":
                ops.append(["sleep", 6.0])
            else:
                ops += [["sleep", draw(st.sampled_from([0.1, 1.0]))], ["send", b[cut:]]]
            return ops, f"partial:{name}:{then}"
        if k == 5:
            a, b = draw(st.sampled_from(proto)), draw(st.sampled_from(proto))
            return [["send", a[1] + b[1]]], f"two:{a[0]}+{b[0]}"
        return [["shutdown_wr"]], "half-close"

    @st.composite
    def rawreq(draw):
        nreq = draw(st.integers(0, 2))
        base = [["send", R.ref_encode(SC.RAW_RQ)], ["recv_pdu", 6]]
        for i in range(nreq):
            kind = draw(st.sampled_from(["echo", "find", "store"]))
            base.append(["send", SC.dimse_bytes(kind, i + 1, nbytes=draw(st.sampled_from([10, 2000])), max_pdu=draw(st.sampled_from([16382, 96])))])
            base.append(["recv_idle", draw(st.sampled_from([0.3, 1.0]))])
        base += [["send", R.ref_encode(R.ReleaseRQ())], ["recv_pdu", 6]]
        pos = draw(st.integers(0, len(base)))
        dev, label = draw(deviation("requestor")) if draw(st.integers(0, 5)) else ([], "none")
        script = base[:pos] + dev if dev else base
        if not script or script[-1][0] != "close":
            script = script + [["recv_until_close", 8], ["close"]]
        return {
            "family": "rawreq", "deviation": label, "dev_pos": pos if dev else None,
            "timeouts": draw(timeouts), "max_steps": 20000, "quantum": 0.1,
            "acceptor": {"kind": "pynetdicom", "handlers": draw(handlers), "shutdown_at": draw(t_opt)},
            "requestors": [{"kind": "raw", "script": script}],
            "schedule": draw(schedule),
        }

    @st.composite
    def rawacc(draw):
        ops = draw(st.lists(op, max_size=2))
        script_user = [["associate"]] + ops + [draw(end)]
        base = [["recv_pdu", 6], ["send", R.ref_encode(SC.RAW_AC)]]
        n = 0
        for o in ops:
            if o[0] == "echo":
                n += 1
                base += [["recv_idle", 0.3], ["send", _echo_rsp(n, 1)]]
            elif o[0] in ("store", "find"):
                n += 1
                base += [["recv_idle", 0.3]]  # never answered: the requestor's DIMSE timeout fires
            elif o[0] == "sleep":
                base += [["sleep", o[1]]]
        rel = draw(st.integers(0, 3))
        if rel == 0:
            base += [["recv_pdu", 8]]  # the release request is never answered (ACSE timeout in Sta7 -> abort)
        elif rel == 1:
            base += [["recv_pdu", 8], ["send", R.ref_encode(R.ReleaseRQ())], ["recv_pdu", 3], ["send", R.ref_encode(R.ReleaseRP())]]  # release collision
        else:
            base += [["recv_pdu", 8], ["send", R.ref_encode(R.ReleaseRP())]]
        pos = draw(st.integers(0, len(base)))
        dev, label = draw(deviation("acceptor")) if draw(st.integers(0, 5)) else ([], "none")
        script = base[:pos] + dev if dev else base
        if not script or script[-1][0] != "close":
            script = script + [["recv_until_close", 8], ["close"]]
        return {
            "family": "rawacc", "deviation": label, "dev_pos": pos if dev else None,
            "timeouts": draw(timeouts), "max_steps": 20000, "quantum": 0.1,
            "acceptor": {"kind": "raw", "script": script},
            "requestors": [{"kind": "pynetdicom", "script": script_user, "abort_at": draw(t_opt)}],
            "schedule": draw(schedule),
        }

    return pair(), rawreq(), rawacc()


# ------------------------------------------------------------------------------------------------ evaluators

def pynetdicom_threads(rep):
    return [t for t in rep["threads"] if not (t["name"].startswith("raw-") )]


def time_bound(sc):
    """virtual seconds within which any scenario of the lifecycle families must be over (every timeout twice + scripted delays)"""
    to = sc["timeouts"]
    return 2 * (to["acse"] + (to["dimse"] or 0) + to["network"]) + (to["connection"] or 0) + 14.0


def livelock(out, bound, factor=3.0):
    """A run that exhausted its step budget is inconclusive - unless the virtual clock is far beyond every configured timeout
    (`factor` x the time bound the property allows) while pynetdicom threads are still alive: nothing bounded by a timeout can
    take that long, so some thread is polling without a deadline (pynetdicom waits by polling in kill(), release(), stop_dul() ...).
    -> key naming the polling functions, or None."""
    rep = out["report"]
    if out["how"] != "budget" or rep["now"] <= factor * bound:
        return None
    alive = [t for t in pynetdicom_threads(rep) if t["state"] != "done" and not t["exc"]]
    if not alive:
        return None
    spots = sorted({f"{t['kind']}@{t.get('where') or t['label']}" for t in alive if t["label"] == "sleep"}) or sorted({f"{t['kind']}@{t['label']}" for t in alive})
    return "livelock:" + "+".join(spots)


def died(rep):
    """threads of pynetdicom (incl. user scripts calling its API) that ended with an exception"""
    return [t for t in pynetdicom_threads(rep) if t["exc"]]


def transitions_of(rec, key):
    return [e[3] for e in rec.events if e[1] == key and e[2] == "EVT_FSM_TRANSITION"]


def classify_run(out):
    """labels describing what happened (for non-triviality rules)."""
    labels = set()
    recs = [out["_rec_acc"]] + [r["_rec"] for r in out["requestors"] if "_rec" in r]
    for rec in recs:
        for e in rec.events:
            if e[2] == "EVT_FSM_TRANSITION":
                s0, ev, act, s1 = e[3]
                if ev in ("Evt15", "Evt11", "Evt9", "Evt14") and s0 != "Sta6":
                    labels.add("local-request-outside-Sta6")
                if act.startswith("AA-"):
                    labels.add("abort-path")
                if ev == "Evt18":
                    labels.add("artim-expiry")
                if ev == "Evt17":
                    labels.add("transport-loss")
                if act in ("AR-8", "AR-9", "AR-10"):
                    labels.add("release-collision")
            elif e[2] == "EVT_ABORTED":
                labels.add("aborted")
            elif e[2] == "EVT_RELEASED":
                labels.add("released")
            elif e[2] == "EVT_REJECTED":
                labels.add("rejected")
    return labels


def fsm_history_failures(rec):
    """I2: every recorded transition is a Table 9-10 pair and transitions chain from Sta1 (per association)."""
    fails = []
    keys = sorted({e[1] for e in rec.events})
    for k in keys:
        cur = "Sta1"
        for (s0, ev, act, s1) in transitions_of(rec, k):
            if s0 != cur:
                fails.append(("fsm-chain", f"{ev}/{s0}", f"assoc {k}: transition {(s0, ev, act, s1)} does not start in {cur}"))
                break
            if F.action_for(s0, ev) != act:
                fails.append(("fsm-table", f"{ev}/{s0}", f"assoc {k}: transition {(s0, ev, act, s1)} is not in Table 9-10"))
                break
            cur = s1
    return fails
