#!/bin/bash
# Run (part of) the repository test suite. The suite binds fixed TCP ports, so only one pytest may run at a
# time on this machine: serialised through a lock file.  usage: repo_tests.sh <repo_dir> [pytest args...]
REPO=${1:-/repo}; shift
cd "$REPO" || exit 2
exec flock /var/tmp/pynetdicom-pytest.lock /venv/bin/python -m pytest -q -p no:cacheprovider --timeout=900 "$@"
