#!/bin/bash
export VERIF_EVIDENCE_DIR=${VERIF_EVIDENCE_DIR:-/var/tmp/evidence_scratch}  # exploratory run: do not touch /verif/evidence
# usage: quiet_matrix.sh "<seeds>" [tier] [ids...] : run every check at the given seeds; report exit code, VIOLATION/HARNESS/NOTE lines, time
cd /verif; SEEDS=${1:-"1 2 3 4 5"}; TIER=${2:-quick}; shift 2
IDS=${@:-$(seq -f "C%02g" 1 30)}
for id in $IDS; do for s in $SEEDS; do
  t0=$(date +%s); out=$(VERIF_SEED=$s /venv/bin/python check.py $id --tier $TIER 2>&1); rc=$?; t1=$(date +%s)
  echo "$id seed=$s tier=$TIER rc=$rc $((t1-t0))s $(echo "$out" | grep -E "^VIOLATION|HARNESS|^NOTE|violation clause" | head -3 | cut -c1-200 | tr '\n' '|')"
done; done
