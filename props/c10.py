"""C10 - acceptor-side presentation context negotiation follows PS3.8 and the documented role table.

Pure property-based test of pynetdicom.presentation.negotiate_as_acceptor / negotiate_unrestricted, called directly and
through ACSE._negotiate_as_acceptor (which chooses between them from _config.UNRESTRICTED_STORAGE_SERVICE), against
refs/negotiation_ref + refs/role_ref.
"""
from refs import negotiation_ref as NR
from refs import role_ref as RR
from vlib import sig
from vlib.core import HarnessError

LEVEL = "exploration"
RULE = (
    "Hypothesis draws: 0..12 (thorough: up to 128) proposed contexts with unique odd IDs, abstract syntaxes from a pool of "
    "2 storage classes, 5 non-storage classes, a private UID and an unknown public UID (duplicates allowed), 1..4 ordered "
    "transfer syntaxes from a pool of 6 (a labelled out-of-domain class has an EMPTY list); supported contexts with unique "
    "abstract syntaxes, ordered transfer syntaxes and scu_role/scp_role in {None, True, False}; role proposals (bool, bool) "
    "per abstract syntax or absent; UNRESTRICTED_STORAGE_SERVICE on/off; the negotiation function is called directly or "
    "through ACSE._negotiate_as_acceptor on a thread-free Association (A-ASSOCIATE request primitive in, accept primitive "
    "recorded). Results are compared with an independent model: one result per proposed ID with its abstract syntax, result "
    "code 3/4/1/0, accepted transfer syntax = acceptor's first preference among the common ones, acceptor as_scu/as_scp and "
    "the role reply items by the documented role table. Non-trivial = at least one accepted context whose abstract syntax has "
    "a role proposal, or one abstract syntax proposed twice with different outcomes; distinct = distinct case."
)
ASSUMPTIONS = [
    "result codes per PS3.8 Table 9-18: 0 acceptance, 1 user-rejection (used for 'no usable role'), 3 abstract syntax not "
    "supported, 4 transfer syntaxes not supported; precedence 3 > 4 > 1",
    "role outcome = refs/role_ref.py: reply = proposed AND accepted per role; acceptor SCP iff reply.scu, acceptor SCU iff "
    "reply.scp; (0,0) -> rejected; no proposal, or an acceptor role left None -> default roles and no reply item "
    "(docs/user/presentation_role_selection.rst, docs/user/ae_scp.rst, PS3.7 D.3.3.4); self-checked against the 9 documented rows",
    "unrestricted storage mode (docstring of _config.UNRESTRICTED_STORAGE_SERVICE): storage, private and unknown-public "
    "abstract syntaxes are claimed by the storage service and accepted with ONE of the proposed transfer syntaxes; other "
    "abstract syntaxes negotiate as in normal mode. For claimed contexts only these are asserted: no role proposal -> "
    "default roles (acceptor SCP only) and no reply; proposal (False, False) -> not accepted; proposal with scu=True -> "
    "accepted; when accepted with a proposal the reply grants nothing that was not proposed, is not (0,0) and matches the "
    "acceptor's own as_scu/as_scp. Proposal (False, True) may be accepted or rejected (not documented)",
    "which abstract syntaxes the storage service claims is fixed per pool entry by DICOM knowledge (CT/MR Image Storage: "
    "storage; Verification, Patient Root FIND/GET, Modality Worklist, Storage Commitment: not; non-DICOM-root UID: private; "
    "1.2.840.10008.5.1.4.1.1.9999.1: unknown public)",
    "the transfer syntax echoed in a REJECTED result item is not significant (PS3.8 9.3.3.2) and is not checked",
    "proposals with an empty transfer-syntax list (a peer can send them; the API cannot) are out of the property's domain: "
    "only 'no exception, and that context is not accepted' is asserted for them",
]
SHARDS = {"quick": 1, "thorough": 16}
MIN_NONTRIVIAL = 100

STORAGE = ["1.2.840.10008.5.1.4.1.1.2", "1.2.840.10008.5.1.4.1.1.4"]
NON_STORAGE = [
    "1.2.840.10008.1.1",  # Verification
    "1.2.840.10008.5.1.4.1.2.1.1",  # Patient Root Q/R FIND
    "1.2.840.10008.5.1.4.1.2.1.3",  # Patient Root Q/R GET
    "1.2.840.10008.5.1.4.31",  # Modality Worklist FIND
    "1.2.840.10008.1.20.1",  # Storage Commitment Push Model
]
PRIVATE = "1.2.826.0.1.3680043.8.498.1"
UNKNOWN_PUBLIC = "1.2.840.10008.5.1.4.1.1.9999.1"
ABSTRACT_POOL = STORAGE + NON_STORAGE + [PRIVATE, UNKNOWN_PUBLIC]
TS_POOL = [
    "1.2.840.10008.1.2",
    "1.2.840.10008.1.2.1",
    "1.2.840.10008.1.2.2",
    "1.2.840.10008.1.2.4.50",
    "1.2.840.10008.1.2.1.99",
    "1.2.826.0.1.3680043.8.498.2",
]


def storage_like(ab):
    return ab in STORAGE or ab == PRIVATE or ab == UNKNOWN_PUBLIC


def _pk(p):
    return "none" if p is None else "".join("T" if x else "F" for x in p)


def _ak(a):
    return "".join("N" if x is None else ("T" if x else "F") for x in a)


# ----------------------------------------------------------------------------------------- running the implementation
def _mk_cx(cid, ab, tss, scu=None, scp=None):
    from pynetdicom.presentation import PresentationContext

    c = PresentationContext()
    if cid is not None:
        c.context_id = cid
    c.abstract_syntax = ab
    c.transfer_syntax = list(tss)
    if scu is not None:
        c.scu_role = scu
    if scp is not None:
        c.scp_role = scp
    return c


def _run_direct(case):
    from pynetdicom import presentation as P

    rq = [_mk_cx(cid, ab, tss) for cid, ab, tss in case["proposed"]]
    ac = [_mk_cx(None, ab, tss, scu, scp) for ab, tss, scu, scp in case["supported"]]
    roles = {ab: (bool(scu), bool(scp)) for ab, scu, scp in case["roles"]} or None
    fn = P.negotiate_unrestricted if case["unrestricted"] else P.negotiate_as_acceptor
    res, rr = fn(rq, ac, roles)
    return res, rr, None


def _run_acse(case):
    from pynetdicom import AE, _config
    from pynetdicom.association import Association
    from pynetdicom.pdu_primitives import (
        A_ASSOCIATE,
        ImplementationClassUIDNotification,
        MaximumLengthNotification,
        SCP_SCU_RoleSelectionNegotiation,
    )

    a = Association(AE(), "acceptor")
    sent = []
    a.dul.send_pdu = sent.append
    rq = A_ASSOCIATE()
    rq.application_context_name = "1.2.840.10008.3.1.1.1"
    rq.calling_ae_title = "REQUESTOR"
    rq.called_ae_title = "ACCEPTOR"
    rq.presentation_context_definition_list = [_mk_cx(cid, ab, tss) for cid, ab, tss in case["proposed"]]
    ml = MaximumLengthNotification()
    ml.maximum_length_received = 16382
    ic = ImplementationClassUIDNotification()
    ic.implementation_class_uid = "1.2.826.0.1.3680043.8.498.3"
    items = [ml, ic]
    for ab, scu, scp in case["roles"]:
        r = SCP_SCU_RoleSelectionNegotiation()
        r.sop_class_uid = ab
        r.scu_role = bool(scu)
        r.scp_role = bool(scp)
        items.append(r)
    rq.user_information = items
    a.requestor.primitive = rq
    a.acceptor.supported_contexts = [_mk_cx(None, ab, tss, scu, scp) for ab, tss, scu, scp in case["supported"]]
    old = _config.UNRESTRICTED_STORAGE_SERVICE
    _config.UNRESTRICTED_STORAGE_SERVICE = bool(case["unrestricted"])
    try:
        a.acse._negotiate_as_acceptor()
    finally:
        _config.UNRESTRICTED_STORAGE_SERVICE = old
    acc = [p for p in sent if isinstance(p, A_ASSOCIATE)]
    if len(sent) != 1 or len(acc) != 1 or acc[0].result != 0:
        return None, None, f"expected exactly one A-ASSOCIATE (accept) primitive, got {[type(p).__name__ for p in sent]}"
    prim = acc[0]
    res = list(prim.presentation_context_definition_results_list)
    rr = [i for i in prim.user_information if isinstance(i, SCP_SCU_RoleSelectionNegotiation)]
    # the association's own view must be the one it sent
    acc_ids = sorted(c.context_id for c in res if c.result == 0)
    if sorted(a._accepted_cx) != acc_ids:
        return res, rr, f"assoc._accepted_cx has IDs {sorted(a._accepted_cx)} but the accept primitive accepts {acc_ids}"
    if not a.is_established:
        return res, rr, "association not established after sending the accept primitive"
    return res, rr, None


# ----------------------------------------------------------------------------------------- the check
def check_neg(ctx, case):
    proposed, unrestricted, via = case["proposed"], case["unrestricted"], case["via"]
    mode = "unrestricted" if unrestricted else "normal"
    has_empty = any(len(tss) == 0 for _c, _a, tss in proposed)
    exp, exp_replies = NR.expect(case, storage_like)
    roles = {ab: (bool(scu), bool(scp)) for ab, scu, scp in case["roles"]}
    accepts = {ab: (scu, scp) for ab, _t, scu, scp in case["supported"]}
    classes = {"mode:" + mode, "via:" + via, "n:" + ("0" if not proposed else "1-3" if len(proposed) <= 3 else "4-12" if len(proposed) <= 12 else "13+")}
    if has_empty:
        classes.add("empty-transfer-syntax-list")
    abstracts = [ab for _c, ab, _t in proposed]
    if len(set(abstracts)) < len(abstracts):
        classes.add("duplicate-abstract")

    def finish(nontrivial):
        ctx.note(case, nontrivial=nontrivial, classes=sorted(classes))

    try:
        res, rr, problem = (_run_acse if via == "acse" else _run_direct)(case)
    except HarnessError:
        raise
    except Exception as e:
        finish(False)
        if has_empty:
            if ctx.is_known("empty-transfer-syntax", sig.exc_key(e)):
                ctx.exclude("case with an empty transfer-syntax list aborted by a known-finding exception (nothing else checkable)")
            ctx.fail("empty-transfer-syntax", sig.exc_key(e), f"a proposed context without transfer syntaxes makes negotiation raise ({via})\n{sig.exc_text(e)}")
        else:
            ctx.fail("exception", f"{mode}:{sig.exc_key(e)}", f"negotiation raised ({via})\n{sig.exc_text(e)}")
        return
    if problem:
        finish(False)
        ctx.fail("acse", f"{mode}:" + problem.split(",")[0].split(" got")[0][:60], problem)
        return

    got = {}
    dup_ids = False
    for c in res:
        if c.context_id in got:
            dup_ids = True
        got[c.context_id] = c
    want_ids = sorted(exp)
    if dup_ids or sorted(got) != want_ids or len(res) != len(want_ids):
        finish(False)
        ctx.fail("one-result-per-id", f"{mode}:ids", f"proposed IDs {want_ids}, result IDs {[c.context_id for c in res]} ({via})")
        return

    reply_items = {}
    for r in rr:
        uid = str(r.sop_class_uid)
        if uid in reply_items:
            ctx.fail("reply", f"{mode}:duplicate-item", f"two role reply items for {uid}")
        reply_items[uid] = (r.scu_role, r.scp_role)

    outcomes = {}
    claimed_abs = set()
    accepted_with_proposal = False
    for cid in want_ids:
        e, c = exp[cid], got[cid]
        ab = e["abstract"]
        p = roles.get(ab)
        tss = [t for i, a_, t in proposed if i == cid][0]
        where = f"context {cid} ({ab}, proposed ts {tss}, role proposal {p}, supported as {[s for s in case['supported'] if s[0] == ab]}, {mode}, {via})"
        if str(c.abstract_syntax) != ab:
            ctx.fail("one-result-per-id", f"{mode}:abstract", f"result for {where} carries abstract syntax {c.abstract_syntax}")
        classes.add(f"result:{c.result}")
        outcomes.setdefault(ab, set()).add(c.result)
        ts_got = [str(t) for t in c.transfer_syntax]
        if c.result == 0:
            if p is not None:
                accepted_with_proposal = True
                classes.add("accepted-with-proposal:" + _pk(p))
            if not (c.as_scu or c.as_scp):
                ctx.fail("usable-role", f"{mode}:accepted-without-usable-role", f"{where} accepted with as_scu={c.as_scu} as_scp={c.as_scp}")
            if len(tss) == 0:
                ctx.fail("empty-transfer-syntax", f"{mode}:accepted", f"{where} accepted although no transfer syntax was proposed")
                continue
        if len(tss) == 0:
            continue  # out-of-domain context: handled without exception and not accepted - nothing else asserted
        if e["mode"] == "exact" and unrestricted:
            # Label for ONE root cause: the implementation hands a context of a known public non-storage class to the
            # unrestricted storage service (accepts it with the first proposed transfer syntax) although the model negotiates
            # it normally. The key carries the abstract syntax, so any other class being claimed is a different signature.
            deviates = c.result != e["result"] or (
                c.result == 0 and (ts_got != [e["ts"]] or (bool(c.as_scu), bool(c.as_scp)) != (e["ac_scu"], e["ac_scp"]))
            )
            claimed_roles = (True, True) if p is None else (p[1], p[0])  # what the storage-service branch is seen to assign
            if deviates and c.result == 0 and ts_got == [tss[0]] and (bool(c.as_scu), bool(c.as_scp)) == claimed_roles:
                claimed_abs.add(ab)
                if ctx.is_known("claimed", f"unrestricted:claimed-non-storage-class:{ab}"):
                    ctx.exclude("context of a non-storage class claimed by the unrestricted storage service (known finding); other contexts of the case checked")
                ctx.fail(
                    "claimed",
                    f"unrestricted:claimed-non-storage-class:{ab}",
                    f"{where}: accepted as if it belonged to the storage service (result 0, ts {ts_got}, as_scu={c.as_scu} as_scp={c.as_scp}); "
                    f"model: result {e['result']}" + (f", ts [{e['ts']}], as_scu={e['ac_scu']} as_scp={e['ac_scp']}" if e["result"] == 0 else ""),
                )
                continue
        if e["mode"] == "exact":
            if c.result != e["result"]:
                ctx.fail("result", f"{mode}:want={e['result']}:got={c.result}", f"{where}: result {c.result}, model says {e['result']}")
                continue
            if c.result == 0:
                if ts_got != [e["ts"]]:
                    kind = "not-acceptor-first-preference" if len(ts_got) == 1 and ts_got[0] in tss and ts_got[0] in accepts_ts(case, ab) else "not-common-or-not-single"
                    ctx.fail("transfer-syntax", f"{mode}:{kind}", f"{where}: accepted with {ts_got}, model says [{e['ts']}]")
                if (bool(c.as_scu), bool(c.as_scp)) != (e["ac_scu"], e["ac_scp"]):
                    ctx.fail(
                        "roles",
                        f"{mode}:proposal={_pk(p)}:accepts={_ak(accepts[ab])}",
                        f"{where}: acceptor as_scu={c.as_scu} as_scp={c.as_scp}, documented table says as_scu={e['ac_scu']} as_scp={e['ac_scp']}",
                    )
        else:
            classes.add("claimed-by-unrestricted-storage")
            if e["must_accept"] is True and c.result != 0:
                ctx.fail("result", "unrestricted:claimed-context-rejected", f"{where}: result {c.result} but the unrestricted storage service accepts all storage requests")
            if e["must_accept"] is False and c.result == 0:
                ctx.fail("usable-role", "unrestricted:accepted-without-usable-role", f"{where}: accepted although the requestor proposed neither role (as_scu={c.as_scu} as_scp={c.as_scp})")
            if c.result == 0:
                if len(ts_got) != 1 or ts_got[0] not in tss:
                    ctx.fail("transfer-syntax", "unrestricted:not-one-of-proposed", f"{where}: accepted with {ts_got}")
                if p is None:
                    if (bool(c.as_scu), bool(c.as_scp)) != (False, True):
                        ctx.fail(
                            "roles",
                            "unrestricted:proposal=none",
                            f"{where}: acceptor as_scu={c.as_scu} as_scp={c.as_scp} without any role negotiation; default roles are requestor SCU / acceptor SCP",
                        )
                elif p != (False, False):
                    r = reply_items.get(ab)
                    if r is None:
                        ctx.fail("reply", "unrestricted:missing", f"{where}: accepted with a role proposal but no reply item was produced")
                    elif r != (False, False) and not RR.consistent(r, bool(c.as_scu), bool(c.as_scp)):
                        ctx.fail("roles", f"unrestricted:inconsistent-with-reply:proposal={_pk(p)}", f"{where}: reply {r} but acceptor as_scu={c.as_scu} as_scp={c.as_scp}")

    # ---- role reply items
    for uid, r in sorted(reply_items.items()):
        p = roles.get(uid)
        if not isinstance(r[0], bool) or not isinstance(r[1], bool):
            ctx.fail("reply", f"{mode}:not-bool", f"reply item for {uid} has roles {r}")
            continue
        if p is None or uid not in exp_replies:
            ctx.fail("reply", f"{mode}:unsolicited", f"reply item {r} for {uid}, which has no role proposal / no proposed context")
            continue
        if (r[0] and not p[0]) or (r[1] and not p[1]):
            ctx.fail("reply", f"{mode}:grants-unproposed-role", f"reply item {r} for {uid} but the requestor proposed {p}")
        if 0 not in outcomes.get(uid, ()):
            ctx.fail("reply", f"{mode}:for-unaccepted-abstract-syntax", f"reply item {r} for {uid} none of whose contexts was accepted")
            continue
        kind, want = exp_replies[uid]
        if uid in claimed_abs:
            continue
        if kind == "exact" and unrestricted and r != want and r == p:
            # reply echoes the proposal: the storage-service treatment of a class the model negotiates normally (see above)
            ctx.fail("claimed", f"unrestricted:claimed-non-storage-class:{uid}", f"reply item {r} for {uid} echoes the proposal {p}; model: {want} (acceptor roles {accepts.get(uid)})")
            continue
        if kind == "exact":
            if want is None:
                ctx.fail("reply", f"{mode}:unexpected:proposal={_pk(p)}:accepts={_ak(accepts.get(uid, (None, None)))}", f"reply item {r} for {uid}; model: no reply (acceptor roles {accepts.get(uid)})")
            elif r != want:
                ctx.fail("reply", f"{mode}:value:proposal={_pk(p)}:accepts={_ak(accepts[uid])}", f"reply item {r} for {uid}; documented table gives {want}")
        else:
            if r == (False, False) and p != (False, False):
                ctx.fail("reply", "unrestricted:rejects-both-roles-of-accepted-context", f"reply item {r} for accepted {uid}, proposal {p}")
    for uid, (kind, want) in sorted(exp_replies.items()):
        if kind == "exact" and want is not None and uid not in reply_items and uid not in claimed_abs:
            if unrestricted:
                # in this mode the signature is deliberately coarse: one root cause (replies of normally negotiated contexts lost)
                ctx.fail("reply", "unrestricted:missing-for-normally-negotiated-context", f"no reply item for {uid} (proposal {roles.get(uid)}, acceptor roles {accepts[uid]}); documented table gives {want}")
            else:
                ctx.fail("reply", f"{mode}:missing:proposal={_pk(roles.get(uid))}:accepts={_ak(accepts[uid])}", f"no reply item for {uid}; documented table gives {want}")

    if any(len(v) > 1 for v in outcomes.values()):
        classes.add("duplicate-abstract-different-outcomes")
    finish(accepted_with_proposal or any(len(v) > 1 for v in outcomes.values()))


def accepts_ts(case, ab):
    for a, tss, _s, _p in case["supported"]:
        if a == ab:
            return list(tss)
    return []


CHECKS = {"neg": check_neg}


# ----------------------------------------------------------------------------------------- generation
def strategy(max_cx, empty_ts=False, min_cx=0):
    from hypothesis import strategies as st

    ab = st.sampled_from(ABSTRACT_POOL)
    ts_list = st.lists(st.sampled_from(TS_POOL), min_size=1, max_size=4, unique=True)
    ts_prop = ts_list if not empty_ts else st.one_of(ts_list, ts_list, st.just([]))
    role3 = st.sampled_from([None, True, False])

    @st.composite
    def case(draw):
        ids = draw(st.lists(st.integers(0, 127).map(lambda k: 2 * k + 1), min_size=min_cx, max_size=max_cx, unique=True))
        # bias the proposed abstract syntaxes towards a small subset so that duplicates and role hits occur
        sub = draw(st.lists(ab, min_size=1, max_size=5, unique=True))
        proposed = [[i, draw(st.sampled_from(sub)), draw(ts_prop)] for i in ids]
        sup_abs = draw(st.lists(st.one_of(st.sampled_from(sub), ab), min_size=0, max_size=6, unique=True))
        both = st.one_of(st.tuples(role3, role3), st.tuples(st.booleans(), st.booleans()))
        supported = []
        for a in sup_abs:
            scu, scp = draw(both)
            supported.append([a, draw(ts_list), scu, scp])
        role_abs = draw(st.lists(st.one_of(st.sampled_from(sub), ab), min_size=0, max_size=5, unique=True))
        roles = [[a, draw(st.booleans()), draw(st.booleans())] for a in role_abs]
        return {
            "proposed": proposed,
            "supported": supported,
            "roles": roles,
            "unrestricted": draw(st.booleans()),
            "via": draw(st.sampled_from(["direct", "acse"])),
        }

    return case()


def role_matrix():
    """Every (proposal, acceptor roles) combination x mode x route for a storage and a non-storage class (exhaustive part)."""
    out = []
    props = [None, (True, True), (True, False), (False, True), (False, False)]
    tri = [None, True, False]
    for ab in (STORAGE[0], NON_STORAGE[2], PRIVATE):
        for p in props:
            for scu in tri:
                for scp in tri:
                    for unr in (False, True):
                        for via in ("direct", "acse"):
                            out.append(
                                {
                                    "proposed": [[1, ab, [TS_POOL[1], TS_POOL[0]]], [3, NON_STORAGE[0], [TS_POOL[0]]]],
                                    "supported": [[ab, [TS_POOL[0], TS_POOL[1]], scu, scp], [NON_STORAGE[0], [TS_POOL[0]], None, None]],
                                    "roles": [] if p is None else [[ab, p[0], p[1]]],
                                    "unrestricted": unr,
                                    "via": via,
                                }
                            )
    return out


def run(ctx):
    RR.selfcheck()
    if ctx.shard == 0:
        ctx.each("neg", role_matrix())
    n = 2500 if ctx.quick else 6000
    ctx.hyp("neg", strategy(12), n)
    ctx.hyp("neg", strategy(4, min_cx=1), n)
    ctx.hyp("neg", strategy(6, empty_ts=True), n // 3)
    if not ctx.quick:
        ctx.hyp("neg", strategy(128), 150)
