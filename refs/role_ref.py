"""role_ref - SCP/SCU role selection outcome (C10/C11), written from

* PS3.7 D.3.3.4: without a role-selection reply the default roles apply (requestor SCU, acceptor SCP); in its reply the
  acceptor may only confirm (1) a role the requestor proposed (1): a role proposed as 0 is answered 0;
* pynetdicom's documented table docs/user/presentation_role_selection.rst ("role_selection_negotiation") and
  docs/user/ae_scp.rst: the acceptor's scu_role/scp_role say whether it ACCEPTS the proposed role; if either is None no
  reply is sent and the default roles are assumed; outcomes: default / inverted / both / rejected.

Compressed rule (reproduces every row of the documented table):
    reply = (proposed.scu AND accepts.scu, proposed.scp AND accepts.scp)
    requestor is SCU  <=> acceptor is SCP <=> reply.scu
    requestor is SCP  <=> acceptor is SCU <=> reply.scp
    reply == (False, False)  ->  no usable role: the context is rejected
Not a copy of pynetdicom.presentation.SCP_SCU_ROLES (which is never imported here).
"""

DEFAULT = {"accepted": True, "ac_scu": False, "ac_scp": True, "reply": None}


def outcome(proposal, accepts):
    """proposal: None (no role item for the abstract syntax) or (scu: bool, scp: bool) as proposed by the requestor.
    accepts:  (scu_role, scp_role) of the acceptor's supported context, each None/True/False.
    -> {"accepted": bool, "ac_scu": bool, "ac_scp": bool, "reply": None | (scu, scp)}"""
    if proposal is None or accepts[0] is None or accepts[1] is None:
        return dict(DEFAULT)
    reply = (bool(proposal[0]) and bool(accepts[0]), bool(proposal[1]) and bool(accepts[1]))
    if reply == (False, False):
        return {"accepted": False, "ac_scu": False, "ac_scp": False, "reply": None}
    return {"accepted": True, "ac_scu": reply[1], "ac_scp": reply[0], "reply": reply}


def consistent(reply, ac_scu, ac_scp):
    """Is the acceptor's own view (as_scu, as_scp) the one its reply item gives the requestor?"""
    return ac_scp == reply[0] and ac_scu == reply[1]


# The rows of the documented table, kept verbatim for a self-check of `outcome` (requestor scu, scp | acceptor scu, scp |
# requestor outcome, acceptor outcome); "-" = rejected.
DOC_TABLE = [
    ((True, True), (False, False), "-", "-"),
    ((True, True), (False, True), "SCP", "SCU"),
    ((True, True), (True, False), "SCU", "SCP"),
    ((True, True), (True, True), "SCU/SCP", "SCU/SCP"),
    ((True, False), (False, False), "-", "-"),
    ((True, False), (True, False), "SCU", "SCP"),
    ((False, True), (False, False), "-", "-"),
    ((False, True), (False, True), "SCP", "SCU"),
    ((False, False), (False, False), "-", "-"),
]


def _name(scu, scp):
    return {(True, True): "SCU/SCP", (True, False): "SCU", (False, True): "SCP", (False, False): "-"}[(scu, scp)]


def selfcheck():
    for prop, acc, rq_out, ac_out in DOC_TABLE:
        o = outcome(prop, acc)
        if not o["accepted"]:
            got = ("-", "-")
        else:
            got = (_name(o["ac_scp"], o["ac_scu"]), _name(o["ac_scu"], o["ac_scp"]))
        if got != (rq_out, ac_out):
            raise AssertionError(f"role_ref disagrees with the documented table at {prop} x {acc}: {got} != {(rq_out, ac_out)}")
    o = outcome(None, (True, True))
    assert o == DEFAULT and outcome((True, True), (None, True)) == DEFAULT
