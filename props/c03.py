"""C03 - PDU framing is independent of how TCP splits the byte stream (E2).

The real AssociationSocket.recv + DULServiceProvider._read_pdu_data read a generated PDU sequence from a scripted
socket that hands out the bytes in generated chunks (every raw recv returns at most the rest of the current chunk), with
an optional end-of-stream at any byte offset.
"""
from engines import ps38ref as R
from engines import vsock as V
from vlib import sig
from vlib.core import HarnessError

LEVEL = "exploration"
RULE = (
    "Hypothesis draws 1..6 conformant PDUs (E1 strategies, all 7 kinds), a cut list over the concatenated stream (uniform, "
    "plus cuts biased to offsets 1..6 of a PDU and +-1 around PDU boundaries, plus one-byte-at-a-time delivery) and an optional EOF "
    "offset. Oracle: the PDUs delivered by _read_pdu_data re-encode to exactly the sent PDU byte strings, in order, each with its "
    "own event; with EOF at offset k exactly the PDUs ending at or before k are delivered, followed by Evt17, never Evt19 or a partial PDU; "
    "without EOF nothing beyond the delivered PDUs is consumed. A second sub-check runs under E4 (virtual time): a raw requestor sends a valid "
    "conversation cut into generated segments with generated gaps, every gap shorter than the network timeout; the real acceptor must receive "
    "exactly the PDUs sent, answer every request and end released. "
    "Non-trivial = a cut strictly inside a 6-byte header, an EOF strictly inside a PDU, or (E4) >=2 segments with a non-zero gap; distinct = (pdu bytes, cuts, eof)."
)
ASSUMPTIONS = [
    "socket model of engines/vsock.py (recv returns at most one chunk; EOF readable; b'' at EOF)",
    "inter-chunk delays are not modelled in the synchronous sub-check; the E4 sub-check ('delays') covers gaps below the network timeout",
    "E4 substitution table (engines/dsched.py) for the 'delays' sub-check",
]
SHARDS = {"quick": 1, "thorough": 16}

EVENT_OF = {"AssocRQ": "Evt6", "AssocAC": "Evt3", "AssocRJ": "Evt4", "PData": "Evt10", "ReleaseRQ": "Evt12", "ReleaseRP": "Evt13", "Abort": "Evt16"}


def check_stream(ctx, case):
    pdus = [bytes(p) for p in case["pdus"]]
    kinds = case["kinds"]
    cuts = list(case["cuts"])
    eof = case["eof"]
    stream = b"".join(pdus)
    bounds = []
    o = 0
    for p in pdus:
        bounds.append((o, o + len(p)))
        o += len(p)
    in_header = any(any(b0 < c < b0 + 6 for b0, _ in bounds) for c in cuts if eof is None or c < eof)
    eof_inside = eof is not None and any(b0 < eof < b1 for b0, b1 in bounds)
    ctx.note(
        case,
        nontrivial=in_header or eof_inside,
        classes=[f"n={len(pdus)}", "eof" if eof is not None else "no-eof"] + (["cut-in-header"] if in_header else []) + (["eof-inside-pdu"] if eof_inside else []) + (["bytewise"] if len(cuts) >= len(stream) - 1 and len(stream) > 8 else []),
    )
    if eof is None:
        n_expect = len(pdus)
    else:
        n_expect = sum(1 for _, b1 in bounds if b1 <= eof)

    with V.installed():
        h = V.SyncDUL(mode="acceptor", state="Sta6")
        raw, dul = h.raw, h.dul
        data = stream if eof is None else stream[:eof]
        raw.feed(data, cuts)
        raw.eof = eof is not None
        events, got = [], []
        stalled = False
        for _ in range(len(pdus) + 3):
            if not h.sock.ready:
                break
            try:
                dul._read_pdu_data()
            except V.Stall:
                stalled = True
                break
            except Exception as e:
                ctx.fail("exception", sig.exc_key(e), f"_read_pdu_data raised {e!r}\n{sig.exc_text(e)}")
                return
            while not dul.event_queue.empty():
                events.append(dul.event_queue.get(False))
            while not dul._recv_pdu.empty():
                got.append(dul._recv_pdu.get(False))
            if events and events[-1] in ("Evt17", "Evt19"):
                break
        if stalled:
            raise HarnessError("blocking read although every PDU is complete or followed by EOF")

        want_events = [EVENT_OF[k] for k in kinds[:n_expect]] + (["Evt17"] if eof is not None else [])
        if "Evt19" in events:
            ctx.fail("truncated-as-invalid", "Evt19", f"valid stream produced Evt19: events={events} want={want_events} cuts={cuts} eof={eof}")
            return
        if events != want_events:
            key = "missing-or-extra-pdu" if [e for e in events if e != "Evt17"] != want_events[:n_expect] else "evt17"
            ctx.fail("event-sequence", key, f"events={events} want={want_events} cuts={cuts[:20]} eof={eof} lens={[len(p) for p in pdus]}")
            return
        if len(got) != n_expect:
            ctx.fail("pdu-count", "count", f"{len(got)} PDUs delivered, expected {n_expect}")
            return
        for i, (pdu, want) in enumerate(zip(got, pdus)):
            try:
                enc = pdu.encode()
            except Exception as e:
                ctx.fail("exception", sig.exc_key(e), f"delivered PDU cannot be encoded: {e!r}")
                return
            if enc != want:
                ctx.fail("pdu-bytes", kinds[i], f"PDU #{i} ({kinds[i]}) differs from what was sent\n want={want.hex()[:400]}\n got ={enc.hex()[:400]}\n cuts={cuts[:20]}")
                return
        # nothing beyond the delivered PDUs (+ the partial one at EOF) may have been consumed
        if eof is None and raw.pending() != 0:
            ctx.fail("leftover", "unread", f"{raw.pending()} bytes left unread")


CHECKS = {"stream": check_stream}


def run(ctx):
    import dataclasses

    from hypothesis import strategies as st

    S = R.strategies()

    def canon(v):
        return dataclasses.replace(v, lead_called=0, lead_calling=0) if isinstance(v, R.AssocRQ) else v

    # AC contexts always carry one transfer syntax (C01 domain); values the reference round-trip accepts
    ac = st.builds(R.AssocAC, S.ae_title(), S.ae_title(), S.uid(), st.lists(st.builds(R.PCAC, S.cid, st.integers(0, 4), S.uid()), max_size=3), S.ac_items, st.just(1))
    pdu = st.one_of(S.assoc_rq(3, leads=False), ac, S.rj, S.pdata, S.pdata, st.just(R.ReleaseRQ()), st.just(R.ReleaseRP()), S.abort)

    @st.composite
    def cases(draw):
        vals = [canon(v) for v in draw(st.lists(pdu, min_size=1, max_size=6 if not ctx.quick else 4))]
        enc = [R.ref_encode(v) for v in vals]
        total = sum(len(e) for e in enc)
        starts, o = [], 0
        for e in enc:
            starts.append(o)
            o += len(e)
        mode = draw(st.integers(0, 5))
        cuts = set()
        if mode == 0 and total <= 600:
            cuts = set(range(1, total))
        elif mode == 1:
            cuts = set(draw(st.lists(st.integers(1, max(total - 1, 1)), max_size=12)))
        else:
            for s0 in starts:
                for d in draw(st.lists(st.integers(-1, 7), max_size=3)):
                    if 0 < s0 + d < total:
                        cuts.add(s0 + d)
            cuts |= set(draw(st.lists(st.integers(1, max(total - 1, 1)), max_size=4)))
        eof = None
        if draw(st.booleans()):
            if draw(st.booleans()):
                s0 = draw(st.sampled_from(starts + [total]))
                eof = min(max(s0 + draw(st.integers(-1, 7)), 0), total)
            else:
                eof = draw(st.integers(0, total))
        return {"pdus": enc, "kinds": [type(v).__name__ for v in vals], "cuts": sorted(cuts), "eof": eof}

    ctx.hyp("stream", cases(), 1200 if ctx.quick else 4000)


# ------------------------------------------------------------------------------------------------ E4: gaps between segments

def check_delays(ctx, case):
    """A raw requestor sends a valid conversation (A-ASSOCIATE-RQ, C-ECHO requests, A-RELEASE-RQ) cut into generated segments with
    generated virtual delays between segments, every gap shorter than the network timeout; the real acceptor must receive exactly the
    PDUs sent, answer every request and end released."""
    from engines import scenario as SC

    to = {"acse": 60, "dimse": 60, "network": case["network"], "connection": 5}
    pdus = [R.ref_encode(SC.RAW_RQ)] + [SC.dimse_bytes("echo", i + 1) for i in range(case["n_echo"])] + [R.ref_encode(R.ReleaseRQ())]
    script = []
    for i, p in enumerate(pdus):
        cuts = [c for c in case["cuts"][i] if 0 < c < len(p)]
        prev = 0
        for c in sorted(set(cuts)) + [len(p)]:
            script.append(["send", p[prev:c]])
            prev = c
            if c != len(p):
                script.append(["sleep", case["gap"]])
        script.append(["recv_pdu", 30])
    script += [["recv_until_close", 5], ["close"]]
    sc = {"timeouts": to, "max_steps": 80000, "quantum": 0.25, "acceptor": {"kind": "pynetdicom", "handlers": {}},
          "requestors": [{"kind": "raw", "script": script}], "schedule": {"policy": case["policy"], "seed": case["seed"], "preemptions": [], "nudges": []}}
    out = SC.run(sc)
    peer = out["raw"][0]
    if peer.error:
        raise HarnessError(f"raw peer failed: {peer.error}")
    n_seg = sum(len([c for c in cs if c > 0]) for cs in case["cuts"])
    longest = max((len([c for c in case["cuts"][i] if 0 < c < len(p)]) * case["gap"] for i, p in enumerate(pdus)), default=0)
    # the idle timer runs from the previous complete PDU: allow 0.75 s for the peer's own turn-around (virtual quanta) before this PDU starts
    slow = longest + 0.75 > case["network"]
    ctx.note(case, nontrivial=n_seg >= 2 and case["gap"] > 0, classes=["delays", out["how"], "pdu-slower-than-network-timeout" if slow else "pdu-faster-than-network-timeout"])
    if out["how"] == "budget":
        ctx.inconclusive += 1
        return
    died = [t for t in out["report"]["threads"] if t["exc"] and not t["name"].startswith("raw-")]
    if died:
        ctx.fail("thread-exception", f"{died[0]['kind']}:{died[0]['exc'][2]}", f"{died[0]['name']} died: {died[0]['exc'][:2]}")
        return
    got = [e[3] for e in out["_rec_acc"].events if e[2] == "EVT_PDU_RECV"]
    kinds = [(b[0] if b else b) for b in peer.received]
    key = "slow-pdu" if slow else "fast-pdu"
    if got != pdus:
        ctx.fail("pdus-received", key, f"acceptor received {len(got)} PDUs {[g[:1].hex() for g in got if isinstance(g, bytes)]}, {len(pdus)} were sent in segments with gaps of {case['gap']} s (< network timeout {case['network']} s); peer saw {kinds}; longest PDU took {longest} s")
        return
    want = [2] + [4] * case["n_echo"] + [6]
    if [k for k in kinds if k not in (b"", None)][: len(want)] != want:
        ctx.fail("answers", key, f"peer received {kinds}, expected AC, {case['n_echo']} C-ECHO responses and A-RELEASE-RP")


CHECKS["delays"] = check_delays
_run_sync = run


def run(ctx):
    from hypothesis import strategies as st

    _run_sync(ctx)

    @st.composite
    def case(draw):
        network = draw(st.sampled_from([2, 4]))
        n_echo = draw(st.integers(0, 2))
        gap = draw(st.sampled_from([0.0, 0.3, 0.9, 1.5])) if network == 2 else draw(st.sampled_from([0.0, 0.5, 1.9, 3.5]))
        cuts = [draw(st.lists(st.one_of(st.integers(1, 7), st.integers(1, 300)), max_size=4)) for _ in range(n_echo + 2)]
        return {"network": network, "n_echo": n_echo, "gap": gap, "cuts": cuts, "policy": draw(st.sampled_from(["fifo", "random"])), "seed": draw(st.integers(0, 9999))}

    ctx.hyp("delays", case(), 40 if ctx.quick else 400)
