"""e3kit - helpers on top of engines.syncassoc (E3) for the single-ended SCU/SCP checks C16, C18 and C24.

Nothing here imports pynetdicom tables as an oracle.  UIDs, transfer-syntax properties, the PDV message control
header (PS3.8 Annex E.2), the status categories (PS3.7 Annex C) and the data-set decoder (zlib + pydicom, which is
not the code under test) are written down / called here independently of pynetdicom.

* `split_messages(sent)`     structural split of the recorded primitives into DIMSE messages (command fragments,
                             data fragments, which P-DATA carried them) - no pynetdicom decoder involved
* `receiver_trace(sent, msg)` feeds the P-DATA of one message to a FRESH pynetdicom DIMSEMessage (the receiver
                             under test) and reports at which P-DATA it declared the message complete
* `tap_send_msg(assoc)`      records, for every primitive handed to the DIMSE provider, the state of its
                             data-set-like parameter (root-cause label for C16 keys)
* `mk_ds / ds_plain / ref_decode / ref_encode` plain-data <-> pydicom Dataset, independent decode/encode of a data set
* `lock_free(assoc)`         is ae._lock acquirable right now (non-blocking)?
"""
from __future__ import annotations

import zlib
from io import BytesIO

# --------------------------------------------------------------------------- UIDs (PS3.4 / PS3.6), own transcription
VERIFICATION = "1.2.840.10008.1.1"
CT = "1.2.840.10008.5.1.4.1.1.2"
MR = "1.2.840.10008.5.1.4.1.1.4"
SC = "1.2.840.10008.5.1.4.1.1.7"
PR_FIND = "1.2.840.10008.5.1.4.1.2.1.1"
PR_MOVE = "1.2.840.10008.5.1.4.1.2.1.2"
PR_GET = "1.2.840.10008.5.1.4.1.2.1.3"
SR_FIND = "1.2.840.10008.5.1.4.1.2.2.1"
SR_MOVE = "1.2.840.10008.5.1.4.1.2.2.2"
SR_GET = "1.2.840.10008.5.1.4.1.2.2.3"
FILM_SESSION = "1.2.840.10008.5.1.1.1"
PRINTER = "1.2.840.10008.5.1.1.16"
PRINT_META_GRAY = "1.2.840.10008.5.1.1.9"
MPPS = "1.2.840.10008.3.1.2.3.3"
UPS_PUSH = "1.2.840.10008.5.1.4.34.6.1"
UPS_WATCH = "1.2.840.10008.5.1.4.34.6.2"
UPS_PULL = "1.2.840.10008.5.1.4.34.6.3"
UPS_EVENT = "1.2.840.10008.5.1.4.34.6.4"
UPS_QUERY = "1.2.840.10008.5.1.4.34.6.5"
UPS_FAMILY_SUBST = (UPS_PULL, UPS_WATCH, UPS_EVENT, UPS_QUERY)  # docs/changelog/v1.5.2: Push may use any of these

# --------------------------------------------------------------------------- transfer syntaxes (PS3.5 Annex A / 10)
#   uid -> (implicit VR, little endian, deflated, encapsulated/compressed)
IVLE = "1.2.840.10008.1.2"
EVLE = "1.2.840.10008.1.2.1"
DEFL = "1.2.840.10008.1.2.1.99"
EVBE = "1.2.840.10008.1.2.2"
JPEG_BASELINE = "1.2.840.10008.1.2.4.50"
J2K_LOSSLESS = "1.2.840.10008.1.2.4.90"
RLE = "1.2.840.10008.1.2.5"
TS = {
    IVLE: (True, True, False, False),
    EVLE: (False, True, False, False),
    DEFL: (False, True, True, False),
    EVBE: (False, False, False, False),
    JPEG_BASELINE: (False, True, False, True),
    J2K_LOSSLESS: (False, True, False, True),
    RLE: (False, True, False, True),
}
UNCOMPRESSED = (IVLE, EVLE, DEFL, EVBE)


def ts_convertible(src, dst):
    """docs/user/presentation_requestor.rst: a data set can be sent under another transfer syntax only when both are
    uncompressed-or-deflated and the endianness stays the same; otherwise the transfer syntax must match exactly."""
    if src == dst:
        return True
    a, b = TS[src], TS[dst]
    if a[3] or b[3]:
        return False
    return a[1] == b[1]


# --------------------------------------------------------------------------- status categories (PS3.7 Annex C)
def is_pending(code):
    return code in (0xFF00, 0xFF01)


def category(code):
    """Only for the codes the generators use (unambiguous in PS3.7 Annex C / PS3.4 C.4)."""
    if code == 0x0000:
        return "success"
    if code in (0xFF00, 0xFF01):
        return "pending"
    if code == 0xFE00:
        return "cancel"
    if code in (0x0001, 0x0107, 0x0116) or 0xB000 <= code <= 0xBFFF:
        return "warning"
    if 0xA000 <= code <= 0xAFFF or 0xC000 <= code <= 0xCFFF or code in (0x0110, 0x0112, 0x0122, 0x0210, 0x0211, 0x0212):
        return "failure"
    return "unknown"


# --------------------------------------------------------------------------- recorded primitives -> messages
class Msg:
    """One DIMSE message as found on the recorder, by PDV structure only."""

    __slots__ = ("cid", "cmd", "cmd_complete", "data", "data_complete", "pdata", "errors", "pos")

    def __init__(self, pos):
        self.cid = []  # context id of every PDV
        self.cmd = b""
        self.cmd_complete = False
        self.data = []  # payload of every data PDV (without the control header)
        self.data_complete = False
        self.pdata = []  # indexes into `sent` of the P-DATA primitives that carried this message
        self.errors = []
        self.pos = pos  # index into `sent` of the first P-DATA

    @property
    def data_bytes(self):
        return b"".join(self.data)


def split_messages(sent):
    """-> list of ('msg', Msg) | ('other', primitive) in the order recorded.

    PS3.8 Annex E.2: first byte of a PDV = message control header, bit 0 = command (1) / data (0), bit 1 = last
    fragment.  A message = command fragments up to one marked last, then data fragments up to one marked last; a
    command PDV after a completed command starts the next message."""
    from pynetdicom.pdu_primitives import P_DATA

    out = []
    cur = None
    for i, p in enumerate(sent):
        if not isinstance(p, P_DATA):
            cur = None
            out.append(("other", p))
            continue
        for cid, pdv in p.presentation_data_value_list:
            if len(pdv) < 1:
                m = Msg(i)
                m.errors.append("empty-pdv")
                out.append(("msg", m))
                cur = None
                continue
            ctrl, payload = pdv[0], bytes(pdv[1:])
            is_cmd, last = bool(ctrl & 1), bool(ctrl & 2)
            if is_cmd:
                if cur is None or cur.cmd_complete:
                    cur = Msg(i)
                    out.append(("msg", cur))
                cur.cmd += payload
                cur.cmd_complete = last
            else:
                if cur is None or not cur.cmd_complete:
                    cur = Msg(i)
                    cur.errors.append("data-before-command")
                    cur.cmd_complete = True
                    out.append(("msg", cur))
                if cur.data_complete:
                    cur.errors.append("data-after-last-fragment")
                cur.data.append(payload)
                cur.data_complete = cur.data_complete or last
            cur.cid.append(cid)
            if not cur.pdata or cur.pdata[-1] != i:
                cur.pdata.append(i)
    return out


def messages(sent):
    return [m for k, m in split_messages(sent) if k == "msg"]


def command_values(msg):
    """Command set of a Msg -> {keyword: value} using the independent Implicit VR LE reader of refs.cmdfield_ref."""
    from refs import cmdfield_ref as C

    vals, _ = C.parse_command_set(msg.cmd)
    return vals


def receiver_trace(sent, msg):
    """Feed the P-DATA primitives of `msg` to a fresh pynetdicom DIMSEMessage.

    -> (completed_at, n, primitive | None, exception | None): completed_at = 0-based position (within the message's
    P-DATA list) at which decode_msg() first returned True, None if it never did; n = number of P-DATA fed."""
    from pynetdicom.dimse_messages import DIMSEMessage

    m = DIMSEMessage()
    done = None
    for j, i in enumerate(msg.pdata):
        try:
            r = m.decode_msg(sent[i])
        except Exception as e:  # reported by the caller
            return done, len(msg.pdata), None, e
        if r and done is None:
            done = j
            break
    prim = None
    if done is not None:
        try:
            prim = m.message_to_primitive()
        except Exception as e:
            return done, len(msg.pdata), None, e
    return done, len(msg.pdata), prim, None


# --------------------------------------------------------------------------- taps
_DS_PARAMS = (
    "DataSet",
    "Identifier",
    "AttributeList",
    "ModificationList",
    "EventInformation",
    "EventReply",
    "ActionInformation",
    "ActionReply",
)  # PS3.7 9.1 / 10.1: the parameters conveyed in the Data Set of a message


def param_state(primitive):
    """State of the data-set-like parameter of a primitive handed to the DIMSE provider."""
    if getattr(primitive, "_dataset_path", None):
        return "path"
    for name in _DS_PARAMS:
        if hasattr(primitive, name):
            v = getattr(primitive, name)
            if v is None:
                return "none"
            try:
                return "stream" if v.getvalue() else "empty-stream"
            except Exception:
                return "other"
    return "no-param"


def tap_send_msg(assoc):
    """Wrap assoc.dimse.send_msg (instance attribute, nothing in /repo is touched): -> list that receives
    (param_state, context_id, primitive class name, is_response) per call, in order."""
    log = []
    orig = assoc.dimse.send_msg

    def send_msg(primitive, context_id):
        log.append((param_state(primitive), context_id, type(primitive).__name__, primitive.MessageIDBeingRespondedTo is not None))
        return orig(primitive, context_id)

    assoc.dimse.send_msg = send_msg
    return log


def lock_free(assoc):
    lk = assoc.ae._lock
    if lk.acquire(blocking=False):
        lk.release()
        return True
    return False


def aborts(sent):
    from pynetdicom.pdu_primitives import A_ABORT, A_P_ABORT

    return [p for p in sent if isinstance(p, (A_ABORT, A_P_ABORT))]


# --------------------------------------------------------------------------- plain data <-> Dataset
#   element pool: keyword -> sample values (standard tags, unambiguous VR under implicit VR, no bulk data)
POOL = {
    "PatientName": ["", "Doe^John", "A", "CITIZEN^Jan^X^Dr"],
    "PatientID": ["", "1", "ID-0001", "x" * 17],
    "QueryRetrieveLevel": ["PATIENT", "STUDY", "IMAGE"],
    "StudyInstanceUID": ["1.2.3", "1.2.840.99999.1.2.3.4.5.6.7.8.9.10"],
    "StudyDate": ["", "20200101"],
    "Rows": [0, 1, 512, 65535],
    "Columns": [7, 256],
    "InstanceNumber": ["", "1", "123456"],
    "NumberOfCopies": ["1", "3"],
    "PrintPriority": ["HIGH", "LOW"],
    "FilmSessionLabel": ["", "label one"],
    "StudyDescription": ["", "abc", "y" * 63],
    "FailedSOPInstanceUIDList": [[], ["1.2.3"], ["1.2.3", "1.2.4.5"]],
    "ReferencedSOPSequence": [[], [{"ReferencedSOPClassUID": CT, "ReferencedSOPInstanceUID": "1.2.3.4"}]],
}
POOL_KEYS = tuple(POOL)


def mk_ds(elems):
    """[[keyword, value], ...] -> Dataset (value for a sequence = list of {keyword: value})."""
    from pydicom import Dataset

    ds = Dataset()
    for kw, v in elems:
        if kw.endswith("Sequence"):
            items = []
            for it in v:
                d = Dataset()
                for k2 in sorted(it):
                    setattr(d, k2, it[k2])
                items.append(d)
            setattr(ds, kw, items)
        else:
            setattr(ds, kw, list(v) if isinstance(v, (list, tuple)) else v)
    return ds


def ds_plain(ds):
    """Dataset -> {tag 'ggggeeee': plain value} (recursive for sequences), for comparisons.
    Values are normalised: multi-values to lists, everything else through str() (PN, UID, IS, DS ...)."""
    out = {}
    for el in ds:
        key = f"{el.tag.group:04x}{el.tag.element:04x}"
        if el.VR == "SQ":
            out[key] = [ds_plain(it) for it in el.value]
        else:
            v = el.value
            if v is None:
                out[key] = ""
            elif isinstance(v, (list, tuple)) or type(v).__name__ == "MultiValue":
                out[key] = [str(x) for x in v] if len(v) else ""
            elif isinstance(v, bytes):
                out[key] = v.hex()
            else:
                out[key] = str(v)
    return out


def ref_decode(data, ts, force=True):
    """Decode data-set bytes under transfer syntax `ts` without pynetdicom (PS3.5 A.5: the deflated syntax is the
    explicit VR little endian encoding compressed as a raw RFC 1951 stream).  Raises on undecodable input.
    force=False: only the element structure is read (values stay raw), which is all a lazy reader can refuse."""
    from pydicom.filereader import read_dataset

    imp, little, deflated, _ = TS[ts]
    if deflated:
        data = zlib.decompress(data, -zlib.MAX_WBITS)
        imp, little = False, True
    ds = read_dataset(BytesIO(data), imp, little)
    if force:
        ds_plain(ds)  # force the conversion of every raw element
    return ds


def ref_encode(ds, ts):
    from pydicom.filebase import DicomBytesIO
    from pydicom.filewriter import write_dataset

    imp, little, deflated, _ = TS[ts]
    fp = DicomBytesIO()
    fp.is_implicit_VR, fp.is_little_endian = imp, little
    write_dataset(fp, ds)
    b = fp.getvalue()
    if deflated:
        c = zlib.compressobj(zlib.Z_DEFAULT_COMPRESSION, zlib.DEFLATED, -zlib.MAX_WBITS)
        b = c.compress(b) + c.flush()
        if len(b) % 2:
            b += b"\x00"
    return b


def decodable(data, ts, force=True):
    try:
        ref_decode(data, ts, force)
        return True
    except Exception:
        return False


# byte strings that are NOT a data set under the given family (checked at run time with `decodable`)
GARBAGE = [
    b"\x08\x00\x40\x11\xff\xff\xff\xff\x01\x02\x03\x04\x05\x06\x07\x08",  # undefined-length SQ followed by junk
    b"\x10\x00\x10\x00ZZ\x02\x00ab",  # unknown explicit VR
    b"\x00\x10\x00\x10ZZ\x00\x02ab",  # the same, big endian
    b"\x00\x08\x11\x40SQ\x00\x00\xff\xff\xff\xff\x01\x02\x03\x04\x05\x06\x07\x08",  # big endian explicit SQ + junk
    b"\xff" * 16,
    b"\x28\x00\x10\x00\x03\x00\x00\x00abc\x00",
]


def undecodable_for(ts):
    """A byte string whose element structure cannot even be read under `ts` (None if the pool has none)."""
    for g in GARBAGE:
        if not decodable(g, ts, force=False):
            return g
    return None
