#!/bin/bash
# usage: regen_evidence.sh [P] : run every registered quick command (VERIF_SEED=1) against /repo so that evidence/<ID>.json is what the
# registered commands write; P checks at a time. Prints one line per check; exit 1 if any check did not exit 0.
cd /verif; unset VERIF_EVIDENCE_DIR VERIF_REPO; export VERIF_SEED=1; P=${1:-3}
seq -f "C%02g" 1 30 | xargs -P $P -I{} bash -c 'out=$(/venv/bin/python check.py {} --tier quick 2>&1); rc=$?; echo "{} rc=$rc $(echo "$out" | grep -E "^VIOLATION|HARNESS" | head -2 | tr "\n" "|")"' | sort | tee /var/tmp/regen_evidence.log
! grep -qv "rc=0" /var/tmp/regen_evidence.log
