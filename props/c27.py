"""C27 - event notifications form a well-formed history (E4 lifecycle scenarios, invariants over recorded histories)."""
from engines import lifecycle as L
from engines import scenario as SC
from vlib.core import HarnessError

LEVEL = "exploration"
RULE = (
    "The C05/C06 lifecycle scenario generators (two pynetdicom AEs; raw requestor vs acceptor; requestor vs raw acceptor; protocol deviations, "
    "aborts from handlers and other threads, small timeouts, fifo/random/PCT schedules with preemptions and clock nudges). Every notification "
    "event of every association is recorded in order. Oracle per association: FSM transitions chain from Sta1; EVT_CONN_OPEN is the first notification (a requestor's EVT_ACSE_SENT/EVT_REQUESTED excepted) and no data/PDU notification follows EVT_CONN_CLOSE; EVT_CONN_OPEN and EVT_CONN_CLOSE at most once each, and exactly one EVT_CONN_CLOSE once a connection was "
    "opened and the run is quiescent; EVT_ESTABLISHED at most once and before any EVT_RELEASED/EVT_ABORTED; the concatenated EVT_DATA_SENT and "
    "EVT_PDU_SENT payloads equal the bytes this side put on the wire; every PS3.8-conformant PDU reported by EVT_DATA_RECV is also reported by EVT_PDU_RECV; EVT_PDU_RECV/EVT_DATA_RECV payloads are, in order, PDUs framed in the bytes "
    "the peer put on the wire. Non-trivial = history with an abort or a transport loss."
)
ASSUMPTIONS = [
    "E4 substitution table (engines/dsched.py); the wire tap of the virtual sockets is the ground truth for 'crossed the wire'",
    "runs in which a pynetdicom thread died with an exception are attributed to C05 and only counted here",
    "'connection-open precedes everything else': on the acceptor EVT_CONN_OPEN must be the first notification; on the requestor only "
    "EVT_ACSE_SENT/EVT_REQUESTED (issued before the TCP connect) may precede it",
]
SHARDS = {"quick": 1, "thorough": 16}
DATAISH = ("EVT_DATA_SENT", "EVT_DATA_RECV", "EVT_PDU_SENT", "EVT_PDU_RECV")


def _frames(stream):
    out, o = [], 0
    while o + 6 <= len(stream):
        n = 6 + int.from_bytes(stream[o + 2 : o + 6], "big")
        if stream[o] not in (1, 2, 3, 4, 5, 6, 7) or o + n > len(stream):
            break
        out.append(bytes(stream[o : o + n]))
        o += n
    return out


def _subsequence(small, big):
    it = iter(big)
    return all(any(x == y for y in it) for x in small)


def check_history(ctx, sc):
    out = SC.run(sc)
    rep = out["report"]
    for p in out["raw"]:
        if p.error:
            raise HarnessError(f"raw peer failed: {p.error}")
    labels = L.classify_run(out)
    nt = bool(labels & {"aborted", "transport-loss"})
    ctx.note(sc, nontrivial=nt, classes=[sc["family"], sc["schedule"]["policy"], out["how"]] + sorted(labels))
    if out["how"] == "budget":
        ctx.inconclusive += 1  # (a livelock is C05's / C06's clause)
        return
    if L.died(rep):
        ctx.exclude("thread-died(C05)")
        return
    sent = {"client": b"", "server": b""}
    for t, cid, side, b in out["tap"]:
        if cid == 1 and b is not None:
            sent[side] += b
    sides = []
    if sc["acceptor"]["kind"] == "pynetdicom":
        sides.append(("acceptor", out["_rec_acc"], "server", "client"))
    if sc["requestors"][0]["kind"] == "pynetdicom":
        sides.append(("requestor", out["requestors"][0]["_rec"], "client", "server"))
    for name, rec, me, peer in sides:
        for clause, key, msg in L.fsm_history_failures(rec):
            ctx.fail(clause, f"{name}:{key}", msg)
            return
        keys = sorted({e[1] for e in rec.events})
        if len(keys) > 1:
            raise HarnessError("single-connection scenario produced several associations on one side")
        ev = [e for e in rec.events]
        names = [e[2] for e in ev]
        n_open, n_close = names.count("EVT_CONN_OPEN"), names.count("EVT_CONN_CLOSE")
        if n_open > 1:
            ctx.fail("conn-open-count", name, f"{name}: EVT_CONN_OPEN fired {n_open} times")
        if n_close > 1:
            ctx.fail("conn-close-count", f"{name}:{n_close}", f"{name}: EVT_CONN_CLOSE fired {n_close} times; history {_hist(ev)}")
        if n_open == 1 and n_close == 0 and out["how"] == "quiescent":
            trs = [e[3][2] for e in ev if e[2] == "EVT_FSM_TRANSITION"]
            last_fsm = [e[3] for e in ev if e[2] == "EVT_FSM_TRANSITION"][-1:] or [None]
            key = f"{name}:killed-before-first-pdu" if set(trs) <= {"AE-5"} else f"{name}:last={last_fsm[0][2]}"
            if name == "requestor" and set(trs) <= {"AE-1"}:
                key = "requestor:killed-during-first-action"  # stop_dul() saw Sta1 while AE-1 (connect) was in progress
            if name == "requestor" and any(e[3][0] == "Sta5" and e[3][2] == "AA-8" for e in ev if e[2] == "EVT_FSM_TRANSITION"):
                key = "requestor:provider-abort-in-Sta5"  # one root cause: _negotiate_as_requestor stops the provider while it waits in Sta13
            ctx.fail("conn-close-missing", key, f"{name}: connection opened but EVT_CONN_CLOSE never fired; history {_hist(ev)}")
        if n_open:
            i_open = names.index("EVT_CONN_OPEN")
            allowed_before = ("EVT_ACSE_SENT", "EVT_REQUESTED") if name == "requestor" else ()
            early = [n for n in names[:i_open] if n not in allowed_before]
            if early:
                ctx.fail("before-conn-open", f"{name}:{early[0]}", f"{name}: {early} notified before EVT_CONN_OPEN")
        elif any(n in DATAISH for n in names):
            ctx.fail("before-conn-open", f"{name}:no-open", f"{name}: data/PDU notifications without EVT_CONN_OPEN: {_hist(ev)}")
        if n_close:
            i_close = names.index("EVT_CONN_CLOSE")
            late = [n for n in names[i_close + 1 :] if n in DATAISH or n == "EVT_CONN_OPEN"]
            if late:
                ctx.fail("after-conn-close", f"{name}:{late[0]}", f"{name}: {late} notified after EVT_CONN_CLOSE; history {_hist(ev)}")
        if names.count("EVT_ESTABLISHED") > 1:
            ctx.fail("established-count", name, f"{name}: EVT_ESTABLISHED fired {names.count('EVT_ESTABLISHED')} times")
        if "EVT_ESTABLISHED" in names:
            i_est = names.index("EVT_ESTABLISHED")
            bad = [n for n in names[:i_est] if n in ("EVT_RELEASED", "EVT_ABORTED")]
            if bad:
                ctx.fail("terminal-before-established", f"{name}:{bad[0]}", f"{name}: {bad} before EVT_ESTABLISHED; history {_hist(ev)}")
        # notifications vs wire
        pdu_sent = b"".join(e[3] for e in ev if e[2] == "EVT_PDU_SENT" and isinstance(e[3], bytes))
        data_sent = b"".join(e[3] for e in ev if e[2] == "EVT_DATA_SENT")
        if any(e[2] == "EVT_PDU_SENT" and not isinstance(e[3], bytes) for e in ev):
            ctx.fail("pdu-sent-unencodable", name, f"{name}: a PDU reported by EVT_PDU_SENT cannot be encoded")
        if data_sent != sent[me]:
            ctx.fail("data-sent-vs-wire", name, f"{name}: EVT_DATA_SENT payloads ({len(data_sent)} bytes) != bytes written ({len(sent[me])} bytes)")
        if pdu_sent != sent[me]:
            ctx.fail("pdu-sent-vs-wire", name, f"{name}: EVT_PDU_SENT payloads ({len(pdu_sent)} bytes) != bytes written ({len(sent[me])} bytes): {_kinds(pdu_sent)} vs {_kinds(sent[me])}")
        peer_frames = _frames(sent[peer])
        got_data = [e[3] for e in ev if e[2] == "EVT_DATA_RECV"]
        got_pdu = [e[3] for e in ev if e[2] == "EVT_PDU_RECV" and isinstance(e[3], bytes)]
        if not _subsequence(got_data, peer_frames):
            ctx.fail("data-recv-vs-wire", name, f"{name}: EVT_DATA_RECV payloads are not PDUs framed in the peer's byte stream, in order")
        # the other direction: a PDU that was read off the wire (EVT_DATA_RECV) and conforms to PS3.8 must also be reported as a PDU
        from engines import ps38ref as R8

        def conformant(b):
            try:
                _v, used = R8.ref_parse(bytes(b), strict=True)
                return used == len(b)
            except R8.Reject:
                return False

        want_kinds = [bytes(b)[:1] for b in got_data if conformant(b)]
        # (a reported PDU the recorder could not re-encode counts as a report of any kind)
        have_kinds = [(e[3][:1] if isinstance(e[3], bytes) else None) for e in ev if e[2] == "EVT_PDU_RECV"]
        it_have = iter(have_kinds)
        if not all(any(h is None or h == w for h in it_have) for w in want_kinds):
            ctx.fail("pdu-recv-missing", name, f"{name}: conformant PDUs read off the wire (EVT_DATA_RECV: {[k.hex() for k in want_kinds]}) were not all reported by EVT_PDU_RECV ({[k.hex() for k in have_kinds]})")
        if not _subsequence(got_pdu, peer_frames):
            ctx.fail("pdu-recv-vs-wire", name, f"{name}: EVT_PDU_RECV PDUs do not re-encode to PDUs of the peer's byte stream, in order: {[g[:1].hex() for g in got_pdu]} vs {[f[:1].hex() for f in peer_frames]}")


def _hist(ev):
    return [(e[2].replace("EVT_", ""), e[3] if e[2] == "EVT_FSM_TRANSITION" else None) for e in ev if e[2] not in ("EVT_DATA_SENT", "EVT_DATA_RECV", "EVT_DIMSE_SENT", "EVT_DIMSE_RECV")][-14:]


def _kinds(b):
    return [f[0] for f in _frames(b)]


CHECKS = {"history": check_history}


def run(ctx):
    pair, rawreq, rawacc = L.strategies()
    n = 50 if ctx.quick else 500
    ctx.hyp("history", pair, n)
    ctx.hyp("history", rawreq, n)
    ctx.hyp("history", rawacc, n)
