"""negotiation_ref - acceptor-side presentation context negotiation (C10), written from PS3.8 7.1.1.13 / 9.3.3.2
(Table 9-18 result/reason values) and the pynetdicom documentation (role selection: refs/role_ref.py; unrestricted storage
service: docstring of _config.UNRESTRICTED_STORAGE_SERVICE).

Normal mode, per proposed context (ID, abstract syntax, transfer syntaxes):
    abstract syntax not among the acceptor's supported contexts          -> result 3
    else no transfer syntax both proposed and supported                  -> result 4
    else role outcome (role_ref) has no usable role                      -> result 1
    else                                                                 -> result 0, transfer syntax = the first entry of the
                                                                            ACCEPTOR's list that was also proposed
    One result per proposed ID, carrying the proposed abstract syntax. Role reply items: one per abstract syntax that has an
    accepted context, a proposal, and acceptor roles both set; value = role_ref reply.

Unrestricted storage mode: "assume all presentation contexts with private or unknown public abstract syntaxes belong to the
storage service and accept all storage service requests"; supported storage contexts are ignored, other services negotiate
as in normal mode. For such "storage-like" contexts the documentation fixes less, so `expect()` returns constraints:
    no role proposal         -> accepted, default roles (acceptor SCP only), no reply item
    proposal (False, False)  -> must not be accepted (no usable role)
    proposal with scu=True   -> accepted; proposal (False, True) -> accepted or rejected, not asserted
    whenever accepted with a proposal: a reply item r with r <= proposal componentwise, r != (0,0), and the acceptor's own
    roles are the ones r gives it (role_ref.consistent)
    accepted transfer syntax: any ONE of the proposed ones.
"""
from . import role_ref

DICOM_ROOT = "1.2.840.10008."


def expect(case, storage_like):
    """case: {"proposed": [[id, abstract, [ts..]]..], "supported": [[abstract, [ts..], scu_role, scp_role]..],
              "roles": [[abstract, scu, scp]..], "unrestricted": bool}
    storage_like(abstract) -> bool: does the unrestricted storage service claim this abstract syntax?
    -> (per_id: {id: expectation}, replies: {abstract: expectation})

    expectation per id: {"abstract", "mode": "exact"|"unrestricted",
         exact:        "result", and when 0: "ts", "ac_scu", "ac_scp"
         unrestricted: "proposal", "must_accept": True|False|None, "ts_any": [..]}
    replies[abstract]: ("exact", None|(scu, scp)) or ("unrestricted", proposal)"""
    supported = {}
    for ab, tss, scu, scp in case["supported"]:
        supported[ab] = (list(tss), scu, scp)
    roles = {ab: (bool(scu), bool(scp)) for ab, scu, scp in case["roles"]}
    per_id = {}
    replies = {}
    for cid, ab, tss in case["proposed"]:
        tss = list(tss)
        proposal = roles.get(ab)
        if case["unrestricted"] and storage_like(ab):
            if proposal is None:
                must = True
            elif proposal == (False, False):
                must = False
            elif proposal[0]:
                must = True
            else:
                must = None
            per_id[cid] = {"abstract": ab, "mode": "unrestricted", "proposal": proposal, "must_accept": must, "ts_any": tss}
            replies[ab] = ("unrestricted", proposal)
            continue
        e = {"abstract": ab, "mode": "exact"}
        if ab not in supported:
            e["result"] = 3
        else:
            sup_ts, a_scu, a_scp = supported[ab]
            common = [t for t in sup_ts if t in tss]
            if not common:
                e["result"] = 4
            else:
                o = role_ref.outcome(proposal, (a_scu, a_scp))
                if not o["accepted"]:
                    e["result"] = 1
                else:
                    e.update(result=0, ts=common[0], ac_scu=o["ac_scu"], ac_scp=o["ac_scp"])
                    if o["reply"] is not None:
                        replies[ab] = ("exact", o["reply"])
        per_id[cid] = e
        replies.setdefault(ab, ("exact", None))
    return per_id, replies
