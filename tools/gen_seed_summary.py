#!/venv/bin/python
import json, glob, os
rows = []
for d in sorted(glob.glob("/verif/seeded/C*")):
    m = json.load(open(d + "/meta.json"))
    t = ""
    if os.path.exists(d + "/tests.txt"):
        lines = open(d + "/tests.txt").read().strip().splitlines()
        t = next((l for l in reversed(lines) if l.startswith("total failed:")), "")
    rows.append((m["property"], m["caught_by"], m.get("strengthening", ""), t))
with open("/verif/seeded/SUMMARY.md", "w") as f:
    f.write("# Independently seeded changes: one per property (see <ID>/meta.json, patch.diff, demo.py, tests.txt)\n\n")
    f.write("| property | caught by (quick tier, VERIF_REPO=<patched scratch worktree>) | check strengthened first? | repository suite on the patched tree |\n|---|---|---|---|\n")
    for r in rows:
        f.write(f"| {r[0]} | {r[1]} | {r[2] or 'no'} | {r[3]} |\n")
print(len(rows), "rows")
