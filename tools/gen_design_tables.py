#!/venv/bin/python
"""Rewrites the generated block of DESIGN.md (between the GENERATED markers): findings table, seeded-change table, mutant table."""
import json, glob, os, re, subprocess
V = "/verif"
kf = json.load(open(f"{V}/known_findings.json"))["findings"]
out = []
out.append("### 7.7 Generated tables (tools/gen_design_tables.py)\n")
out.append("**Defects repaired** (`fix:` commits in /repo; `status: fixed` in known_findings.json)\n")
out.append("| property | commit | what failed |\n|---|---|---|")
seen = set()
for e in kf:
    if e["status"] == "fixed":
        w = re.sub(r"^fixed: property=\S+ \S+ ", "", e["what"])
        k = (e.get("commit"), w[:60])
        if k in seen:
            continue
        seen.add(k)
        out.append(f"| {e['property']} | {e.get('commit','')} | {w[:230]} |")
out.append("\n**Defects recorded, not repaired** (`status: known`; minimal input under findings/)\n")
out.append("| property | signature (clause / key) | what fails |\n|---|---|---|")
for e in sorted((e for e in kf if e["status"] == "known"), key=lambda e: e["property"]):
    out.append(f"| {e['property']} | {e['clause']} / {e['key']} | {e['what'][:260]} |")
out.append("\n**Independently seeded changes** (seeded/<ID>/; quick tier against the patched scratch worktree)\n")
out.append("| property | verdict / clause that caught it | strengthening needed first |\n|---|---|---|")
for d in sorted(glob.glob(f"{V}/seeded/C*")):
    m = json.load(open(d + "/meta.json"))
    out.append(f"| {m['property']} | {m['caught_by'][:300]} | {(m.get('strengthening') or 'no')[:400]} |")
out.append("\n**Second to fifth round of independently seeded changes** (seeded/<ID>/r2A, r2B: two per property, different clauses; r3C: one more, least exercised corner; r4D: ten more for the weakest properties; r5E: eight more, changes that need something specific to manifest)\n")
out.append("| change | verdict / clause that caught it | note / strengthening needed first |\n|---|---|---|")
for d in sorted(glob.glob(f"{V}/seeded/C*/r[2345]*")):
    m = json.load(open(d + "/meta.json"))
    extra = "; ".join(x for x in (m.get("note") or "", ("strengthened first: " + m["strengthening"]) if m.get("strengthening") else "") if x)
    out.append(f"| {m['name']} | {m['caught_by'][:260]} | {extra[:420] or 'no'} |")
res = f"{V}/mutants/RESULTS.md"
if os.path.exists(res):
    out.append("\n**Hand-written mutants** (mutants/*.patch; see mutants/RESULTS.md for the last run)\n")
    rows = [l for l in open(res) if l.startswith("| C")]
    caught = sum("caught" in l for l in rows); missed = sum("MISSED" in l for l in rows); na = sum("does not apply" in l for l in rows)
    out.append(f"{len(rows)} mutants: {caught} caught, {missed} missed, {na} no longer apply to HEAD (the code they mutate was changed by a later fix).")
    for l in rows:
        if "MISSED" in l:
            out.append("* missed: " + l.strip())
block = "\n".join(out) + "\n"
p = f"{V}/DESIGN.md"
s = open(p).read()
B, E = "<!-- GENERATED:BEGIN -->", "<!-- GENERATED:END -->"
if B in s:
    s = s[: s.index(B) + len(B)] + "\n" + block + s[s.index(E):]
else:
    s = s.rstrip("\n") + f"\n\n{B}\n{block}{E}\n"
open(p, "w").write(s)
print("tables written:", len(out), "lines")
