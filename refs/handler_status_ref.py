"""handler_status_ref - what an SCP response sequence must look like for a scripted handler behaviour.

Written from the user documentation only (docs/service_classes/*.rst "pynetdicom ... Statuses" tables and the handler
documentation in pynetdicom/_handlers.py docstrings) plus PS3.7 Annex C for the status classes; nothing is imported
from pynetdicom.  The behaviour script format is the one of engines/scp_grammar.py.

    expected(case) -> list of Exp      one entry per response the documentation lets us predict, in order; the list
                                        stops (`open_end=True` on the last entry or an empty list) where the
                                        documentation stops being specific
"""
from __future__ import annotations

PENDING = (0xFF00, 0xFF01)  # PS3.7 Annex C / PS3.4 C.4.1.1.4: the only "more to come" statuses


def category(code):
    """PS3.7 Annex C status classes (own transcription)."""
    if not isinstance(code, int) or code < 0 or code > 0xFFFF:
        return "Invalid"
    if code == 0x0000:
        return "Success"
    if code in PENDING:
        return "Pending"
    if code == 0xFE00:
        return "Cancel"
    if code in (0x0001, 0x0107, 0x0116) or 0xB000 <= code <= 0xBFFF:
        return "Warning"
    if 0xA000 <= code <= 0xAFFF or 0xC000 <= code <= 0xCFFF:
        return "Failure"
    if 0x0100 <= code <= 0x01FF or 0x0200 <= code <= 0x02FF:
        return "Failure"
    return "Unknown"


# request type -> documented pynetdicom-specific failure codes (docs/service_classes/*.rst; _handlers.py docstrings)
#   no_status : handler gave a Dataset without (0000,0900) Status
#   bad_type  : handler gave something that is neither an int nor a Dataset
#   exception : handler raised
#   unencodable: the response dataset cannot be encoded
DOCUMENTED = {
    "C-STORE": {"no_status": 0xC001, "bad_type": 0xC002, "exception": 0xC211},
    "C-FIND": {"no_status": 0xC001, "bad_type": 0xC002, "exception": 0xC311, "unencodable": 0xC312},
    # DIMSE-N: only "handler not implemented (raises) -> 0x0110 Processing failure" is documented; for the other
    # cases the expectation is just "a Failure-class status"
    "N-GET": {"exception": 0x0110},
    "N-SET": {"exception": 0x0110},
    "N-ACTION": {"exception": 0x0110},
    "N-CREATE": {"exception": 0x0110},
    "N-DELETE": {"exception": 0x0110},
    "N-EVENT-REPORT": {"exception": 0x0110},
    # C-ECHO: the documentation names no code for invalid handler results -> nothing asserted
    "C-ECHO": {},
}

# optional status elements a response of this type can carry (PS3.7 9.1.x / 10.1.x status tables, Annex C):
#   (0000,0902) Error Comment everywhere, (0000,0901) Offending Element for the composite services,
#   (0000,0903) Error ID for the normalized services
OPTIONAL = {
    "C-ECHO": ("ErrorComment",),
    "C-STORE": ("ErrorComment", "OffendingElement"),
    "C-FIND": ("ErrorComment", "OffendingElement"),
    "N-GET": ("ErrorComment", "ErrorID"),
    "N-SET": ("ErrorComment", "ErrorID"),
    "N-ACTION": ("ErrorComment", "ErrorID"),
    "N-CREATE": ("ErrorComment", "ErrorID"),
    "N-DELETE": ("ErrorComment", "ErrorID"),
    "N-EVENT-REPORT": ("ErrorComment", "ErrorID"),
}
OPTIONAL_TAG = {"ErrorComment": 0x00000902, "OffendingElement": 0x00000901, "ErrorID": 0x00000903}

# statuses for which a DIMSE-N response carries the handler's dataset ("If the status category is 'Success' or
# 'Warning' then a Dataset ...", _handlers.py); restricted to the codes PS3.7 10.1.x lists for that service
N_DATASET_STATUS = {
    "N-GET": (0x0000, 0x0107),
    "N-SET": (0x0000, 0x0107, 0x0116),
    "N-CREATE": (0x0000, 0x0107, 0x0116),
    "N-ACTION": (0x0000,),
    "N-EVENT-REPORT": (0x0000,),
}


class Exp:
    """One expected response.

    status   : int | None            exact status expected (None: not pinned)
    klass    : str | None            expected PS3.7 class when the exact code is not documented ("Failure")
    extra    : dict                  optional status elements that must be present with this value
    dataset  : DS spec | None        handler dataset that must arrive unchanged (None: not asserted)
    why      : str                   behaviour class of the script item that produced it (goes into signature keys)
    final    : bool                  the model says this is the last response
    """

    __slots__ = ("status", "klass", "extra", "dataset", "why", "final", "item")

    def __init__(self, status=None, klass=None, extra=None, dataset=None, why="", final=False, item=None):
        self.status, self.klass, self.extra, self.dataset = status, klass, extra or {}, dataset
        self.why, self.final, self.item = why, final, item

    def __repr__(self):
        s = "None" if self.status is None else f"0x{self.status:04X}"
        return f"Exp({s},{self.klass},{self.extra},{'ds' if self.dataset else None},{self.why},final={self.final})"


def status_class(st):
    """Behaviour class of a STATUS spec."""
    if st["t"] == "int":
        return "int" if 0 <= st["v"] <= 0xFFFF else "int-out-of-range"
    if st["t"] == "ds":
        if st.get("status") is None:
            return "ds-no-status"
        ex = st.get("extra") or {}
        if "MessageIDBeingRespondedTo" in ex or "MessageID" in ex:
            return "ds-status+command-element"
        return "ds-status+optional" if ex else "ds-status"
    return "bad-type"


def ds_class(ds):
    if ds is None:
        return "none"
    if ds["t"] == "ds":
        return "dataset" if ds["elems"] else "empty-dataset"
    return {"bad": "unencodable", "other": "not-a-dataset"}[ds["t"]]


STATUS_ONLY = ("C-ECHO", "C-STORE", "N-DELETE")  # documented handler result: a status
PAIR = ("N-GET", "N-SET", "N-ACTION", "N-CREATE", "N-EVENT-REPORT")  # documented handler result: (status, dataset)


def item_class(it, rtype=None):
    if it["k"] == "raise":
        return f"exception({it['exc']})"
    if it["k"] == "raw":
        return "malformed-result"
    if rtype in STATUS_ONLY and it["k"] == "pair":
        return "bad-type"  # a tuple where an int/Dataset status is documented
    if rtype is not None and rtype not in STATUS_ONLY and it["k"] == "st":
        return "malformed-result"  # a bare status where a (status, dataset) pair is documented
    return status_class(it["st"])


def _resolve(rtype, st):
    """STATUS spec -> (status|None, klass|None, extra, why) or None when the documentation says nothing."""
    doc = DOCUMENTED.get(rtype, {})
    c = status_class(st)
    if c == "int":
        return st["v"], None, {}, c
    if c == "int-out-of-range":
        # an int that is not a 16-bit value cannot be "the status the handler supplied" (it cannot be encoded as US), so it
        # falls under "otherwise the documented failure code"; which code is not documented: any Failure-class status
        return (None, "Failure", {}, c) if rtype != "C-ECHO" else None
    if c in ("ds-status", "ds-status+optional", "ds-status+command-element"):
        extra = {k: v for k, v in (st.get("extra") or {}).items() if k in OPTIONAL.get(rtype, ())}
        return st["status"], None, extra, c
    key = {"ds-no-status": "no_status", "bad-type": "bad_type"}[c]
    if key in doc:
        return doc[key], None, {}, c
    if rtype.startswith("N-"):
        return None, "Failure", {}, c
    return None


def expected(case, services):
    """-> (list[Exp], complete)   complete=False: the model stopped early (undocumented behaviour reached)."""
    rtype, _uid, family = services[case["svc"]]
    doc = DOCUMENTED.get(rtype, {})
    items = case.get("items") or []
    pre = case.get("pre")

    def exc_exp(name, idx):
        if "exception" in doc:
            return Exp(doc["exception"], why=f"exception({name})", final=True, item=idx)
        return None

    # ------------------------------------------------------------ single response services
    if rtype != "C-FIND":
        if pre:
            e = exc_exp(pre, "pre")
            return ([e], True) if e else ([], False)
        it = items[0]
        if it["k"] == "raise":
            e = exc_exp(it["exc"], 0)
            return ([e], True) if e else ([], False)
        if it["k"] == "raw":
            return [], False
        if rtype in STATUS_ONLY:
            if it["k"] != "st":
                # a (status, dataset) tuple is "not a pydicom Dataset or an int"
                r = _resolve(rtype, {"t": "other", "v": "tuple"})
                if r is None:
                    return [], False
                return [Exp(r[0], r[1], r[2], None, r[3], True, 0)], True
            r = _resolve(rtype, it["st"])
            if r is None:
                return [], False
            return [Exp(r[0], r[1], r[2], None, r[3], True, 0)], True
        if it["k"] != "pair":
            return [], False
        r = _resolve(rtype, it["st"])
        if r is None:
            return [], False
        status, klass, extra, why = r
        ds = it.get("ds")
        dsc = ds_class(ds)
        exp_ds = None
        if rtype == "N-CREATE" and not case.get("with_instance", True) and status == 0x0000:
            # documented: without (0000,1000) in the request a Success needs it in the handler's dataset ("should
            # include"); what is answered when it is missing is not documented
            kws = [k for k, _ in ds["elems"]] if dsc in ("dataset", "empty-dataset") else []
            if "AffectedSOPInstanceUID" not in kws:
                return [], False
        if (
            dsc in ("unencodable", "not-a-dataset")
            and status is not None
            and status not in N_DATASET_STATUS.get(rtype, ())
            and category(status) in ("Success", "Warning")
        ):
            # a Success/Warning-class code of some service class together with a dataset that cannot be sent: either
            # the code is echoed (dataset not applicable) or a failure is reported - not pinned by the documentation
            return [], False
        if status in N_DATASET_STATUS.get(rtype, ()):
            if dsc == "dataset":
                exp_ds = ds
                if rtype == "N-CREATE" and not case.get("with_instance", True):
                    # documented: (0000,1000) is moved from the Attribute List to the response parameter (Success);
                    # without it the documentation only says "should include" -> not pinned
                    kws = [k for k, _ in ds["elems"]]
                    if status == 0x0000 and "AffectedSOPInstanceUID" not in kws:
                        return [], False
                    if status == 0x0000:
                        exp_ds = {"t": "ds", "elems": [e for e in ds["elems"] if e[0] != "AffectedSOPInstanceUID"]}
                        if not exp_ds["elems"]:
                            exp_ds = None
            elif dsc == "unencodable":
                # "unencodable dataset": a failure, code not documented for DIMSE-N
                return [Exp(None, "Failure", {}, None, "unencodable", True, 0)], True
            elif dsc in ("not-a-dataset",):
                return [], False
            elif rtype == "N-CREATE" and not case.get("with_instance", True) and status == 0x0000:
                return [], False
        return [Exp(status, klass, extra, exp_ds, why, True, 0)], True

    # ------------------------------------------------------------ C-FIND
    if case.get("mode", "gen") != "gen":
        return [], False  # documented handlers are generators
    out = []
    if pre:
        return [Exp(doc["exception"], why=f"exception({pre})", final=True, item="pre")], True
    single = family == "relevant-patient"  # PS3.4 Annex Q: at most one match
    for i, it in enumerate(items):
        if it["k"] == "raise":
            out.append(Exp(doc["exception"], why=f"exception({it['exc']})", final=True, item=i))
            return out, True
        if it["k"] != "pair":
            return out, False
        r = _resolve(rtype, it["st"])
        if r is None:
            return out, False
        status, klass, extra, why = r
        if status in PENDING:
            if family == "relevant-patient" and status != 0xFF00:
                return out, False  # 0xFF01 is not a Relevant Patient Information Query status
            dsc = ds_class(it.get("ds"))
            if dsc == "dataset":
                out.append(Exp(status, None, extra, it["ds"], why, False, i))
                if single:
                    out.append(Exp(0x0000, why="after-single-match", final=True, item=i))
                    return out, True
                continue
            if dsc == "unencodable":
                out.append(Exp(doc["unencodable"], why="unencodable", final=True, item=i))
                return out, True
            return out, False  # Pending without a proper Identifier: outside the documented contract
        out.append(Exp(status, klass, extra, None, why, True, i))
        return out, True
    end = case.get("end", "return")
    if end != "return":
        out.append(Exp(doc["exception"], why=f"exception({end})", final=True, item="end"))
    else:
        out.append(Exp(0x0000, why="exhausted", final=True, item="end"))
    return out, True
