"""E3 - thread-free association harness.

A real `Association` object is built without starting any thread; the layers below the service layer are
replaced by a recorder:

* `assoc.dul.send_pdu` records every primitive the association would hand to the DUL (P-DATA, A-ABORT,
  A-RELEASE ...) in `assoc.sent`, and optionally calls `assoc.on_send(primitive)` (used to script the peer:
  e.g. answer each C-STORE sub-operation request by queueing a response into `assoc.dimse.msg_queue`);
* `pynetdicom.association.time.sleep` is a no-op, `dimse_timeout = 0` makes "no response" immediate;
* SCP direction: `assoc._serve_request(primitive, context_id)`; SCU direction: pre-load
  `assoc.dimse.msg_queue` with `(context_id, primitive)` tuples and call `assoc.send_*`.

`decode_sent(assoc)` re-assembles the recorded P-DATA with a fresh DIMSEMessage per message and returns the
primitives actually sent (in order), interleaved with non-P-DATA primitives.
"""
from __future__ import annotations

import contextlib
import logging
import types
from io import BytesIO

logging.disable(logging.CRITICAL)


@contextlib.contextmanager
def no_sleep():
    """association.py / service_class.py see a `time` whose sleep() returns immediately."""
    import time as _time

    import pynetdicom.association as A

    fake = types.SimpleNamespace(sleep=lambda d: None, time=_time.time, monotonic=_time.monotonic, perf_counter=_time.perf_counter)
    old = A.time
    A.time = fake
    try:
        yield
    finally:
        A.time = old


def mk(mode, contexts, ae=None, dimse_timeout=0, max_pdu_peer=16382):
    """Build an established Association in `mode` ('acceptor'|'requestor').

    contexts: list of (abstract_syntax, transfer_syntax, as_scu, as_scp[, context_id]) -> accepted contexts
    (IDs 1,3,5.. unless given)."""
    from pynetdicom import AE, build_context
    from pynetdicom.association import Association

    ae = ae or AE()
    a = Association(ae, mode)
    acc = {}
    for i, c in enumerate(contexts):
        ab, ts, scu, scp = c[:4]
        cx = build_context(ab, ts)
        cx.context_id = c[4] if len(c) > 4 else 2 * i + 1
        cx.result = 0
        cx._as_scu = scu
        cx._as_scp = scp
        acc[cx.context_id] = cx
    a._accepted_cx = acc
    a.is_established = True
    a._is_paused = True
    a.dimse_timeout = dimse_timeout
    a.acse_timeout = 0
    a.network_timeout = None
    a.requestor.maximum_length = max_pdu_peer if mode == "acceptor" else 16382
    a.acceptor.maximum_length = max_pdu_peer if mode == "requestor" else 16382
    a.sent = []
    a.on_send = None

    def send_pdu(p):
        a.sent.append(p)
        if a.on_send is not None:
            a.on_send(p)

    a.dul.send_pdu = send_pdu
    return a


def decode_sent(a, start=0):
    """-> list of (kind, primitive): kind is the primitive class name; P-DATA are re-assembled into DIMSE
    primitives (each carries ._context_id). Incomplete trailing message -> ('INCOMPLETE', msg)."""
    from pynetdicom.dimse_messages import DIMSEMessage
    from pynetdicom.pdu_primitives import P_DATA

    out = []
    m = DIMSEMessage()
    pending = False
    for p in a.sent[start:]:
        if isinstance(p, P_DATA):
            pending = True
            if m.decode_msg(p):
                pr = m.message_to_primitive()
                pr._context_id = m.context_id
                out.append((type(pr).__name__, pr))
                m = DIMSEMessage()
                pending = False
        else:
            out.append((type(p).__name__, p))
    if pending:
        out.append(("INCOMPLETE", m))
    return out


class PeerScript:
    """on_send callback: re-assembles what the association sends and lets `responder(primitive)` return
    primitives to queue as the peer's replies (list of (context_id, primitive))."""

    def __init__(self, assoc, responder, wire=False):
        """wire=True: replies are delivered as the peer's P-DATA through dimse.receive_primitive (what the DUL does) instead of
        being put on the DIMSE message queue directly."""
        from pynetdicom.dimse_messages import DIMSEMessage

        self.a, self.responder, self._M, self.wire = assoc, responder, DIMSEMessage, wire
        self.m = DIMSEMessage()
        assoc.on_send = self

    def __call__(self, p):
        from pynetdicom.pdu_primitives import P_DATA

        if isinstance(p, P_DATA):
            if self.m.decode_msg(p):
                pr = self.m.message_to_primitive()
                pr._context_id = self.m.context_id
                self.m = self._M()
                for cid, rsp in self.responder(pr) or []:
                    if self.wire:
                        inject_message(self.a, rsp, cid)
                    else:
                        self.a.dimse.msg_queue.put((cid, rsp))


def inject_message(assoc, primitive, context_id, max_pdu=16382):
    """Feed a DIMSE primitive to the association's DIMSE provider as the P-DATA a peer would send
    (goes through dimse.receive_primitive: C-CANCEL handling, reassembly, chunked receive...)."""
    from pynetdicom.dimse import _RQ_TO_MESSAGE, _RSP_TO_MESSAGE

    if primitive.MessageIDBeingRespondedTo is None:
        cls = _RQ_TO_MESSAGE[type(primitive)]
    else:
        cls = _RSP_TO_MESSAGE[type(primitive)]
    m = cls()
    m.primitive_to_message(primitive)
    for pd in m.encode_msg(context_id, max_pdu):
        assoc.dimse.receive_primitive(pd)


def enc(ds, implicit=True, little=True, deflated=False):
    from pynetdicom.dsutils import encode

    b = encode(ds, implicit, little, deflated)
    assert b is not None
    return BytesIO(b)
