#!/venv/bin/python
"""Coverage-guided campaign for C02 (atheris/libFuzzer). Target = the C02 oracle on (state byte, data) decoded from the fuzz input.
usage: tools/c02_atheris.py <corpus_dir> [-runs=N] [-max_total_time=S] [-seed=N]
Findings are written to corpus/C02/<sha>.json (replayed by the quick tier of C02)."""
import hashlib, json, os, sys, warnings
HERE = os.path.dirname(os.path.dirname(os.path.abspath(__file__)))
sys.path.insert(0, os.environ.get("VERIF_REPO", "/repo")); sys.path.insert(0, HERE); sys.path.append(os.path.join(HERE, ".deps"))
warnings.filterwarnings("ignore")
import atheris
with atheris.instrument_imports(include=["pynetdicom"]):
    import pynetdicom  # noqa
    import pynetdicom.dul, pynetdicom.fsm, pynetdicom.pdu, pynetdicom.pdu_items, pynetdicom.dimse, pynetdicom.dimse_messages, pynetdicom.utils  # noqa
from vlib import core, jsonable
import props.c02 as P

STATES = P.STATES
found = {}
# one context for the whole campaign (a context per input re-read known_findings.json a thousand times per second and raised -
# a libFuzzer "crash" - whenever another process was rewriting that file at that moment)
CTX = core.Ctx("C02")

def target(data):
    if len(data) < 2:
        return
    mode, state = STATES[data[0] % len(STATES)]
    case = {"data": bytes(data[2:]), "mode": mode, "state": state, "chunked": bool(data[1] & 1), "labels": ["atheris"]}
    ctx = CTX
    n0 = len(ctx.violations)
    ctx._cur_check, ctx._cur_case = "bytes", case
    P.check_bytes(ctx, case)
    if len(ctx.distinct) > 200000:
        ctx.distinct.clear(); ctx.nontrivial.clear()
    for v in ctx.violations[n0:]:
        k = (v["clause"], v["key"])
        if k not in found:
            found[k] = True
            d = os.path.join(HERE, "corpus", "C02"); os.makedirs(d, exist_ok=True)
            sha = hashlib.sha1(bytes(data)).hexdigest()[:12]
            json.dump(jsonable.to_plain(case), open(os.path.join(d, sha + ".json"), "w"))
            print("FINDING", k, sha, flush=True)

atheris.Setup(sys.argv, target)
atheris.Fuzz()
