#!/bin/bash
export VERIF_EVIDENCE_DIR=${VERIF_EVIDENCE_DIR:-/var/tmp/evidence_scratch}  # exploratory run: do not touch /verif/evidence
# usage: eval_seed_with.sh <seedID> <checkID> [tier] : run check <checkID> against the tree with seeded/<seedID> (or /tmp/seed/out) applied
SID=$1; CID=$2; TIER=${3:-quick}
P=/verif/seeded/$SID/patch.diff; [ -f $P ] || P=/tmp/seed/out/$SID/patch.diff
WT=/var/tmp/evalseedw_${SID}_$$
git -C /repo worktree add -q "$WT" HEAD || exit 2
trap 'git -C /repo worktree remove --force "$WT" >/dev/null 2>&1' EXIT
git -C "$WT" apply "$P" || { echo "patch does not apply"; exit 3; }
cd /verif; out=$(VERIF_REPO="$WT" timeout 6000 /venv/bin/python check.py "$CID" --tier "$TIER" 2>&1); rc=$?
echo "seed $SID vs check $CID ($TIER): rc=$rc | $(echo "$out" | grep -E "violation clause" | head -4 | cut -c1-200 | tr '\n' '|')"
