"""Association-negotiation scenarios end to end under E4 (two real pynetdicom AEs), shared by C11 and C12.

case = {
  "rq_title": str, "ac_title": str, "called": str|None (title the requestor calls), "max_pdu": int,
  "impl_uid": str|None, "impl_version": str|None,
  "requested": [[abstract, [ts...]], ...], "roles": {abstract: [scu, scp]},           # requestor side
  "ext": [["sopext", uid, bytes] | ["common", uid, service_uid, [related...]] | ["async", inv, perf] | ["userid", type, rsp, primary, secondary]],
  "supported": [[abstract, [ts...], scu_role, scp_role], ...],                          # acceptor side
  "acc_handlers": {"sopext": bool, "userid": bool|None, "async": bool},
  # optional (absent = behaviour as before):
  "preset_ids": [None|int, ...]   context_id set on the i-th built context BEFORE it is passed to associate(contexts=...) (contexts
                                  re-used from an earlier association carry their old IDs); the setter's own rejection is an API rejection
  "rq_title_via": "ctor" (AE(ae_title=t), default) | "setter" (AE(); ae.ae_title = t) | "ctor-bytes" | "setter-bytes" (deprecated bytes form, utf-8)
  "called_via": "arg" | "arg-bytes"   associate(ae_title=called) is passed whenever this key is present (also for "" / all spaces)
}
-> result dict: api_error | (rq_bytes, ac_bytes / rj_bytes, requestor view, acceptor view)
"""
from __future__ import annotations

import warnings

from engines import dsched as S

warnings.filterwarnings("ignore")
PORT = 11112

ABSTRACT_POOL = [
    "1.2.840.10008.1.1",  # Verification
    "1.2.840.10008.5.1.4.1.1.2",  # CT Image Storage
    "1.2.840.10008.5.1.4.1.1.4",  # MR Image Storage
    "1.2.840.10008.5.1.4.1.2.1.1",  # Patient Root Q/R Find
    "1.2.840.10008.5.1.4.1.2.1.3",  # Patient Root Q/R Get
    "1.2.840.10008.5.1.4.31",  # Modality Worklist Find
    "1.2.3.4.5.6",  # private
    "1.2.840.10008.5.1.4.1.1.9999",  # unknown public
]
TS_POOL = ["1.2.840.10008.1.2", "1.2.840.10008.1.2.1", "1.2.840.10008.1.2.2", "1.2.840.10008.1.2.1.99", "1.2.840.10008.1.2.4.50"]


def view(assoc):
    """{context_id: (abstract, transfer_syntax, as_scu, as_scp)} for accepted, and the rejected id list."""
    acc = {}
    for cx in assoc.accepted_contexts:
        acc[cx.context_id] = (str(cx.abstract_syntax), str(cx.transfer_syntax[0]) if cx.transfer_syntax else None, bool(cx.as_scu), bool(cx.as_scp))
    rej = [(cx.context_id, cx.result) for cx in assoc.rejected_contexts]
    return {"accepted": acc, "rejected": rej}


def run(case, policy="fifo", seed=0):
    from pynetdicom import AE, build_context, build_role, evt
    from pynetdicom.pdu_primitives import (
        AsynchronousOperationsWindowNegotiation,
        SOPClassCommonExtendedNegotiation,
        SOPClassExtendedNegotiation,
        UserIdentityNegotiation,
    )

    out = {"api_error": None}
    ch = S.Chooser(policy, seed)
    with S.World(ch, max_steps=15000, quantum=0.1) as w:
        # ---- acceptor
        try:
            acc = AE(case["ac_title"])
            acc.acse_timeout, acc.dimse_timeout, acc.network_timeout = 3, 3, 6
            for ab, ts, scu, scp in case["supported"]:
                acc.add_supported_context(ab, list(ts), scu_role=scu, scp_role=scp)
        except Exception as e:
            out["api_error"] = ("acceptor-config", type(e).__name__, str(e)[:120])
            return out
        acc_assocs = []
        hs = [(evt.EVT_ESTABLISHED, lambda e: acc_assocs.append(e.assoc)), (evt.EVT_REJECTED, lambda e: acc_assocs.append(e.assoc))]
        ah = case.get("acc_handlers", {})
        if ah.get("sopext"):
            hs.append((evt.EVT_SOP_EXTENDED, lambda e: dict(e.app_info)))
        if ah.get("userid") is not None:
            hs.append((evt.EVT_USER_ID, lambda e: (bool(ah["userid"]), b"OK" if ah.get("userid") else None)))
        if ah.get("async"):
            hs.append((evt.EVT_ASYNC_OPS, lambda e: (1, 1)))
        try:
            w.serve(acc, PORT, handlers=hs)
        except Exception as e:
            out["api_error"] = ("acceptor-serve", type(e).__name__, str(e)[:120])
            return out

        res = {}

        def user():
            try:
                via = case.get("rq_title_via", "ctor")
                t = case["rq_title"]
                if via.endswith("-bytes"):
                    t = t.encode("utf-8")
                if via.startswith("setter"):
                    rq = AE()
                    rq.ae_title = t
                else:
                    rq = AE(t)
                rq.acse_timeout, rq.dimse_timeout, rq.network_timeout = 3, 3, 6
                if case.get("impl_uid"):
                    rq.implementation_class_uid = case["impl_uid"]
                if case.get("impl_version") is not None:
                    rq.implementation_version_name = case["impl_version"]
                cxs = [build_context(ab, list(ts)) for ab, ts in case["requested"]]
                for cx, pid in zip(cxs, case.get("preset_ids") or ()):
                    if pid is not None:
                        cx.context_id = pid
                ext = []
                for ab, (scu, scp) in case.get("roles", {}).items():
                    ext.append(build_role(ab, scu_role=scu, scp_role=scp))
                for item in case.get("ext", []):
                    if item[0] == "sopext":
                        it = SOPClassExtendedNegotiation()
                        it.sop_class_uid = item[1]
                        it.service_class_application_information = bytes(item[2])
                    elif item[0] == "common":
                        it = SOPClassCommonExtendedNegotiation()
                        it.sop_class_uid = item[1]
                        it.service_class_uid = item[2]
                        it.related_general_sop_class_identification = list(item[3])
                    elif item[0] == "async":
                        it = AsynchronousOperationsWindowNegotiation()
                        it.maximum_number_operations_invoked = item[1]
                        it.maximum_number_operations_performed = item[2]
                    else:
                        it = UserIdentityNegotiation()
                        it.user_identity_type = item[1]
                        it.positive_response_requested = bool(item[2])
                        it.primary_field = bytes(item[3])
                        if item[4]:
                            it.secondary_field = bytes(item[4])
                    ext.append(it)
                kw = {}
                if case.get("called_via") is not None:
                    kw["ae_title"] = case["called"].encode("utf-8") if case["called_via"] == "arg-bytes" else case["called"]
                elif case.get("called"):
                    kw["ae_title"] = case["called"]
                a = rq.associate("127.0.0.1", PORT, contexts=cxs, max_pdu=case.get("max_pdu", 16382), ext_neg=ext, **kw)
            except (ValueError, TypeError, RuntimeError) as e:
                res["api_error"] = ("requestor-api", type(e).__name__, str(e)[:160])
                return
            res["assoc"] = a
            res["established"] = a.is_established
            res["rq_view"] = view(a)
            res["requested_ids"] = [cx.context_id for cx in a.requestor.requested_contexts]
            if a.is_established:
                a.release()

        w.spawn(user, "user")
        how = w.run()
        out["how"] = how
        out["report"] = w.report()
        out["api_error"] = res.get("api_error")
        out["tap"] = list(w.tap)
        out["established"] = res.get("established")
        out["rq_view"] = res.get("rq_view")
        out["requested_ids"] = res.get("requested_ids")
        out["ac_view"] = view(acc_assocs[0]) if acc_assocs else None
        out["acc_established"] = bool(acc_assocs) and not acc_assocs[0].is_rejected
    # first PDU in each direction
    def first(side):
        buf = b"".join(b for _, cid, s, b in out["tap"] if cid == 1 and s == side and b is not None)
        if len(buf) < 6:
            return None
        n = 6 + int.from_bytes(buf[2:6], "big")
        return buf[:n]

    out["rq_bytes"] = first("client")
    out["reply_bytes"] = first("server")
    return out


def strategy(max_contexts=12):
    from hypothesis import strategies as st

    from engines import ps38ref as R

    S_ = R.strategies()
    ts_list = st.lists(st.sampled_from(TS_POOL), min_size=1, max_size=4, unique=True)
    role = st.sampled_from([None, True, False])
    title = st.one_of(st.sampled_from(["SCU", "ANY-SCP", "A", "LONG_TITLE_16CHR"]), S_.ae_title())

    @st.composite
    def case(draw):
        n = draw(st.one_of(st.integers(1, 4), st.integers(1, max_contexts)))
        requested = [[draw(st.sampled_from(ABSTRACT_POOL)), draw(ts_list)] for _ in range(n)]
        abstracts = sorted({r[0] for r in requested})
        roles = {}
        for ab in abstracts:
            if draw(st.integers(0, 2)) == 0:
                scu, scp = draw(st.sampled_from([(True, True), (True, False), (False, True), (True, None), (None, True)]))
                roles[ab] = [scu, scp]
        sup_abs = draw(st.lists(st.sampled_from(ABSTRACT_POOL), min_size=1, max_size=6, unique=True))
        supported = [[ab, draw(ts_list), draw(role), draw(role)] for ab in sup_abs]
        ext = []
        if draw(st.integers(0, 3)) == 0:
            ext.append(["sopext", draw(st.sampled_from(abstracts)), draw(st.binary(min_size=0, max_size=12))])
        if draw(st.integers(0, 3)) == 0:
            ext.append(["common", draw(st.sampled_from(abstracts)), "1.2.840.10008.4.2", draw(st.lists(st.sampled_from(ABSTRACT_POOL), max_size=2))])
        if draw(st.integers(0, 4)) == 0:
            ext.append(["async", draw(st.integers(0, 5)), draw(st.integers(0, 5))])
        if draw(st.integers(0, 3)) == 0:
            t = draw(st.integers(1, 5))
            ext.append(["userid", t, draw(st.integers(0, 1)), draw(st.binary(min_size=1, max_size=10)), draw(st.binary(min_size=1 if t == 2 else 0, max_size=6))])
        return {
            "rq_title": draw(title), "ac_title": draw(title), "called": draw(st.one_of(st.none(), title)),
            "max_pdu": draw(st.sampled_from([0, 7, 1024, 16382, 2**32 - 1])),
            "impl_uid": draw(st.one_of(st.none(), S_.uid())), "impl_version": draw(st.one_of(st.none(), st.sampled_from(["V1", "PYNETDICOM_TEST16", "a b"]))),
            "requested": requested, "roles": roles, "ext": ext, "supported": supported,
            "acc_handlers": {"sopext": draw(st.booleans()), "userid": draw(st.sampled_from([None, True, True, False])), "async": draw(st.booleans())},
        }

    return case()
