"""C23 - a C-CANCEL reaches exactly the operation it names (engine E3 + engines/qrsub.py, C-CANCEL injection)."""
import os

from engines import qrsub as Q
from engines import syncassoc as SA
from refs import subop_ref as R
from vlib import sig

LEVEL = "exploration"
RULE = (
    "Hypothesis draws 1..3 consecutive operations (C-FIND on the Patient Root / Study Root / Modality Worklist models, "
    "C-GET with real C-STORE sub-operations answered by a scripted peer, C-MOVE with a scripted store association) served on "
    "one thread-free acceptor association, message IDs from a small colliding pool plus the US range, 0..4 results each, and "
    "0..14 C-CANCEL requests whose Message ID Being Responded To is the current operation's ID, another operation's ID, a "
    "neighbouring ID or one of 16 unrelated IDs. Requests and cancels are delivered as the peer's P-DATA through "
    "DIMSEServiceProvider.receive_primitive; requests are then dispatched the way the association reactor does "
    "(get_msg + _serve_request). Each cancel arrives at a generated point: before the operation's request arrives, (30 % "
    "of operations) after the request was received but before it is dispatched, at any of the handler's own execution "
    "points (before its first "
    "yield, between two yields, after its last yield), between operations, or after the last one. At generated execution "
    "points the handler reads event.is_cancelled; optionally it then yields 0xFE00 and returns as documented. The recorded "
    "history (cancel arrivals, polls) is judged by an independent model. Non-trivial = an operation polled while a cancel "
    "for ANOTHER id had arrived during it, or after a cancel with its own id had arrived before it started, or with a "
    "matching cancel arriving between two polls. Distinct = distinct case. "
    "Pipelined histories (about a third of the multi-operation cases; PIPELINED = False drops them): at a generated execution "
    "point of a C-FIND/C-MOVE handler the request(s) of the following 1..2 operation(s) arrive through receive_primitive and "
    "are queued while the current operation is still being served (never behind a C-GET, whose sub-operation responses use "
    "the same queue); cancels naming the running operation, the queued one(s), the one after or unrelated IDs arrive before "
    "and after those requests; the queued operation is dispatched when its predecessor has ended and polls like any other. "
    "Operations that can be in progress together get different message IDs. Also non-trivial: a poll by an operation whose "
    "request was received behind a running one after a cancel naming it, or a poll after a later request arrived between a "
    "matching cancel and the poll."
)
ASSUMPTIONS = [
    "an operation is in progress from the moment its request primitive has been received by the DIMSE provider "
    "(dimse.receive_primitive completed it) until Association._serve_request returns - a peer can only name the operation "
    "after sending the request, so a C-CANCEL that follows the request on the wire is for that operation. Cancels that "
    "arrive between receipt and dispatch are a separately labelled class (clause missed, key received-before-dispatch; "
    "set QUEUED_WINDOW = False to drop the class if 'in progress' is to mean 'being served')",
    "pipelined requests: pynetdicom always negotiates an asynchronous operations window of (1, 1), so a conformant peer does "
    "not send a request before the final response of the previous one; the public API of pynetdicom's own requestor does "
    "produce it (send_c_find() called again before the first generator is consumed), so these histories are judged too, by "
    "the SAME rule: the queued operation is in progress from the receipt of its request, hence a C-CANCEL naming it that "
    "arrives while its predecessor is still being served is for it (must-report at its first poll) and a C-CANCEL naming "
    "it that arrived before its request is stale (must-not-report); the running operation's own cancels stay must-report "
    "whatever other requests arrive meanwhile. If one C-CANCEL names two operations in progress the reads of both are "
    "unconstrained (the generator avoids it)",
    "must-report: once a matching C-CANCEL has arrived during the operation, the next read of event.is_cancelled is True; "
    "must-not-report: before any matching C-CANCEL has arrived during the operation every read is False, whatever arrived "
    "for other IDs, before the operation, or during earlier operations (also with the same message ID)",
    "after is_cancelled has been True once for an operation, later reads are unconstrained (consume-once and sticky "
    "implementations both satisfy the statement)",
    "a C-CANCEL that the DIMSE provider puts on the ordinary message queue (the association reactor would dispatch it as a "
    "service request and raise AttributeError: C_CANCEL has no is_valid_request) ends the scenario; it is counted "
    "(class reactor-would-crash / cancel-left-in-msg-queue) but, not being part of the statement, not reported",
    "C-CANCEL P-DATA is produced with pynetdicom's own encoder (harness input path), not judged",
]
SHARDS = {"quick": 1, "thorough": 16}
MIN_NONTRIVIAL = 50


# 'in progress' from receipt of the request (True, the stated assumption) or only while being served (False);
# VERIF_C23_IN_PROGRESS=served selects the second reading for experiments
QUEUED_WINDOW = os.environ.get("VERIF_C23_IN_PROGRESS", "receipt") != "served"
# generate histories in which the next request(s) arrive while an operation is still being served (VERIF_C23_PIPELINED=0 drops them)
PIPELINED = os.environ.get("VERIF_C23_PIPELINED", "1") != "0"


class _Stop(Exception):
    pass


def cancel_primitive(mid):
    from pynetdicom.dimse_primitives import C_CANCEL

    c = C_CANCEL()
    c.MessageIDBeingRespondedTo = mid
    return c


def queue_has_cancel(a):
    from pynetdicom.dimse_primitives import C_CANCEL

    return sum(1 for _cid, m in list(a.dimse.msg_queue.queue) if isinstance(m, C_CANCEL))


def head_is_cancel(a):
    from pynetdicom.dimse_primitives import C_CANCEL

    q = a.dimse.msg_queue.queue
    return bool(q) and isinstance(q[0][1], C_CANCEL)


def build_op(op):
    svc = op["svc"]
    k = op["yields"]
    if svc in ("find", "mwl", "srfind"):
        return {"svc": svc, "msg_id": op["msg_id"], "steps": [{"status": 0xFF00} for _ in range(k)]}
    steps = [{"k": "ds", "i": i, "shape": "match", "out": ["status", 0], "sds": False} for i in range(k)]
    out = {"svc": svc, "msg_id": op["msg_id"], "n": max(k, 1) if op.get("announce_min1") else k, "steps": steps}
    if svc == "move":
        out["dest"] = "ok"
    return out


def check_cancel(ctx, case):
    try:
        _check(ctx, case)
    except _Stop:
        pass


def _check(ctx, case):
    a = Q.make_assoc()
    # ("recv", oi, msg_id) | ("serve", oi) | ("cancel", id) | ("poll", oi, result) | ("end", oi)
    log = []
    problems = []
    classes = set()
    stopped = None

    def deliver(mid, cx):
        log.append(("cancel", mid))
        try:
            SA.inject_message(a, cancel_primitive(mid), cx)
        except Exception as e:  # receive_primitive must take any valid C-CANCEL
            problems.append(e)

    ops = case["ops"]
    qops = [build_op(op) for op in ops]
    received = set()  # indexes of the operations whose request has been delivered

    def deliver_next_requests(oi, count):
        """A pipelining peer: the requests of the following operation(s) arrive while operation `oi` is being served.
        Nothing is ever queued behind a C-GET (its C-STORE sub-operation responses travel through the same queue)."""
        if not PIPELINED or ops[oi]["svc"] == "get":
            return
        for _ in range(count):
            nxt = max(received) + 1
            if nxt >= len(ops) or any(ops[k]["svc"] == "get" for k in range(oi, nxt)):
                return
            log.append(("recv", nxt, ops[nxt]["msg_id"]))
            received.add(nxt)
            try:
                Q.deliver_request(a, qops[nxt])
            except Exception as e:
                problems.append(e)

    for oi, op in enumerate(ops):
        qop = qops[oi]
        cx = Q.CX[Q.SVC_UID[op["svc"]]]
        for mid in op.get("before", []):
            if oi in received and not QUEUED_WINDOW:
                break  # the request is already there: these would fall into the (dropped) queued window
            deliver(mid, cx)
        if head_is_cancel(a):
            stopped = "reactor-would-crash"
            break
        # the request always arrives as the peer's P-DATA and is dispatched the way _run_reactor does it; the
        # "queued" window (cancels between receipt and dispatch) is empty unless the case says otherwise
        slots = op.get("slots", [])
        served = {"v": False}

        def hook(slot, event, op=op, oi=oi, cx=cx, slots=slots, served=served):
            if slot == "queued":
                if oi not in received:
                    log.append(("recv", oi, op["msg_id"]))
                    received.add(oi)
                for mid in op.get("queued", []) if QUEUED_WINDOW else []:
                    deliver(mid, cx)
                return None
            if not served["v"]:
                log.append(("serve", oi))
                served["v"] = True
            s = slots[slot] if slot < len(slots) else None
            if not s:
                return None
            for mid in s.get("cancels", []):
                deliver(mid, cx)
            if s.get("next"):
                deliver_next_requests(oi, s["next"])
                for mid in s.get("cancels_after", []):
                    deliver(mid, cx)
            if s.get("poll"):
                try:
                    r = event.is_cancelled
                except Exception as e:
                    problems.append(e)
                    return None
                log.append(("poll", oi, bool(r)))
                if r and op.get("stop_on_cancel"):
                    return "stop"
            return None

        res = Q.run_op(a, qop, hook=hook, via_queue=True, wire=True, inject=oi not in received)
        if not served["v"]:
            log.append(("serve", oi))  # handler never ran (e.g. request refused)
        log.append(("end", oi))
        classes.add("svc:" + op["svc"])
        if res.escaped is not None:
            problems.append(res.escaped)
        if any(k in ("A_ABORT", "A_P_ABORT") for _ix, k, _p in Q.decode_stream(a)):
            stopped = "association-aborted"
            break
    else:
        for mid in case.get("after", []):
            deliver(mid, Q.CX[Q.PR_FIND])

    left = queue_has_cancel(a)
    if left:
        classes.add("cancel-left-in-msg-queue")
    if stopped:
        classes.add(stopped)

    # ------------------------------------------------------------------ judge the history
    M = R.CancelModel("receipt" if QUEUED_WINDOW else "served")
    verdicts = []  # (clause, key, message)
    nontrivial = False
    polls = 0
    for ev in log:
        if ev[0] == "recv":
            o = M.receive(ev[1], ev[2])
            if o.behind:
                classes.add("pipelined:request-received-behind-running-operation")
        elif ev[0] == "serve":
            M.serve(ev[1])
        elif ev[0] == "end":
            M.end(ev[1])
        elif ev[0] == "cancel":
            mid = ev[1]
            cur = M.ops.get(M.serving)
            window = "during" if cur is not None else ("queued" if M.ops else "idle")
            queued_named = any(o.msg_id == mid and o.key != M.serving for o in M.ops.values())
            M.cancel(mid)
            if cur is not None and cur.msg_id == mid:
                what = ":matching"
            elif queued_named:
                what = ":matching-queued-operation" if cur is not None else ":matching"
            else:
                what = ":other"
            classes.add("cancel:" + window + what)
        else:
            _, oi, r = ev
            polls += 1
            o = M.op(oi)
            want = M.expect_poll(oi)
            classes.add("poll:" + str(r).lower())
            if o.others_during or o.stale_same_id or (o.matching_arrived and o.polled_before_match) or (o.behind and o.matching_arrived) or o.request_received_while_pending:
                nontrivial = True
            if o.others_during and o.max_pending >= 10:
                classes.add("flood>=10-pending")
            if o.stale_same_id:
                classes.add("polled-after-stale-cancel-with-same-id")
            if o.others_during:
                classes.add("polled-with-other-id-pending")
            if o.behind:
                classes.add("pipelined:polled-by-operation-received-behind")
                if o.matching_arrived:
                    classes.add("pipelined:polled-after-matching-cancel-while-queued-behind")
            if o.request_received_while_pending:
                classes.add("pipelined:request-received-between-matching-cancel-and-poll")
            if o.ambiguous:
                classes.add("pipelined:cancel-names-two-operations(unconstrained)")
            if want is None:
                classes.add("poll-after-report(unconstrained)")
            if want is False and r:
                cause = "stale-same-id" if o.stale_same_id else ("other-id" if o.others_during else "no-cancel-at-all")
                verdicts.append(("spurious", cause, f"operation #{oi} (message ID {o.msg_id}) read is_cancelled == True although no C-CANCEL naming it arrived while it was in progress"))
                break
            if want is True and not r:
                verdicts.append(("missed", M.miss_cause(oi), f"operation #{oi} (message ID {o.msg_id}) read is_cancelled == False although a C-CANCEL naming it had arrived while it was in progress ({M.describe(oi)})"))
                break
            M.polled(oi, r)
    classes.add(f"ops={len(ops)}")
    ncancel = sum(1 for e in log if e[0] == "cancel")
    classes.add("cancels=0" if ncancel == 0 else ("cancels=1-4" if ncancel <= 4 else ("cancels=5-9" if ncancel <= 9 else "cancels>=10")))
    if any(o.get("queued") for o in ops):
        classes.add("cancel-in-queued-window")
    ctx.note(case, nontrivial=nontrivial and polls > 0, classes=sorted(classes))

    hist = [e for e in log]
    for e in problems:
        ctx.fail("exception", sig.exc_key(e), f"exception while delivering a C-CANCEL / serving the request\n{sig.exc_text(e)}\n case={case}")
        raise _Stop()
    for clause, key, msg in verdicts:
        ctx.fail(clause, key, msg + f"\n history={hist}\n case={case}")
        raise _Stop()


CHECKS = {"cancel": check_cancel}


# --------------------------------------------------------------------------------------------- generators
def weighted(*pairs):
    """(weight, strategy) alternatives with real weights: one_of() de-duplicates a repeated strategy object, so every
    copy is wrapped in its own map(); unlike a selector + tuple of all alternatives nothing unused is drawn (the
    shrinker's budget is not spent on branches that were not taken)."""
    from hypothesis import strategies as st

    return st.one_of(*[s.map(lambda x: x) for w, s in pairs for _ in range(w)])


OTHER = list(range(100, 116))
POOL = [1, 2, 7, 0, 65535]


def strategy(quick):
    from hypothesis import strategies as st

    # cancel IDs are drawn as symbolic references and resolved against the operations in assemble()
    ref = weighted(
        (8, st.just(["cur"])),
        (3, st.just(["prev"])),
        (3, st.just(["next"])),
        (2, st.sampled_from([["cur+1"], ["cur-1"]])),
        (6, st.sampled_from(OTHER).map(lambda v: ["id", v])),
    )
    few = st.lists(ref, min_size=0, max_size=2)
    flood = st.tuples(st.integers(9, 12), st.booleans()).map(lambda t: [["id", OTHER[i]] for i in range(t[0])] + ([["cur"]] if t[1] else []))
    cancels = weighted((10, few), (5, st.just([])))
    slot_cancels = weighted((20, few), (10, st.just([])), (1, flood))
    # pipelining: at this execution point the request(s) of the following operation(s) arrive, then more cancels
    after_ref = weighted((6, st.just(["next"])), (4, st.just(["cur"])), (1, st.just(["next2"])), (3, st.sampled_from(OTHER).map(lambda v: ["id", v])))
    slot = st.fixed_dictionaries(
        {
            "cancels": slot_cancels,
            "next": st.sampled_from([0] * 11 + [1] * 4 + [2]),
            "cancels_after": st.lists(after_ref, min_size=0, max_size=2),
            "poll": st.sampled_from([True, True, True, False]),
        }
    )
    op = st.fixed_dictionaries(
        {
            "svc": st.sampled_from(["find", "find", "get", "move", "mwl", "srfind"]),
            "msg_id": st.one_of(st.sampled_from(POOL), st.sampled_from(POOL), st.integers(0, 65535)),
            "yields": st.integers(0, 4),
            "via_queue": st.sampled_from([False] * 7 + [True] * 3),  # True: cancels may fall into the queued window
            "before": cancels,
            "queued": few,
            "slots": st.lists(slot, min_size=0, max_size=7),
            "stop_on_cancel": st.booleans(),
            "announce_min1": st.booleans(),
        }
    )

    def assemble(t):
        ops, after = t
        ids = [o["msg_id"] for o in ops]
        if any(s.get("next") for o in ops for s in o["slots"]):
            # operations that may be in progress at the same time carry different message IDs (a peer could not name
            # one of two outstanding operations otherwise)
            for k in range(1, len(ids)):
                while ids[k] in ids[:k]:
                    ids[k] = (ids[k] + 1) & 0xFFFF
            ops = [dict(o, msg_id=ids[k]) for k, o in enumerate(ops)]
        total = [0]

        def resolve(refs, i):
            out = []
            for r in refs:
                if total[0] >= 14:
                    break
                k = r[0]
                if k == "id":
                    v = r[1]
                elif k == "cur":
                    v = ids[min(i, len(ids) - 1)]
                elif k == "prev":
                    v = ids[i - 1] if i > 0 else ids[min(i, len(ids) - 1)] ^ 1
                elif k == "next":
                    v = ids[i + 1] if i + 1 < len(ids) else (ids[min(i, len(ids) - 1)] + 2) & 0xFFFF
                elif k == "next2":
                    v = ids[i + 2] if i + 2 < len(ids) else (ids[min(i, len(ids) - 1)] + 3) & 0xFFFF
                elif k == "cur+1":
                    v = (ids[min(i, len(ids) - 1)] + 1) & 0xFFFF
                else:
                    v = (ids[min(i, len(ids) - 1)] - 1) & 0xFFFF
                out.append(v)
                total[0] += 1
            return out

        new = []
        for i, o in enumerate(ops):
            o = dict(o)
            o["before"] = resolve(o["before"], i)
            o["queued"] = resolve(o["queued"], i) if o["via_queue"] else []
            nslots = o["yields"] + 1 + {"get": 1, "move": 2}.get(o["svc"], 0)
            slots = []
            for s in o["slots"][:nslots]:
                d = {"cancels": resolve(s["cancels"], i), "poll": s["poll"]}
                if s.get("next") and o["svc"] != "get" and i + 1 < len(ops):
                    d["next"] = s["next"]
                    d["cancels_after"] = resolve(s.get("cancels_after", []), i)
                slots.append(d)
            o["slots"] = slots
            new.append(o)
        return {"ops": new, "after": resolve(after, len(ops))}

    return st.tuples(st.lists(op, min_size=1, max_size=3), few).map(assemble)


def run(ctx):
    n = 1500 if ctx.quick else 6000
    ctx.hyp("cancel", strategy(ctx.quick), n)


# ------------------------------------------------------------------------------------------------ E4 variant (real threads)

def _cancel_bytes(mid, cid=5):
    from pynetdicom.dimse_messages import C_CANCEL_RQ
    from pynetdicom.pdu import P_DATA_TF

    m = C_CANCEL_RQ()
    m.primitive_to_message(cancel_primitive(mid))
    return b"".join(P_DATA_TF(pd).encode() for pd in m.encode_msg(cid, 16382))


def check_threaded(ctx, case):
    """Real acceptor stack under the E4 scheduler: a raw requestor sends a C-FIND request and C-CANCEL requests (own / other message IDs) at
    generated virtual times while the handler yields results with delays and polls event.is_cancelled. Judged with the arrival times of the
    cancel P-DATA (EVT_DIMSE_RECV on the acceptor): a poll before any matching cancel was sent must be False; the first poll that starts
    more than 0.3 virtual seconds after a matching cancel was received must find it (unless an earlier poll already did)."""
    from engines import dsched as S
    from engines import ps38ref as P8
    from engines import scenario as SC
    from pydicom.dataset import Dataset
    from pynetdicom import evt
    from vlib.core import HarnessError

    polls = []  # (t, value)
    recv = []  # (t, message id of a received C-CANCEL)
    mid = case["mid"]

    def h_find(event):
        for i in range(case["n"]):
            S.VTime.sleep(case["delay"])
            polls.append((round(S.WORLD.now - 1000.0, 4), bool(event.is_cancelled)))
            ds = Dataset()
            ds.QueryRetrieveLevel = "PATIENT"
            ds.PatientID = str(i)
            yield 0xFF00, ds

    def on_dimse(event):
        try:
            cs = event.message.command_set
            if cs.CommandField == 0x0FFF:
                recv.append((round(S.WORLD.now - 1000.0, 4), cs.MessageIDBeingRespondedTo))
        except Exception:
            pass

    script = [["send", P8.ref_encode(SC.RAW_RQ)], ["recv_pdu", 5], ["send", SC.dimse_bytes("find", mid)]]
    t = 0.0
    sent = []
    for dt, which in case["cancels"]:
        script.append(["sleep", dt])
        t += max(dt, 0.1)
        script.append(["send", _cancel_bytes(mid if which == "own" else (mid + 1 if mid < 65535 else mid - 1))])
        sent.append(which)
    script += [["recv_idle", 2.0], ["send", P8.ref_encode(P8.ReleaseRQ())], ["recv_until_close", 5], ["close"]]
    sc = {"timeouts": {"acse": 10, "dimse": 10, "network": 20}, "max_steps": 40000, "quantum": 0.1,
          "acceptor": {"kind": "pynetdicom", "handlers": {}, "extra_handlers": [(evt.EVT_C_FIND, h_find), (evt.EVT_DIMSE_RECV, on_dimse)]},
          "requestors": [{"kind": "raw", "script": script}], "schedule": case["schedule"]}
    out = SC.run(sc)
    if out["raw"][0].error:
        raise HarnessError(f"raw peer failed: {out['raw'][0].error}")
    own_recv = [t for t, m in recv if m == mid]
    other_only = bool(recv) and not own_recv
    ctx.note(case, nontrivial=bool(own_recv) or other_only, classes=["e4", out["how"], "own-cancel" if own_recv else ("other-cancel-only" if other_only else "no-cancel")])
    if out["how"] == "budget":
        ctx.inconclusive += 1
        return
    died = [t for t in out["report"]["threads"] if t["exc"] and not t["name"].startswith("raw-")]
    if died:
        ctx.fail("thread-exception", f"{died[0]['kind']}:{died[0]['exc'][2]}", f"{died[0]['name']} died: {died[0]['exc'][:2]}")
        return
    first_own = min(own_recv) if own_recv else None
    for tp, val in polls:
        if val and (first_own is None or tp < first_own):
            ctx.fail("spurious", "e4:" + ("other-id" if recv else "no-cancel-at-all"), f"is_cancelled was True at t={tp} but no C-CANCEL naming message {mid} had been received (received: {recv})")
            return
    if first_own is not None:
        later = [(tp, v) for tp, v in polls if tp > first_own + 0.3]
        earlier_true = any(v for tp, v in polls if first_own <= tp <= first_own + 0.3)
        if later and not earlier_true and not later[0][1]:
            ctx.fail("missed", "e4:in-progress", f"C-CANCEL for message {mid} received at t={first_own}, but the poll at t={later[0][0]} still read False; polls={polls} recv={recv}")


CHECKS["threaded"] = check_threaded
_run_e3 = run


def run(ctx):
    from hypothesis import strategies as st

    _run_e3(ctx)

    @st.composite
    def case(draw):
        return {"mid": draw(st.sampled_from([1, 7, 65535, 300])), "n": draw(st.integers(1, 5)), "delay": draw(st.sampled_from([0.2, 0.5, 1.0])),
                "cancels": [[draw(st.sampled_from([0.0, 0.1, 0.35, 0.6, 1.2])), draw(st.sampled_from(["own", "other", "other"]))] for _ in range(draw(st.integers(0, 4)))],
                "schedule": {"policy": draw(st.sampled_from(["pct", "random", "fifo"])), "drift": draw(st.sampled_from([0.0, 0.05])), "seed": draw(st.integers(0, 10**6)), "preemptions": [], "nudges": []}}

    ctx.hyp("threaded", case(), 40 if ctx.quick else 400)
