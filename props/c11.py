"""C11 - requestor and acceptor end up with the same view of the negotiated contexts (E4 end to end, real RQ/AC encoding)."""
from engines import negoscen as N
from vlib.core import HarnessError

LEVEL = "exploration"
RULE = (
    "Hypothesis draws requested-context lists (1..12 quick / 1..64 thorough, repeated abstract syntaxes, 1..4 transfer syntaxes from a pool of 5), "
    "requestor role proposals through build_role (scu/scp in True/False/None), acceptor supported contexts with roles None/True/False, "
    "extended-negotiation items and AE configuration; the association is negotiated between two real pynetdicom AEs under the E4 scheduler, i.e. "
    "through the real ACSE.send_request -> A-ASSOCIATE-RQ bytes -> acceptor negotiation -> A-ASSOCIATE-AC bytes -> negotiate_as_requestor. "
    "Oracle: every proposed context ID appears exactly once in the requestor's accepted+rejected lists; both sides hold the same accepted ID set "
    "with equal abstract and transfer syntax per ID; roles are complementary (requestor as_scu == acceptor as_scp and requestor as_scp == acceptor as_scu). "
    "Non-trivial = >=2 accepted contexts and >=1 role proposal on an accepted abstract syntax."
)
ASSUMPTIONS = ["E4 substitution table", "configurations the public API rejects with an exception are counted and skipped",
               "normal (not unrestricted-storage) acceptor configuration"]
SHARDS = {"quick": 1, "thorough": 16}


def check_views(ctx, case):
    out = N.run(case, case.get("policy", "fifo"), case.get("seed", 0))
    if out.get("api_error"):
        ctx.note(case, nontrivial=False, classes=["api-rejected:" + out["api_error"][0]])
        return
    died = [t for t in out["report"]["threads"] if t["exc"]]
    rq, ac = out["rq_view"], out["ac_view"]
    n_acc = len(rq["accepted"]) if rq else 0
    role_on_acc = rq is not None and any(cid for cid, v in rq["accepted"].items() if v[0] in case.get("roles", {}))
    ctx.note(case, nontrivial=n_acc >= 2 and role_on_acc, classes=["established" if out["established"] else "not-established", f"accepted={min(n_acc, 5)}", "roles" if case.get("roles") else "no-roles"])
    if died:
        ctx.fail("thread-exception", f"{died[0]['kind']}:{died[0]['exc'][2]}", f"{died[0]['name']} died: {died[0]['exc'][:2]}; case={case}")
        return
    if out["how"] == "budget":
        ctx.inconclusive += 1
        return
    if not out["established"]:
        ctx.cls("no-association")
        if out["acc_established"] and rq is not None and not rq["accepted"]:
            # documented: a requestor with no accepted context aborts
            return
        return
    if ac is None:
        raise HarnessError("requestor established but no acceptor association seen")
    ids = out["requested_ids"]
    seen = list(rq["accepted"].keys()) + [c for c, _ in rq["rejected"]]
    if sorted(seen) != sorted(ids):
        ctx.fail("proposed-ids-accounted", "requestor", f"proposed IDs {ids} but requestor accepted {sorted(rq['accepted'])} + rejected {rq['rejected']}; case={case}")
        return
    if set(rq["accepted"]) != set(ac["accepted"]):
        ctx.fail("accepted-id-sets", "differ", f"requestor accepted {sorted(rq['accepted'])}, acceptor accepted {sorted(ac['accepted'])}; case={case}")
        return
    for cid in sorted(rq["accepted"]):
        r, a = rq["accepted"][cid], ac["accepted"][cid]
        if r[0] != a[0] or r[1] != a[1]:
            ctx.fail("syntax-mismatch", "abstract" if r[0] != a[0] else "transfer", f"context {cid}: requestor {r[:2]} vs acceptor {a[:2]}; case={case}")
            return
        if r[2] != a[3] or r[3] != a[2]:
            prop = case.get("roles", {}).get(r[0])
            sup = [s[2:] for s in case["supported"] if s[0] == r[0]]
            ctx.fail("roles-not-complementary", f"proposal={'none' if prop is None else tuple(prop)}:supported={tuple(sup[0]) if sup else None}",
                     f"context {cid} ({r[0]}): requestor as_scu/as_scp={r[2:]}, acceptor as_scu/as_scp={a[2:]}; proposal {prop}, acceptor roles {sup}; case={case}")
            return


CHECKS = {"views": check_views}


def run(ctx):
    from hypothesis import strategies as st

    base = N.strategy(12 if ctx.quick else 64)
    pol = st.fixed_dictionaries({"policy": st.sampled_from(["fifo", "random"]), "seed": st.integers(0, 9999)})
    ctx.hyp("views", st.tuples(base, pol).map(lambda t: dict(t[0], **t[1])), 200 if ctx.quick else 1500)
