"""timer_ref - independent model of an elapsed-time expiry timer (C09), and the two-axis fake clock.

Written from the C09 statement, the `Timer` class docstring and PS3.8 9.1.5 / Table 9-7 ("AA-2: Stop ARTIM timer
*if running*"):

* timeout None  -> never expired, remaining == 1 (docstring)
* never started -> not expired, remaining == timeout
* started       -> elapsed = time on the ELAPSED (monotonic) axis since the last start()/restart();
                   expired iff elapsed > timeout (strictly "more than"); remaining == timeout - elapsed
* stopped       -> elapsed is frozen at the value it had when the timer stopped running; stop() on a timer that is
                   not running changes nothing ("stop if running")
* the timeout may be changed at any time; expired/remaining always use the current timeout.

`TimerModel(axis="mono", restop="keep")` is the specification. The other parameter values are *defect hypotheses*
used only to LABEL an observed deviation with a root-cause key (never as an expected value):
  axis="wall"      the timer reads the settable wall clock instead of elapsed time
  restop="refreeze" a stop() issued while already stopped moves the freeze point to "now" (as if it had kept running)
"""
from __future__ import annotations

import types


class Clock:
    """Integer-tick clock with two axes: `mono` only moves forward (advance), `wall_offset` is stepped freely."""

    BASE = 1_700_000_000  # wall epoch offset, so that wall and monotonic readings can never be confused

    def __init__(self):
        self.mono = 1000
        self.wall_offset = 0

    def advance(self, dt):
        assert dt >= 0
        self.mono += dt

    def step_wall(self, delta):
        self.wall_offset += delta

    @property
    def wall(self):
        return self.BASE + self.mono + self.wall_offset

    def as_time_module(self, real_time):
        """An object usable in place of the `time` module by code that reads clocks."""
        c = self

        def no_sleep(_d):
            raise AssertionError("timer code must not sleep")

        return types.SimpleNamespace(
            time=lambda: c.wall,
            time_ns=lambda: c.wall * 1_000_000_000,
            monotonic=lambda: c.mono,
            monotonic_ns=lambda: c.mono * 1_000_000_000,
            perf_counter=lambda: c.mono,
            perf_counter_ns=lambda: c.mono * 1_000_000_000,
            sleep=no_sleep,
            # a few non-clock names from the real module, in case logging-style code asks for them
            struct_time=real_time.struct_time,
            gmtime=real_time.gmtime,
            localtime=real_time.localtime,
            strftime=real_time.strftime,
        )


class TimerModel:
    def __init__(self, timeout, clock, axis="mono", restop="keep"):
        self.timeout = timeout
        self.clock = clock
        self.axis = axis
        self.restop = restop
        self.started = False
        self.running = False
        self._t0 = None
        self._frozen = None

    def _now(self):
        return self.clock.mono if self.axis == "mono" else self.clock.wall

    def start(self):
        self.started = True
        self.running = True
        self._t0 = self._now()
        self._frozen = None

    restart = start

    def stop(self):
        if self.running:
            self.running = False
            self._frozen = self._now() - self._t0
        elif self.started and self.restop == "refreeze":
            self._frozen = self._now() - self._t0

    def set_timeout(self, v):
        self.timeout = v

    @property
    def elapsed(self):
        if not self.started:
            return None
        return self._now() - self._t0 if self.running else self._frozen

    @property
    def expired(self):
        if self.timeout is None or not self.started:
            return False
        return self.elapsed > self.timeout

    @property
    def remaining(self):
        if self.timeout is None:
            return 1
        if not self.started:
            return self.timeout
        return self.timeout - self.elapsed
